(* C19, the rest: comment gaps directly after a token, the end of the file, end positions of string tokens. *)
From Coq Require Import List String Ascii ZArith NArith Lia Bool.
From Pory Require Import Lexer LexInv LexLayout LexPos LexBetween.
Import ListNotations.
Open Scope list_scope.

(* ====================================================================================================== *)
(* Part A. Locality of the lexer in front of a token boundary                                              *)
(* ====================================================================================================== *)

(* what may stand behind the boundary in the modified source: nothing, or something that begins like layout *)
Definition layhd (m : list N) : Prop :=
  match m with [] => True | b :: _ => is_ws b = true \/ b = 35%N \/ b = 47%N end.

(* trailing layout: whitespace and comments, the last comment possibly not closed by a newline (end of the file) *)
Inductive tgap : list N -> Prop :=
| tgap_nil : tgap []
| tgap_ws c g : is_ws c = true -> tgap g -> tgap (c :: g)
| tgap_hash body t g : Forall (fun c => c <> 10%N /\ c <> 0%N) body -> t = 10%N \/ t = 0%N -> tgap g -> tgap (35%N :: body ++ t :: g)
| tgap_slash body t g : Forall (fun c => c <> 10%N /\ c <> 0%N) body -> t = 10%N \/ t = 0%N -> tgap g -> tgap (47%N :: 47%N :: body ++ t :: g)
| tgap_hash_open body : Forall (fun c => c <> 10%N /\ c <> 0%N) body -> tgap (35%N :: body)
| tgap_slash_open body : Forall (fun c => c <> 10%N /\ c <> 0%N) body -> tgap (47%N :: 47%N :: body).

Lemma gap_tgap g : gap g -> tgap g.
Proof. induction 1; [constructor|apply tgap_ws|apply tgap_hash|apply tgap_slash]; assumption. Qed.

Lemma gap_layhd g : gap g -> layhd g.
Proof. destruct 1; cbn; auto. Qed.
Lemma tgap_layhd g : tgap g -> layhd g.
Proof. destruct 1; cbn; auto. Qed.
Lemma layhd_app g x : g <> [] -> layhd g -> layhd (g ++ x).
Proof. destruct g; [congruence|]. intros _ H. exact H. Qed.

Lemma dropline_open body : Forall (fun c => c <> 10%N /\ c <> 0%N) body -> dropline body = [].
Proof. induction 1 as [|c b [H1 H2] _ IH]; [reflexivity|]. cbn. apply N.eqb_neq in H1, H2. rewrite H1, H2. cbn. exact IH. Qed.

Theorem tgap_skipped g : tgap g -> skipped g = [].
Proof.
  induction 1 as [|c g W _ IH|body t g HB HT _ IH|body t g HB HT _ IH|body HB|body HB].
  - reflexivity.
  - rewrite (skipped_ws c g W). exact IH.
  - rewrite skipped_com; [|reflexivity|reflexivity]. cbn [dropline]. change (negb (35 =? 10)%N && negb (35 =? 0)%N) with true. cbv iota.
    rewrite (dropline_body body t g HB HT). exact IH.
  - rewrite skipped_com; [|reflexivity|reflexivity]. cbn [dropline]. change (negb (47 =? 10)%N && negb (47 =? 0)%N) with true. cbv iota.
    rewrite (dropline_body body t g HB HT). exact IH.
  - rewrite skipped_com; [|reflexivity|reflexivity]. cbn [dropline]. change (negb (35 =? 10)%N && negb (35 =? 0)%N) with true. cbv iota.
    rewrite (dropline_open body HB). reflexivity.
  - rewrite skipped_com; [|reflexivity|reflexivity]. cbn [dropline]. change (negb (47 =? 10)%N && negb (47 =? 0)%N) with true. cbv iota.
    rewrite (dropline_open body HB). reflexivity.
Qed.

(* a comment start is none of the characters the token readers look for *)
Lemma lay_plain hl hd b : is_ws b = true \/ b = 35%N \/ b = 47%N -> is_letter hl b = false /\ is_digit hd b = false /\ is_hex b = false.
Proof. intros [H|[->| ->]]; [apply (ws_plain hl hd b H)| |]; repeat split; reflexivity. Qed.

Lemma read_while_stop f p l acc : (chs l = [] \/ p (hd 0%N (chs l)) = false) -> read_while f p l acc = (rev acc, l).
Proof. intros H. destruct f as [|f]; [reflexivity|]. cbn [read_while]. destruct (chs l) as [|c x]; [reflexivity|]. destruct H as [H|H]; [discriminate|]. cbn [hd] in H. rewrite H. reflexivity. Qed.

(* k calls of the lexer, none of them at the end of the input: the tokens they return and the state reached *)
Fixpoint runs (hl hd hs : N -> bool) (k : nat) (l : lx) (ts : list token) (l' : lx) : Prop :=
  match k with
  | O => ts = [] /\ l' = l
  | S k' => exists ts1 l1 ts2, next_token_aux hl hd hs l = (ts1, l1, false) /\ runs hl hd hs k' l1 ts2 l' /\ ts = ts1 ++ ts2
  end.

Lemma runs_suf hl hd hs : forall k l ts l', runs hl hd hs k l ts l' -> suf (chs l') (chs l).
Proof.
  induction k as [|k IH]; intros l ts l' H; cbn in H; [destruct H as [_ ->]; apply suf_refl|]. destruct H as (ts1 & l1 & ts2 & NT & R & _).
  eapply suf_trans; [apply (IH _ _ _ R)|]. pose proof (suf_next_token hl hd hs l) as S. rewrite NT in S. exact S.
Qed.
Lemma runs_reaches hl hd hs r : forall k l, reaches hl hd hs r k l <-> exists ts l', runs hl hd hs k l ts l' /\ chs l' = r.
Proof.
  induction k as [|k IH]; intros l; cbn [reaches runs].
  - split; [intros H; exists [], l; auto|intros (ts & l' & [_ ->] & H); exact H].
  - split.
    + intros (ts1 & l1 & NT & R). apply IH in R. destruct R as (ts2 & l' & R & E). exists (ts1 ++ ts2), l'. split; [|exact E]. exists ts1, l1, ts2. auto.
    + intros (ts & l' & (ts1 & l1 & ts2 & NT & R & _) & E). exists ts1, l1. split; [exact NT|]. apply IH. exists ts2, l'. auto.
Qed.
Lemma lex_all_runs hl hd hs : forall k l ts l', runs hl hd hs k l ts l' -> forall f, (len l < f)%nat ->
  exists f', (len l' < f')%nat /\ lex_all hl hd hs f l = ts ++ lex_all hl hd hs f' l'.
Proof.
  induction k as [|k IH]; intros l ts l' H f L; cbn in H.
  - destruct H as [-> ->]. exists f. auto.
  - destruct H as (ts1 & l1 & ts2 & NT & R & ->). destruct f as [|f]; [lia|]. cbn [lex_all]. rewrite NT.
    pose proof (next_token_progress hl hd hs _ _ _ NT) as P. destruct (IH _ _ _ R f ltac:(lia)) as (f' & L' & E).
    exists f'. split; [exact L'|]. rewrite E, app_assoc. reflexivity.
Qed.
(* a state from which only layout remains produces the EOF token and nothing else *)
Lemma lex_all_at_end hl hd hs f l : skipped (chs l) = [] -> map shape (lex_all hl hd hs (S f) l) = [(EOF, [])].
Proof.
  intros H. cbn [lex_all]. rewrite next_token_aux_core. unfold nt_core. rewrite chs_skipall, H. reflexivity.
Qed.

Section LOC2.
Variable is_letter_hi is_digit_hi is_space_hi : N -> bool.
Variable r m : list N.
Hypothesis Hr : r <> [].
Hypothesis Hm : layhd m.
Notation is_letter := (is_letter is_letter_hi).
Notation is_digit := (is_digit is_digit_hi).
Notation hb := (hd 0%N m).

Lemma hb_cases : m = [] \/ exists m0, m = hb :: m0 /\ (is_ws hb = true \/ hb = 35%N \/ hb = 47%N).
Proof. unfold layhd in Hm. destruct m as [|b m0]; [left; reflexivity|right; exists m0; split; [reflexivity|exact Hm]]. Qed.
Lemma hb_letter : is_letter hb = false.
Proof. destruct hb_cases as [E|(m0 & E & H)]; [rewrite E; reflexivity|apply (lay_plain is_letter_hi is_digit_hi _ H)]. Qed.
Lemma hb_digit : is_digit hb = false.
Proof. destruct hb_cases as [E|(m0 & E & H)]; [rewrite E; reflexivity|apply (lay_plain is_letter_hi is_digit_hi _ H)]. Qed.
Lemma hb_hex : is_hex hb = false.
Proof. destruct hb_cases as [E|(m0 & E & H)]; [rewrite E; reflexivity|apply (lay_plain is_letter_hi is_digit_hi _ H)]. Qed.
Lemma hb_not k : is_ws k = false -> k <> 35%N -> k <> 47%N -> k <> 0%N -> (hb =? k)%N = false.
Proof.
  intros W K1 K2 K3. apply N.eqb_neq. intros E. destruct hb_cases as [E0|(m0 & _ & [H|[H|H]])].
  - rewrite E0 in E. cbn in E. congruence.
  - rewrite E in H. congruence.
  - congruence.
  - congruence.
Qed.

(* the '/' that a '//' gap would fuse with *)
Definition safe (q : list N) : Prop := hb = 47%N -> last q 0%N <> 47%N.
Lemma safe_tl c q : safe (c :: q) -> safe q.
Proof. intros H E. specialize (H E). destruct q as [|d q]; [cbn; discriminate|exact H]. Qed.
Lemma safe_suf q' q : suf q' q -> safe q -> safe q'.
Proof. intros [x ->]. induction x as [|c x IH]; intros H; [exact H|]. apply IH. apply (safe_tl c). exact H. Qed.
Lemma safe_nil : safe [].
Proof. intros _. cbn. discriminate. Qed.

(* the two runs: q characters before the boundary *)
Definition Bef2 (q : list N) (lo lm : lx) : Prop := chs lo = q ++ r /\ chs lm = q ++ m /\ safe q.

Lemma bef2_ch c q lo lm : Bef2 (c :: q) lo lm -> ch lo = c /\ ch lm = c.
Proof. intros (A & B & _). unfold ch. rewrite A, B. split; reflexivity. Qed.
Lemma bef2_ne q lo lm : Bef2 q lo lm -> chs lo <> [].
Proof. intros (A & _). rewrite A. intros E. apply app_eq_nil in E. destruct E as [_ E]. exact (Hr E). Qed.
Lemma bef2_nem c q lo lm : Bef2 (c :: q) lo lm -> chs lm <> [].
Proof. intros (_ & B & _). rewrite B. discriminate. Qed.
Lemma bef2_read_char c q lo lm : Bef2 (c :: q) lo lm -> Bef2 q (read_char lo) (read_char lm).
Proof. intros (A & B & S). unfold Bef2. rewrite !chs_read_char, A, B. split; [reflexivity|]. split; [reflexivity|]. apply (safe_tl c). exact S. Qed.
Lemma bef2_len q lo lm : Bef2 q lo lm -> len lo = (List.length q + List.length r)%nat /\ len lm = (List.length q + List.length m)%nat.
Proof. intros (A & B & _). unfold len. rewrite A, B, !app_length. split; lia. Qed.
Lemma bef2_peek2 c d q lo lm : Bef2 (c :: d :: q) lo lm -> peek lo = d /\ peek lm = d.
Proof. intros (A & B & _). unfold peek. rewrite A, B. split; reflexivity. Qed.
Lemma bef2_peek1 c lo lm : Bef2 [c] lo lm -> peek lo = hd 0%N r /\ peek lm = hb.
Proof. intros (A & B & _). unfold peek. rewrite A, B. cbn. destruct r; [congruence|]. split; [reflexivity|]. destruct m; reflexivity. Qed.
Lemma bef2_at lo lm : Bef2 [] lo lm -> chs lo = r /\ chs lm = m /\ ch lm = hb.
Proof. intros (A & B & _). cbn [app] in A, B. split; [exact A|]. split; [exact B|]. unfold ch. rewrite B. destruct m; reflexivity. Qed.
Lemma bef2_sub q q' lo lm lo' lm' : Bef2 q lo lm -> suf q' q -> chs lo' = q' ++ r -> chs lm' = q' ++ m -> Bef2 q' lo' lm'.
Proof. intros (_ & _ & S) SF A B. split; [exact A|]. split; [exact B|]. eapply safe_suf; eassumption. Qed.

Lemma loc2_read_while p : forall q f fm lo lm acc q',
  Bef2 q lo lm -> (len lo < f)%nat -> (len lm < fm)%nat ->
  chs (snd (read_while f p lo acc)) = q' ++ r -> (q' <> [] \/ p hb = false) ->
  fst (read_while f p lo acc) = fst (read_while fm p lm acc) /\ Bef2 q' (snd (read_while f p lo acc)) (snd (read_while fm p lm acc)).
Proof.
  induction q as [|c q IH]; intros f fm lo lm acc q' BF L Lm H D.
  - pose proof BF as (A & B & SF). cbn [app] in A, B.
    assert (Q : q' = []).
    { pose proof (suf_read_while f p lo acc) as S. rewrite H, A in S. apply suf_len in S. rewrite app_length in S. destruct q'; [reflexivity|cbn in S; lia]. }
    subst q'. destruct D as [D|D]; [congruence|]. cbn [app] in H.
    rewrite (read_while_stop fm p lm acc) by (rewrite B; destruct m; [left; reflexivity|right; exact D]).
    destruct f as [|f]; [lia|]. cbn [read_while] in *.
    destruct (chs lo) as [|a t] eqn:EC.
    + cbn [fst snd]. split; [reflexivity|exact BF].
    + destruct (p a) eqn:PA.
      * exfalso. pose proof (len_read_while f p (read_char lo) (a :: acc)) as X. rewrite len_read_char in X. unfold len in X. rewrite H, EC in X.
        assert (LR : List.length r = S (List.length t)) by (rewrite <- A; reflexivity). cbn [List.length] in X. lia.
      * cbn [fst snd]. split; [reflexivity|exact BF].
  - pose proof BF as (A & B & SF). destruct (bef2_len _ _ _ BF) as [LA LB]. cbn [List.length] in LA, LB.
    destruct f as [|f]; [lia|]. destruct fm as [|fm]; [lia|]. cbn [read_while] in *. rewrite A, B in *. cbn [app] in *.
    destruct (p c).
    + apply (IH f fm (read_char lo) (read_char lm) (c :: acc) q'); [apply (bef2_read_char c); exact BF| | |exact H|exact D];
        rewrite len_read_char; lia.
    + cbn [fst snd] in *. split; [reflexivity|]. rewrite A in H. change (c :: q ++ r) with ((c :: q) ++ r) in H. apply app_inv_tail in H. subst q'. exact BF.
Qed.

Lemma loc2_skip_nl : forall q f fm lo lm sk q',
  Bef2 q lo lm -> (len lo < f)%nat -> (len lm < fm)%nat ->
  chs (fst (skip_nl f lo sk)) = q' ++ r -> q' <> [] ->
  snd (skip_nl f lo sk) = snd (skip_nl fm lm sk) /\ Bef2 q' (fst (skip_nl f lo sk)) (fst (skip_nl fm lm sk)).
Proof.
  induction q as [|c q IH]; intros f fm lo lm sk q' BF L Lm H D.
  - exfalso. pose proof BF as (A & B & _). cbn [app] in A. pose proof (suf_skip_nl f lo sk) as S. rewrite H, A in S. apply suf_len in S. rewrite app_length in S. destruct q'; [congruence|cbn in S; lia].
  - pose proof BF as (A & B & SF). destruct (bef2_ch _ _ _ _ BF) as [C1 C2]. pose proof (bef2_ne _ _ _ BF) as N1. pose proof (bef2_nem _ _ _ _ BF) as N2.
    destruct (bef2_len _ _ _ BF) as [LA LB]. cbn [List.length] in LA, LB.
    destruct f as [|f]; [lia|]. destruct fm as [|fm]; [lia|]. cbn [skip_nl] in *. rewrite C1, C2 in *.
    assert (E1 : negb (match chs lo with [] => true | _ => false end) = true) by (destruct (chs lo); [congruence|reflexivity]).
    assert (E2 : negb (match chs lm with [] => true | _ => false end) = true) by (destruct (chs lm); [congruence|reflexivity]).
    rewrite E1, E2 in *. rewrite andb_true_r in *. destruct ((c =? 10) || (c =? 13))%N.
    + apply (IH f fm (read_char lo) (read_char lm) true q'); [apply (bef2_read_char c); exact BF| | |exact H|exact D]; rewrite len_read_char; lia.
    + cbn [fst snd] in *. split; [reflexivity|]. rewrite A in H. change (c :: q ++ r) with ((c :: q) ++ r) in H. apply app_inv_tail in H. subst q'. exact BF.
Qed.

Lemma dropws_between2 : forall q q', dropws (q ++ r) = q' ++ r -> q' <> [] -> dropws (q ++ m) = q' ++ m /\ suf q' q.
Proof.
  induction q as [|c q IH]; intros q' H D.
  - exfalso. cbn [app] in H. pose proof (dropws_len r) as L. rewrite H, app_length in L. destruct q'; [congruence|cbn in L; lia].
  - cbn [app dropws] in *. destruct (is_ws c).
    + destruct (IH q' H D) as [E S]. split; [exact E|]. eapply suf_trans; [exact S|]. exists [c]. reflexivity.
    + change (c :: q ++ r) with ((c :: q) ++ r) in H. apply app_inv_tail in H. subst q'. split; [reflexivity|apply suf_refl].
Qed.
Lemma loc2_skip_ws q f fm lo lm q' :
  Bef2 q lo lm -> (len lo < f)%nat -> (len lm < fm)%nat -> chs (skip_ws f lo) = q' ++ r -> q' <> [] -> Bef2 q' (skip_ws f lo) (skip_ws fm lm).
Proof.
  intros BF L Lm H D. pose proof BF as (A & B & SF). rewrite chs_skip_ws in H by exact L. rewrite A in H.
  destruct (dropws_between2 q q' H D) as [E S].
  apply (bef2_sub q q' lo lm); [exact BF|exact S| |].
  - rewrite chs_skip_ws by exact L. rewrite A. exact H.
  - rewrite chs_skip_ws by exact Lm. rewrite B. exact E.
Qed.

(* what skipping does in the modified source *)
Lemma skipped_between2 q q' : safe q -> skipped (q ++ r) = q' ++ r ->
  suf q' q /\ (q' = [] -> skipped (q ++ m) = skipped m) /\ (q' <> [] -> skipped (q ++ m) = q' ++ m).
Proof.
  intros SF H. destruct (suf_skipped (q ++ r)) as [x X]. rewrite H in X. rewrite app_assoc in X. apply app_inv_tail in X. subst q.
  split; [exists x; reflexivity|].
  assert (GX : gap x).
  { apply (exact_gap (q' ++ r)) with (n := List.length x); [destruct q'; [exact Hr|discriminate]|lia|]. rewrite <- app_assoc in H. exact H. }
  rewrite <- !app_assoc. rewrite (gap_skipped x GX).
  assert (FX : skipped (q' ++ r) = q' ++ r).
  { rewrite <- H. apply (skipped_idem (List.length ((x ++ q') ++ r))). lia. }
  split.
  - intros ->. reflexivity.
  - intros NQ. destruct q' as [|c q1]; [congruence|]. cbn [app] in *.
    destruct (skipped_fix_inv _ FX) as [E|[W A]]; [discriminate|]. cbn [hd] in W. apply skipped_stop; [exact W|].
    unfold atc in *. destruct q1 as [|d q2]; [|exact A]. cbn [app] in *.
    destruct (c =? 35)%N; [discriminate A|]. cbn [orb] in *. destruct (c =? 47)%N eqn:C47; [|reflexivity]. cbn [andb].
    apply N.eqb_eq in C47. subst c. apply N.eqb_neq. intros E.
    assert (HB : hb = 47%N) by (destruct m; [discriminate E|exact E]).
    apply (SF HB). apply last_last.
Qed.

(* skipping layout as a unit: either the run stops before the boundary, or it reaches it *)
Lemma loc2_skipall q lo lm q' :
  Bef2 q lo lm -> chs (skipall lo) = q' ++ r ->
  (q' <> [] /\ Bef2 q' (skipall lo) (skipall lm)) \/ (q' = [] /\ chs (skipall lm) = skipped m).
Proof.
  intros BF H. pose proof BF as (A & B & SF). rewrite chs_skipall, A in H. destruct (skipped_between2 q q' SF H) as (S0 & S1 & S2).
  destruct q' as [|c q1].
  - right. split; [reflexivity|]. rewrite chs_skipall, B. apply S1. reflexivity.
  - left. split; [discriminate|]. apply (bef2_sub q (c :: q1) lo lm); [exact BF|exact S0| |].
    + rewrite chs_skipall, A. exact H.
    + rewrite chs_skipall, B. apply S2. discriminate.
Qed.

Lemma sandwich_ne2 q lo X q' : chs lo = q ++ r -> suf X (chs lo) -> suf (q' ++ r) X -> q' <> [] -> exists q1, X = q1 ++ r /\ q1 <> [].
Proof. intros A S1 S2 N. destruct (sandwich r q lo X q' A S1 S2) as (q1 & E & S3 & _). exists q1. split; [exact E|eapply suf_ne; eassumption]. Qed.

(* the body of one string part: it ends at the closing quote, strictly before the boundary *)
Lemma loc2_read_str_part : forall f fm q lo lm acc q',
  Bef2 q lo lm -> (len lo < f)%nat -> (len lm < fm)%nat ->
  chs (snd (read_str_part f lo acc)) = q' ++ r -> q' <> [] ->
  fst (read_str_part f lo acc) = fst (read_str_part fm lm acc) /\ Bef2 q' (snd (read_str_part f lo acc)) (snd (read_str_part fm lm acc)).
Proof.
  induction f as [|f IH]; intros fm q lo lm acc q' BF L Lm H D; [lia|]. destruct fm as [|fm]; [lia|].
  pose proof BF as (A & B & SF).
  destruct q as [|c q].
  { exfalso. cbn [app] in A. pose proof (suf_read_str_part (S f) lo acc) as S. rewrite H, A in S. apply suf_len in S. rewrite app_length in S. destruct q'; [congruence|cbn in S; lia]. }
  destruct (bef2_ch _ _ _ _ BF) as [C1 C2]. destruct (bef2_len _ _ _ BF) as [LA LB]. cbn [List.length] in LA, LB.
  cbn [read_str_part] in *. rewrite C1, C2 in *.
  destruct ((c =? 34) || (c =? 0))%N.
  { cbn [fst snd] in *. split; [reflexivity|]. rewrite A in H. apply app_inv_tail in H. subst q'. exact BF. }
  pose proof (suf_skip_nl (fuel_of lo) lo false) as S1.
  destruct (skip_nl (fuel_of lo) lo false) as [lo1 sk] eqn:EO. destruct (skip_nl (fuel_of lm) lm false) as [lm1 skm] eqn:EM. cbn [fst] in S1.
  destruct sk.
  - set (lo2 := skip_ws (fuel_of lo1) lo1) in *.
    assert (S2 : suf (chs lo2) (chs lo1)) by apply suf_skip_ws.
    assert (S3 : suf (q' ++ r) (chs lo2)).
    { destruct ((ch lo2 =? 34) || (ch lo2 =? 0))%N; cbn [snd] in H; rewrite <- H; [apply suf_refl|]. eapply suf_trans; [apply suf_read_str_part|apply suf_read_char]. }
    destruct (sandwich_ne2 (c :: q) lo (chs lo1) q' A S1 (suf_trans _ _ _ S3 S2) D) as (q1 & E1 & N1).
    pose proof (loc2_skip_nl (c :: q) (fuel_of lo) (fuel_of lm) lo lm false q1 BF ltac:(unfold fuel_of, len; lia) ltac:(unfold fuel_of, len; lia)) as LN.
    rewrite EO, EM in LN. cbn [fst snd] in LN. destruct (LN E1 N1) as [SK B1]. subst skm.
    destruct (sandwich_ne2 q1 lo1 (chs lo2) q' (proj1 B1) S2 S3 D) as (q2 & E2 & N2).
    pose proof (loc2_skip_ws q1 (fuel_of lo1) (fuel_of lm1) lo1 lm1 q2 B1 ltac:(unfold fuel_of, len; lia) ltac:(unfold fuel_of, len; lia) E2 N2) as B2.
    fold lo2 in B2. set (lm2 := skip_ws (fuel_of lm1) lm1) in *.
    destruct q2 as [|c2 q2]; [congruence|]. destruct (bef2_ch _ _ _ _ B2) as [D1 D2]. rewrite D1, D2 in *.
    destruct ((c2 =? 34) || (c2 =? 0))%N.
    + cbn [fst snd] in *. split; [reflexivity|]. rewrite E2 in H. apply app_inv_tail in H. subst q'. exact B2.
    + destruct (bef2_len _ _ _ B2) as [LA2 LB2]. cbn [List.length] in LA2, LB2.
      pose proof (len_skip_ws (fuel_of lo1) lo1) as G1. pose proof (len_skip_nl (fuel_of lo) lo false) as G2. rewrite EO in G2. cbn [fst] in G2. fold lo2 in G1.
      pose proof (len_skip_ws (fuel_of lm1) lm1) as G3. pose proof (len_skip_nl (fuel_of lm) lm false) as G4. rewrite EM in G4. cbn [fst] in G4. fold lm2 in G3.
      apply (IH fm q2 (read_char lo2) (read_char lm2) _ q'); [apply (bef2_read_char c2); exact B2| | |exact H|exact D]; rewrite len_read_char; lia.
  - assert (SK : skm = false).
    { unfold fuel_of in EO, EM. cbn [skip_nl] in EO, EM. rewrite C1 in EO. rewrite C2 in EM.
      pose proof (bef2_ne _ _ _ BF) as N1. pose proof (bef2_nem _ _ _ _ BF) as N2.
      assert (X1 : negb (match chs lo with [] => true | _ => false end) = true) by (destruct (chs lo); [congruence|reflexivity]).
      assert (X2 : negb (match chs lm with [] => true | _ => false end) = true) by (destruct (chs lm); [congruence|reflexivity]).
      rewrite X1 in EO. rewrite X2 in EM. rewrite andb_true_r in *.
      destruct ((c =? 10) || (c =? 13))%N.
      - exfalso. pose proof (skip_nl_true (List.length (chs lo)) (read_char lo)) as T. rewrite EO in T. cbn in T. discriminate.
      - inversion EM. reflexivity. }
    subst skm.
    apply (IH fm q (read_char lo) (read_char lm) _ q'); [apply (bef2_read_char c); exact BF| | |exact H|exact D]; rewrite len_read_char; lia.
Qed.

(* what stands behind the boundary does not continue a string, in the original source or in the modified one *)
Hypothesis Hq : skipped r = r -> hd 0%N r <> 34%N -> hd 0%N (skipped m) <> 34%N.

Lemma ch_hd2 l : ch l = hd 0%N (chs l).
Proof. unfold ch. destruct (chs l); reflexivity. Qed.
Lemma read_string'_stop2 f l acc e : hd 0%N (chs l) <> 34%N -> read_string' f l acc e = (acc, e, l).
Proof. intros H. destruct f as [|f]; [reflexivity|]. cbn [read_string']. rewrite ch_hd2. apply N.eqb_neq in H. rewrite H. reflexivity. Qed.

(* the string reader standing exactly at the boundary reads nothing *)
Lemma read_string'_at_r f l acc e q' : chs l = r -> (len l < f)%nat -> chs (snd (read_string' f l acc e)) = q' ++ r ->
  read_string' f l acc e = (acc, e, l) /\ q' = [] /\ hd 0%N r <> 34%N.
Proof.
  intros A L H. destruct f as [|f]; [lia|]. cbn [read_string'] in *.
  assert (X1 : negb (match chs l with [] => true | _ => false end) = true) by (rewrite A; destruct r; [congruence|reflexivity]).
  rewrite X1 in *. rewrite andb_true_r in *. destruct (ch l =? 34)%N eqn:CO.
  - exfalso.
    pose proof (len_read_str_part (fuel_of (read_char l)) (read_char l) (match acc with [] => acc | _ => acc ++ [10%N] end)) as H1.
    destruct (read_str_part (fuel_of (read_char l)) (read_char l) _) as [a1 l2]. cbn [snd] in H1.
    pose proof (len_read_char l2) as R3. set (l3 := read_char l2) in *.
    pose proof (len_skip_ws (fuel_of l3) l3) as R4. set (l4 := skip_ws (fuel_of l3) l3) in *.
    pose proof (len_skip_comments (fuel_of l4) l4) as R5. set (l5 := skip_comments (fuel_of l4) l4) in *.
    pose proof (len_read_string' f l5 a1 (line l3, pcn l3, pun l3)) as R6. rewrite len_read_char in H1.
    unfold len in R6 at 1. rewrite H in R6. rewrite app_length in R6.
    assert (LP : (0 < len l)%nat) by (apply len_pos; rewrite A; exact Hr).
    assert (LL : len l = List.length r) by (unfold len; rewrite A; reflexivity). lia.
  - cbn [snd] in H. split; [reflexivity|]. split.
    + rewrite A in H. symmetry in H. apply (eq_tail_nil r) in H. exact H.
    + rewrite ch_hd2, A in CO. apply N.eqb_neq in CO. exact CO.
Qed.

(* a whole string token (several parts, layout between them): it ends before the boundary, or its trailing layout skip
   reaches the boundary *)
Lemma loc2_read_string' : forall f fm q lo lm acc e em q',
  Bef2 q lo lm -> (len lo < f)%nat -> (len lm < fm)%nat ->
  chs (snd (read_string' f lo acc e)) = q' ++ r ->
  fst (fst (read_string' f lo acc e)) = fst (fst (read_string' fm lm acc em)) /\
  (Bef2 q' (snd (read_string' f lo acc e)) (snd (read_string' fm lm acc em)) \/
   (q' = [] /\ chs (snd (read_string' fm lm acc em)) = skipped m)).
Proof.
  induction f as [|f IH]; intros fm q lo lm acc e em q' BF L Lm H; [lia|]. destruct fm as [|fm]; [lia|].
  pose proof BF as (A & B & SF). pose proof (bef2_ne _ _ _ BF) as N1. destruct (bef2_len _ _ _ BF) as [LA LB].
  destruct q as [|c q].
  - (* at the boundary *)
    destruct (bef2_at _ _ BF) as (A0 & B0 & CM).
    destruct (read_string'_at_r (S f) lo acc e q' A0 L H) as (R & Q' & _). rewrite R in *. subst q'.
    assert (CM2 : hd 0%N (chs lm) <> 34%N). { rewrite <- ch_hd2, CM. apply N.eqb_neq. apply hb_not; [reflexivity|discriminate|discriminate|discriminate]. }
    rewrite (read_string'_stop2 (S fm) lm acc em CM2). cbn [fst snd]. split; [reflexivity|]. left. exact BF.
  - pose proof (bef2_nem _ _ _ _ BF) as N2.
    assert (X1 : negb (match chs lo with [] => true | _ => false end) = true) by (destruct (chs lo); [congruence|reflexivity]).
    assert (X2 : negb (match chs lm with [] => true | _ => false end) = true) by (destruct (chs lm); [congruence|reflexivity]).
    cbn [read_string'] in *. rewrite X1, X2 in *. rewrite !andb_true_r in *.
    destruct (bef2_ch _ _ _ _ BF) as [C1 C2]. rewrite C1, C2 in *. cbn [List.length] in LA, LB.
    destruct (c =? 34)%N.
    2:{ cbn [fst snd] in *. split; [reflexivity|]. left. rewrite A in H. apply app_inv_tail in H. subst q'. exact BF. }
    pose proof (bef2_read_char _ _ _ _ BF) as B1.
    set (acc0 := match acc with [] => acc | _ => acc ++ [10%N] end) in *.
    pose proof (suf_read_str_part (fuel_of (read_char lo)) (read_char lo) acc0) as S2.
    pose proof (len_read_str_part (fuel_of (read_char lo)) (read_char lo) acc0) as G2.
    pose proof (len_read_str_part (fuel_of (read_char lm)) (read_char lm) acc0) as G2m.
    pose proof (loc2_read_str_part (fuel_of (read_char lo)) (fuel_of (read_char lm)) q (read_char lo) (read_char lm) acc0) as LP.
    destruct (read_str_part (fuel_of (read_char lo)) (read_char lo) acc0) as [a1 lo2].
    destruct (read_str_part (fuel_of (read_char lm)) (read_char lm) acc0) as [a1m lm2]. cbn [fst snd] in *.
    change (skip_comments (fuel_of (skip_ws (fuel_of (read_char lo2)) (read_char lo2))) (skip_ws (fuel_of (read_char lo2)) (read_char lo2))) with (skipall (read_char lo2)) in *.
    change (skip_comments (fuel_of (skip_ws (fuel_of (read_char lm2)) (read_char lm2))) (skip_ws (fuel_of (read_char lm2)) (read_char lm2))) with (skipall (read_char lm2)) in *.
    set (lo5 := skipall (read_char lo2)) in *. set (lm5 := skipall (read_char lm2)) in *.
    assert (S6 : suf (q' ++ r) (chs lo5)) by (rewrite <- H; apply suf_read_string').
    assert (S5 : suf (chs lo5) (chs (read_char lo2))) by apply suf_skipall.
    assert (S3 : suf (chs (read_char lo2)) (chs lo2)) by apply suf_read_char.
    destruct (sandwich r q (read_char lo) (chs lo2) q' (proj1 B1) S2 (suf_trans _ _ _ S6 (suf_trans _ _ _ S5 S3))) as (q2 & E2 & _ & _).
    assert (NQ2 : q2 <> []).
    { intros ->. cbn [app] in E2. pose proof (suf_len _ _ S6) as Z1. pose proof (suf_len _ _ S5) as Z2. rewrite chs_read_char, E2 in Z2.
      rewrite app_length in Z1. destruct r; [congruence|]. cbn in *. lia. }
    destruct (LP q2 B1 ltac:(unfold fuel_of, len; lia) ltac:(unfold fuel_of, len; lia) E2 NQ2) as [EA B2]. subst a1m.
    destruct q2 as [|c2 q3]; [congruence|]. pose proof (bef2_read_char _ _ _ _ B2) as B3.
    destruct (sandwich r q3 (read_char lo2) (chs lo5) q' (proj1 B3) S5 S6) as (q5 & E5 & _ & _).
    destruct (bef2_len _ _ _ B1) as [LA1 LB1]. rewrite len_read_char in G2, G2m.
    pose proof (len_skipall (read_char lo2)) as G5. pose proof (len_skipall (read_char lm2)) as G5m. rewrite len_read_char in G5, G5m. fold lo5 in G5. fold lm5 in G5m.
    destruct (loc2_skipall q3 (read_char lo2) (read_char lm2) q5 B3 E5) as [[NQ5 B5]|[EQ5 SM]].
    + fold lo5 lm5 in B5. apply (IH fm q5 lo5 lm5 a1 _ _ q' B5); [lia|lia|exact H].
    + fold lm5 in SM. subst q5. cbn [app] in E5.
      destruct (read_string'_at_r f lo5 a1 (line (read_char lo2), pcn (read_char lo2), pun (read_char lo2)) q' E5 ltac:(lia) H) as (R & Q' & NQ).
      rewrite R. subst q'.
      assert (FX : skipped r = r).
      { rewrite <- E5 at 2. unfold lo5. rewrite chs_skipall. rewrite <- E5. unfold lo5. rewrite chs_skipall. apply (skipped_idem (List.length (chs (read_char lo2)))). lia. }
      rewrite (read_string'_stop2 fm lm5) by (rewrite SM; apply Hq; assumption).
      cbn [fst snd]. split; [reflexivity|]. right. split; [reflexivity|exact SM].
Qed.

Notation read_ident := (read_ident is_letter_hi is_digit_hi).
Notation nt_core := (nt_core is_letter_hi is_digit_hi is_space_hi).
Notation next_token_aux := (next_token_aux is_letter_hi is_digit_hi is_space_hi).
Notation lex_all := (lex_all is_letter_hi is_digit_hi is_space_hi).

Definition ok_res2 (q' : list N) (ro rm : list token * lx) : Prop :=
  map shape (fst ro) = map shape (fst rm) /\
  (Bef2 q' (snd ro) (snd rm) \/ (q' = [] /\ chs (snd rm) = skipped m)).

Lemma loc2_read_string_token q lo lm q' :
  Bef2 q lo lm -> chs (snd (read_string_token lo)) = q' ++ r -> ok_res2 q' (let '(tk, l') := read_string_token lo in ([tk], l')) (let '(tk, l') := read_string_token lm in ([tk], l')).
Proof.
  intros BF H. unfold read_string_token in *.
  pose proof (loc2_read_string' (fuel_of lo) (fuel_of lm) q lo lm [] (0, 0, 0)%Z (0, 0, 0)%Z q' BF ltac:(unfold fuel_of, len; lia) ltac:(unfold fuel_of, len; lia)) as L.
  destruct (read_string' (fuel_of lo) lo [] (0, 0, 0)%Z) as [[lit [[el eb] eu]] l1].
  destruct (read_string' (fuel_of lm) lm [] (0, 0, 0)%Z) as [[litm [[elm ebm] eum]] l1m]. cbn [fst snd] in *.
  destruct (L H) as [E R]. subst litm. split; [reflexivity|exact R].
Qed.

Lemma loc2_read_ident c q lo lm q' :
  Bef2 (c :: q) lo lm -> chs (snd (read_ident lo)) = q' ++ r ->
  fst (read_ident lo) = fst (read_ident lm) /\ Bef2 q' (snd (read_ident lo)) (snd (read_ident lm)).
Proof.
  intros BF H. pose proof BF as (A & B & SF). unfold Lexer.read_ident in *. rewrite A, B in *. cbn [app] in *. destruct (is_letter c).
  - pose proof (loc2_read_while (fun x => is_letter x || is_digit x) q (fuel_of lo) (fuel_of lm) (read_char lo) (read_char lm) [] q' (bef2_read_char _ _ _ _ BF)) as L.
    destruct (bef2_len _ _ _ BF) as [LA LB].
    destruct (read_while (fuel_of lo) _ (read_char lo) []) as [r1 l1]. destruct (read_while (fuel_of lm) _ (read_char lm) []) as [r1m l1m]. cbn [fst snd] in *.
    destruct (L ltac:(rewrite len_read_char; unfold fuel_of, len; lia) ltac:(rewrite len_read_char; unfold fuel_of, len; lia) H) as [E R];
      [right; rewrite hb_letter, hb_digit; reflexivity|]. subst r1m. split; [reflexivity|exact R].
  - cbn [fst snd] in *. split; [reflexivity|]. rewrite A in H. change (c :: q ++ r) with ((c :: q) ++ r) in H. apply app_inv_tail in H. subst q'. exact BF.
Qed.

Lemma core2_one c q1 lo lm q' ty : Bef2 (c :: q1) lo lm -> chs (read_char lo) = q' ++ r -> ok_res2 q' ([single ty lo], read_char lo) ([single ty lm], read_char lm).
Proof.
  intros BF H. destruct (bef2_ch _ _ _ _ BF) as [C1 C2]. split; [unfold single, shape; cbn; rewrite C1, C2; reflexivity|]. left. cbn [snd].
  pose proof (bef2_read_char _ _ _ _ BF) as B1. pose proof B1 as (A1 & _). rewrite A1 in H. apply app_inv_tail in H. subst q'. exact B1.
Qed.
Lemma core2_tok c q1 lo lm q' tko tkm : Bef2 (c :: q1) lo lm -> shape tko = shape tkm -> chs (read_char lo) = q' ++ r ->
  ok_res2 q' ([tko], read_char lo) ([tkm], read_char lm).
Proof.
  intros BF SH H. split; [cbn; rewrite SH; reflexivity|]. left. cbn [snd].
  pose proof (bef2_read_char _ _ _ _ BF) as B1. pose proof B1 as (A1 & _). rewrite A1 in H. apply app_inv_tail in H. subst q'. exact B1.
Qed.
Lemma core2_two c lo lm q' ty d q2 : Bef2 (c :: d :: q2) lo lm -> chs (read_char (read_char lo)) = q' ++ r ->
  ok_res2 q' (let '(tk, l2) := double ty lo in ([tk], l2)) (let '(tk, l2) := double ty lm in ([tk], l2)).
Proof.
  intros BF H. destruct (bef2_ch _ _ _ _ BF) as [C1 C2]. pose proof (bef2_read_char _ _ _ _ BF) as B1. destruct (bef2_ch _ _ _ _ B1) as [D1 D2].
  pose proof (bef2_read_char _ _ _ _ B1) as B2. unfold double. cbn [fst snd]. split; [unfold shape; cbn; rewrite C1, C2, D1, D2; reflexivity|]. left.
  pose proof B2 as (A2 & _). rewrite A2 in H. apply app_inv_tail in H. subst q'. exact B2.
Qed.
Lemma core2_op c q1 lo lm q' k ty2 ty1 : Bef2 (c :: q1) lo lm -> is_ws k = false -> k <> 35%N -> k <> 47%N -> k <> 0%N ->
  chs (snd (if (peek lo =? k)%N then (let '(tk, l2) := double ty2 lo in ([tk], l2)) else ([single ty1 lo], read_char lo))) = q' ++ r ->
  ok_res2 q' (if (peek lo =? k)%N then (let '(tk, l2) := double ty2 lo in ([tk], l2)) else ([single ty1 lo], read_char lo))
            (if (peek lm =? k)%N then (let '(tk, l2) := double ty2 lm in ([tk], l2)) else ([single ty1 lm], read_char lm)).
Proof.
  intros BF WK K1 K2 K3 H. destruct q1 as [|d q2].
  - destruct (bef2_peek1 _ _ _ BF) as [P1 P2]. rewrite P2, (hb_not k WK K1 K2 K3). destruct (peek lo =? k)%N.
    + exfalso. unfold double in H. cbn [snd] in H. destruct BF as (A & _). apply (no_cross r Hr (chs (read_char (read_char lo))) q'); [|exact H].
      rewrite !chs_read_char, A. cbn [app tl]. apply suf_refl.
    + eapply core2_one; [exact BF|exact H].
  - destruct (bef2_peek2 _ _ _ _ _ BF) as [P1 P2]. rewrite P1, P2 in *. destruct (d =? k)%N.
    + eapply core2_two; [exact BF|]. unfold double in H. exact H.
    + eapply core2_one; [exact BF|exact H].
Qed.

Ltac k4 := first [reflexivity | discriminate].

(* one token read starting before the boundary and ending at or before it *)
Lemma loc2_nt_core c q1 lo lm q' :
  Bef2 (c :: q1) lo lm -> chs (snd (fst (nt_core lo))) = q' ++ r ->
  ok_res2 q' (fst (nt_core lo)) (fst (nt_core lm)) /\ snd (nt_core lo) = false /\ snd (nt_core lm) = false.
Proof.
  intros BF H. pose proof BF as (A & B & SF). destruct (bef2_ch _ _ _ _ BF) as [C1 C2]. pose proof (bef2_ne _ _ _ BF) as N1. pose proof (bef2_nem _ _ _ _ BF) as N2.
  pose proof (bef2_read_char _ _ _ _ BF) as B1. destruct (bef2_len _ _ _ BF) as [LA LB]. cbn [List.length] in LA, LB.
  unfold LexLayout.nt_core in *. cbv zeta in *. cbn [fst snd] in *. rewrite C1, C2 in *.
  assert (X1 : match chs lo with [] => true | _ => false end = false) by (destruct (chs lo); [congruence|reflexivity]).
  assert (X2 : match chs lm with [] => true | _ => false end = false) by (destruct (chs lm); [congruence|reflexivity]).
  rewrite X1, X2 in *. cbn [orb] in *. split; [|split; reflexivity].
  destruct (c =? 0)%N.
  { cbn [fst snd] in *. split; [reflexivity|]. left. pose proof B1 as (A1 & _). rewrite A1 in H. apply app_inv_tail in H. subst q'. exact B1. }
  destruct (c =? 42)%N; [eapply core2_one; eassumption|].
  destruct (c =? 61)%N; [eapply (core2_op c q1 lo lm q' 61); [exact BF|k4|k4|k4|k4|exact H]|].
  destruct (c =? 33)%N; [eapply (core2_op c q1 lo lm q' 61); [exact BF|k4|k4|k4|k4|exact H]|].
  destruct (c =? 60)%N; [eapply (core2_op c q1 lo lm q' 61); [exact BF|k4|k4|k4|k4|exact H]|].
  destruct (c =? 62)%N; [eapply (core2_op c q1 lo lm q' 61); [exact BF|k4|k4|k4|k4|exact H]|].
  destruct (c =? 38)%N; [eapply (core2_op c q1 lo lm q' 38); [exact BF|k4|k4|k4|k4|exact H]|].
  destruct (c =? 124)%N; [eapply (core2_op c q1 lo lm q' 124); [exact BF|k4|k4|k4|k4|exact H]|].
  destruct (c =? 40)%N; [eapply core2_one; eassumption|].
  destruct (c =? 41)%N; [eapply core2_one; eassumption|].
  destruct (c =? 91)%N; [eapply core2_one; eassumption|].
  destruct (c =? 93)%N; [eapply core2_one; eassumption|].
  destruct (c =? 44)%N; [eapply core2_one; eassumption|].
  destruct (c =? 58)%N; [eapply core2_one; eassumption|].
  destruct (c =? 123)%N; [eapply core2_one; eassumption|].
  destruct (c =? 125)%N; [eapply core2_one; eassumption|].
  destruct (c =? 34)%N.
  { apply (loc2_read_string_token (c :: q1)); [exact BF|]. destruct (read_string_token lo) as [tk l1]. exact H. }
  destruct (c =? 96)%N.
  { pose proof (loc2_read_while (fun x => negb (x =? 96)%N && negb (x =? 0)%N) q1 (fuel_of (read_char lo)) (fuel_of (read_char lm)) (read_char lo) (read_char lm) [] ) as L.
    pose proof (suf_read_while (fuel_of (read_char lo)) (fun x => negb (x =? 96)%N && negb (x =? 0)%N) (read_char lo) []) as S.
    destruct (read_while (fuel_of (read_char lo)) _ (read_char lo) []) as [body lo3]. destruct (read_while (fuel_of (read_char lm)) _ (read_char lm) []) as [bodym lm3]. cbn [fst snd] in *.
    destruct (sandwich r q1 (read_char lo) (chs lo3) q' (proj1 B1) S ltac:(rewrite <- H; apply suf_read_char)) as (q3 & E3 & _ & _).
    assert (NQ3 : q3 <> []). { intros ->. cbn [app] in E3. apply (no_cross r Hr (chs (read_char lo3)) q'); [rewrite chs_read_char, E3; apply suf_refl|exact H]. }
    destruct (L q3 B1 ltac:(unfold fuel_of, len; lia) ltac:(unfold fuel_of, len; lia) E3 (or_introl NQ3)) as [EB B3]. subst bodym.
    split; [reflexivity|]. left. destruct q3 as [|c3 q4]; [congruence|]. pose proof (bef2_read_char _ _ _ _ B3) as B4.
    pose proof B4 as (A4 & _). rewrite A4 in H. apply app_inv_tail in H. subst q'. exact B4. }
  destruct (c =? 48)%N.
  { destruct q1 as [|d q2].
    - destruct (bef2_peek1 _ _ _ BF) as [P1 P2]. rewrite P2, (hb_not 120 ltac:(k4) ltac:(k4) ltac:(k4) ltac:(k4)). destruct (peek lo =? 120)%N.
      + exfalso. pose proof (suf_read_while (fuel_of (read_char (read_char lo))) is_hex (read_char (read_char lo)) []) as S.
        destruct (read_while _ is_hex (read_char (read_char lo)) []) as [h l3]. cbn [fst snd] in *.
        apply (no_cross r Hr (chs l3) q'); [|exact H]. eapply suf_trans; [exact S|]. rewrite !chs_read_char, A. cbn [app tl]. apply suf_refl.
      + pose proof (loc2_read_while is_digit [c] (fuel_of lo) (fuel_of lm) lo lm [] q' BF ltac:(unfold fuel_of, len; lia) ltac:(unfold fuel_of, len; lia)) as L.
        destruct (read_while (fuel_of lo) is_digit lo []) as [d1 l3]. destruct (read_while (fuel_of lm) is_digit lm []) as [d1m l3m]. cbn [fst snd] in *.
        destruct (L H (or_intror hb_digit)) as [E R]. subst d1m. split; [reflexivity|left; exact R].
    - destruct (bef2_peek2 _ _ _ _ _ BF) as [P1 P2]. rewrite P1, P2 in *. destruct (d =? 120)%N.
      + pose proof (bef2_read_char _ _ _ _ B1) as B2.
        pose proof (loc2_read_while is_hex q2 (fuel_of (read_char (read_char lo))) (fuel_of (read_char (read_char lm))) (read_char (read_char lo)) (read_char (read_char lm)) [] q' B2
                      ltac:(unfold fuel_of, len; lia) ltac:(unfold fuel_of, len; lia)) as L.
        destruct (read_while _ is_hex (read_char (read_char lo)) []) as [h l3]. destruct (read_while _ is_hex (read_char (read_char lm)) []) as [hm l3m]. cbn [fst snd] in *.
        destruct (L H (or_intror hb_hex)) as [E R]. subst hm. split; [reflexivity|left; exact R].
      + pose proof (loc2_read_while is_digit (c :: d :: q2) (fuel_of lo) (fuel_of lm) lo lm [] q' BF ltac:(unfold fuel_of, len; lia) ltac:(unfold fuel_of, len; lia)) as L.
        destruct (read_while (fuel_of lo) is_digit lo []) as [d1 l3]. destruct (read_while (fuel_of lm) is_digit lm []) as [d1m l3m]. cbn [fst snd] in *.
        destruct (L H (or_intror hb_digit)) as [E R]. subst d1m. split; [reflexivity|left; exact R]. }
  destruct (is_letter c).
  { pose proof (suf_read_ident is_letter_hi is_digit_hi lo) as S. pose proof (loc2_read_ident c q1 lo lm) as L.
    destruct (read_ident lo) as [id lo3]. destruct (read_ident lm) as [idm lm3]. cbn [fst snd] in *.
    assert (S3 : suf (q' ++ r) (chs lo3)).
    { destruct ((ch lo3 =? 34)%N && negb (match chs lo3 with [] => true | _ => false end)); cbn [snd] in H; [|rewrite <- H; apply suf_refl].
      pose proof (suf_read_string_token lo3) as S4. destruct (read_string_token lo3) as [tk l4]. cbn [snd] in *. rewrite <- H. exact S4. }
    destruct (sandwich r (c :: q1) lo (chs lo3) q' A S S3) as (q3 & E3 & _ & _).
    destruct (L q3 BF E3) as [EI B3]. subst idm.
    destruct q3 as [|c3 q4].
    - destruct (bef2_at _ _ B3) as (A3 & B3' & CM3).
      assert (CM : (ch lm3 =? 34)%N = false). { rewrite CM3. apply hb_not; k4. }
      rewrite CM. cbn [andb]. destruct ((ch lo3 =? 34)%N && negb (match chs lo3 with [] => true | _ => false end)) eqn:Q.
      + exfalso. apply andb_prop in Q. destruct Q as [Q1 Q2]. apply N.eqb_eq in Q1.
        pose proof (len_read_string_strict lo3 Q1) as ST. destruct (read_string_token lo3) as [tk l4]. cbn [snd] in *.
        assert (NE3 : chs lo3 <> []) by (rewrite A3; exact Hr). specialize (ST NE3). unfold len in ST. rewrite H, A3, app_length in ST. lia.
      + cbn [fst snd] in *. split; [reflexivity|]. left. rewrite A3 in H. symmetry in H. apply (eq_tail_nil r) in H. subst q'. exact B3.
    - destruct (bef2_ch _ _ _ _ B3) as [D1 D2]. pose proof (bef2_ne _ _ _ B3) as M1. pose proof (bef2_nem _ _ _ _ B3) as M2. rewrite D1, D2.
      assert (Y1 : negb (match chs lo3 with [] => true | _ => false end) = true) by (destruct (chs lo3); [congruence|reflexivity]).
      assert (Y2 : negb (match chs lm3 with [] => true | _ => false end) = true) by (destruct (chs lm3); [congruence|reflexivity]).
      rewrite D1, Y1 in H. rewrite Y1, Y2. rewrite andb_true_r in *. destruct (c3 =? 34)%N.
      + pose proof (loc2_read_string_token (c3 :: q4) lo3 lm3 q' B3) as LS.
        destruct (read_string_token lo3) as [tk l4]. destruct (read_string_token lm3) as [tkm l4m]. cbn [fst snd] in *.
        destruct (LS H) as [SH R]. split; [|exact R]. cbn [map] in *. inversion SH. unfold shape. cbn. f_equal. assumption.
      + cbn [fst snd] in *. split; [reflexivity|]. left. rewrite E3 in H. apply app_inv_tail in H. subst q'. exact B3. }
  destruct q1 as [|d q2].
  - destruct (bef2_peek1 _ _ _ BF) as [P1 P2]. rewrite P2, hb_digit, andb_false_r, orb_false_r.
    destruct (c =? 45)%N eqn:N45.
    + assert (DC : is_digit c = false) by (apply N.eqb_eq in N45; subst c; reflexivity). rewrite DC in *. cbn [orb andb] in *.
      destruct (is_digit (peek lo)) eqn:DP.
      * exfalso. pose proof (len_read_while_first (fuel_of (read_char lo)) is_digit (read_char lo)) as ST.
        destruct (read_while (fuel_of (read_char lo)) is_digit (read_char lo) []) as [d1 l3]. cbn [fst snd] in *.
        destruct B1 as (A1 & _). cbn [app] in A1.
        assert (CH1 : ch (read_char lo) = peek lo). { unfold ch, peek. rewrite chs_read_char, A. cbn. destruct r; reflexivity. }
        specialize (ST ltac:(unfold fuel_of, len; lia) ltac:(rewrite A1; exact Hr) ltac:(rewrite CH1; exact DP)).
        unfold len in ST. rewrite H, A1, app_length in ST. lia.
      * eapply core2_tok; [exact BF|reflexivity|exact H].
    + rewrite andb_false_l, orb_false_r in H. destruct (is_digit c) eqn:DC.
      * pose proof (loc2_read_while is_digit [c] (fuel_of lo) (fuel_of lm) lo lm [] q' BF ltac:(unfold fuel_of, len; lia) ltac:(unfold fuel_of, len; lia)) as L.
        destruct (read_while (fuel_of lo) is_digit lo []) as [d1 l3]. destruct (read_while (fuel_of lm) is_digit lm []) as [d1m l3m]. cbn [fst snd] in *.
        destruct (L H (or_intror hb_digit)) as [E R]. subst d1m. split; [reflexivity|left; exact R].
      * eapply core2_tok; [exact BF|reflexivity|exact H].
  - destruct (bef2_peek2 _ _ _ _ _ BF) as [P1 P2]. rewrite P1, P2 in *.
    destruct (is_digit c || (c =? 45)%N && is_digit d) eqn:DD.
    + destruct (c =? 45)%N eqn:N45.
      * pose proof (loc2_read_while is_digit (d :: q2) (fuel_of (read_char lo)) (fuel_of (read_char lm)) (read_char lo) (read_char lm) [] q' B1
                      ltac:(unfold fuel_of, len; lia) ltac:(unfold fuel_of, len; lia)) as L.
        destruct (read_while _ is_digit (read_char lo) []) as [d1 l3]. destruct (read_while _ is_digit (read_char lm) []) as [d1m l3m]. cbn [fst snd] in *.
        destruct (L H (or_intror hb_digit)) as [E R]. subst d1m. split; [reflexivity|left; exact R].
      * pose proof (loc2_read_while is_digit (c :: d :: q2) (fuel_of lo) (fuel_of lm) lo lm [] q' BF ltac:(unfold fuel_of, len; lia) ltac:(unfold fuel_of, len; lia)) as L.
        destruct (read_while (fuel_of lo) is_digit lo []) as [d1 l3]. destruct (read_while (fuel_of lm) is_digit lm []) as [d1m l3m]. cbn [fst snd] in *.
        destruct (L H (or_intror hb_digit)) as [E R]. subst d1m. split; [reflexivity|left; exact R].
    + eapply core2_tok; [exact BF|reflexivity|exact H].
Qed.

(* one call of the lexer *)
Lemma loc2_next q lo lm ts lo' q' :
  Bef2 q lo lm -> next_token_aux lo = (ts, lo', false) -> chs lo' = q' ++ r ->
  exists tsm lm', next_token_aux lm = (tsm, lm', false) /\ map shape ts = map shape tsm /\
                  (Bef2 q' lo' lm' \/ (q' = [] /\ chs lm' = skipped m)).
Proof.
  intros BF NT H. rewrite next_token_aux_core in *.
  pose proof (suf_skipall lo) as S1. pose proof (suf_nt_core is_letter_hi is_digit_hi is_space_hi (skipall lo)) as S2. rewrite NT in S2. cbn [fst snd] in S2.
  destruct (sandwich r q lo (chs (skipall lo)) q' (proj1 BF) S1 ltac:(rewrite <- H; exact S2)) as (q1 & E1 & _ & _).
  destruct (loc2_skipall q lo lm q1 BF E1) as [[NQ1 B1]|[EQ1 SM]].
  - destruct q1 as [|c q2]; [congruence|].
    pose proof (loc2_nt_core c q2 (skipall lo) (skipall lm) q' B1) as L. rewrite NT in L. cbn [fst snd] in L.
    destruct (L H) as ((SH & R) & _ & FM).
    destruct (nt_core (skipall lm)) as [[tsm lm'] em] eqn:EM. cbn [fst snd] in *. subst em.
    exists tsm, lm'. split; [reflexivity|]. split; [exact SH|exact R].
  - exfalso. subst q1. cbn [app] in E1.
    pose proof (nt_core_progress is_letter_hi is_digit_hi is_space_hi (skipall lo) ltac:(rewrite E1; exact Hr)) as P. rewrite NT in P. cbn [fst snd] in P.
    unfold len in P. rewrite H, E1, app_length in P. lia.
Qed.

(* k calls: the lexer on the modified source returns tokens of the same types and literals, and stands in front of [m] *)
Lemma loc2_run : forall k q lo lm ts lo', Bef2 q lo lm -> runs is_letter_hi is_digit_hi is_space_hi k lo ts lo' -> chs lo' = r ->
  exists tsm lm', runs is_letter_hi is_digit_hi is_space_hi k lm tsm lm' /\ map shape ts = map shape tsm /\ skipped (chs lm') = skipped m.
Proof.
  induction k as [|k IH]; intros q lo lm ts lo' BF R E; cbn [runs] in R.
  - destruct R as [-> ->]. destruct BF as (A & B & _). rewrite E in A. symmetry in A. apply (eq_tail_nil r) in A. subst q. cbn [app] in B.
    exists [], lm. split; [split; reflexivity|]. split; [reflexivity|]. rewrite B. reflexivity.
  - destruct R as (ts1 & l1 & ts2 & NT & R & ->).
    pose proof (runs_suf _ _ _ _ _ _ _ R) as [q' E']. rewrite E in E'.
    destruct (loc2_next q lo lm ts1 l1 q' BF NT E') as (tsm & lm1 & NTM & SH & RR).
    destruct RR as [BF'|[Q' SM]].
    + destruct (IH q' l1 lm1 ts2 lo' BF' R E) as (tsm2 & lm' & R2 & SH2 & F2).
      exists (tsm ++ tsm2), lm'. split; [exists tsm, lm1, tsm2; auto|]. split; [rewrite !map_app, SH, SH2; reflexivity|exact F2].
    + subst q'. cbn [app] in E'.
      assert (K0 : k = O).
      { destruct k as [|k]; [reflexivity|]. exfalso. cbn [runs] in R. destruct R as (ts3 & l3 & ts4 & NT3 & R3 & _).
        pose proof (next_token_progress _ _ _ _ _ _ NT3) as P. pose proof (runs_suf _ _ _ _ _ _ _ R3) as S3. apply suf_len in S3.
        unfold len in P. rewrite E, E' in *. lia. }
      subst k. cbn [runs] in R. destruct R as [-> ->].
      exists (tsm ++ []), lm1. split; [exists tsm, lm1, []; cbn [runs]; auto|]. split; [rewrite !map_app, SH; reflexivity|].
      rewrite SM. apply (skipped_idem (List.length m)). lia.
Qed.
End LOC2.

(* ====================================================================================================== *)
(* Part B. Main theorems (1) and (2)                                                                        *)
(* ====================================================================================================== *)

(* the only fusion: a '/' token directly followed by a gap that begins with '/' ("/" ++ "//..." is a comment) *)
Definition fuses (p g : list N) : Prop := exists p' g', p = p' ++ [47%N] /\ g = 47%N :: g'.

Lemma safe_of_nofuse p g x : g <> [] -> ~ fuses p g -> safe (g ++ x) p.
Proof.
  intros NG NF HB. intros L. apply NF. destruct g as [|b g']; [congruence|]. cbn [app hd] in HB. subst b.
  assert (NE : p <> []) by (intros ->; cbn in L; discriminate).
  pose proof (@app_removelast_last N p 0%N NE) as X. rewrite L in X. exists (removelast p), g'. auto.
Qed.

Section MAIN.
Variable is_letter_hi is_digit_hi is_space_hi : N -> bool.
Notation lex := (lex is_letter_hi is_digit_hi is_space_hi).
Notation lex_all := (lex_all is_letter_hi is_digit_hi is_space_hi).
Notation reaches := (reaches is_letter_hi is_digit_hi is_space_hi).
Notation runs := (runs is_letter_hi is_digit_hi is_space_hi).

Lemma lex_runs s k ts l' : runs k (init s) ts l' -> exists f', (len l' < f')%nat /\ lex s = ts ++ lex_all f' l'.
Proof. intros R. unfold Lexer.lex. apply (lex_all_runs _ _ _ _ _ _ _ R). unfold len, init. cbn [chs]. lia. Qed.

(* (1) LAYOUT BETWEEN TOKENS, ANY GAP.  The source is p ++ r, r is not empty, and the lexer stands after k tokens exactly in
   front of r.  Then any gap g - whitespace and complete comments in any mix, beginning with whitespace, with '#' or with
   '//' - may be inserted at that point without changing any token type or literal, EXCEPT when p ends with the character
   '/' and g begins with '/' (then "/" and "//" make the comment start "//" one character earlier and the '/' token
   disappears: see [comment_gap_counterexample]). *)
Theorem layout_between_tokens_any_gap (p r g : list N) (k : nat) :
  r <> [] -> gap g -> ~ fuses p g ->
  reaches r k (init (p ++ r)) ->
  map shape (lex (p ++ g ++ r)) = map shape (lex (p ++ r)).
Proof.
  intros NR G NF R. destruct g as [|b g0] eqn:EG; [reflexivity|]. rewrite <- EG in *. assert (NG : g <> []) by (rewrite EG; discriminate). clear EG b g0.
  apply runs_reaches in R. destruct R as (ts & lo' & R & E).
  assert (HQ : skipped r = r -> hd 0%N r <> 34%N -> hd 0%N (skipped (g ++ r)) <> 34%N).
  { intros FX NQ. rewrite (gap_skipped g G), FX. exact NQ. }
  destruct (loc2_run is_letter_hi is_digit_hi is_space_hi r (g ++ r) NR (layhd_app g r NG (gap_layhd g G)) HQ k p (init (p ++ r)) (init (p ++ g ++ r)) ts lo')
    as (tsm & lm' & RM & SH & FIN); [split; [reflexivity|split; [reflexivity|apply safe_of_nofuse; assumption]]|exact R|exact E|].
  destruct (lex_runs _ _ _ _ R) as (f1 & L1 & E1). destruct (lex_runs _ _ _ _ RM) as (f2 & L2 & E2).
  rewrite E1, E2, !map_app, SH. f_equal.
  rewrite (lex_all_enough _ _ _ f2 (f1 + f2) lm') by lia. rewrite (lex_all_enough _ _ _ f1 (f1 + f2) lo') by lia.
  apply lex_all_leq. unfold leq, sim. rewrite !chs_skipall, FIN, E. apply gap_skipped. exact G.
Qed.

(* (2) THE END OF THE FILE.  The end of p is a token boundary (witnessed by some continuation r <> [] in front of which the
   lexer stands after k tokens ts).  Then with trailing layout g behind p - whitespace and comments, the last comment
   possibly not closed by a newline - the lexer returns tokens with the types and literals of ts, then the EOF token, and
   nothing else. *)
Theorem trailing_layout_then_eof (p r g : list N) (k : nat) ts lo' :
  r <> [] -> runs k (init (p ++ r)) ts lo' -> chs lo' = r -> tgap g -> ~ fuses p g ->
  map shape (lex (p ++ g)) = map shape ts ++ [(EOF, [])].
Proof.
  intros NR R E G NF.
  assert (HQ : skipped r = r -> hd 0%N r <> 34%N -> hd 0%N (skipped g) <> 34%N).
  { intros _ _. rewrite (tgap_skipped g G). cbn. discriminate. }
  assert (SF : safe g p).
  { destruct g as [|b g0] eqn:EG; [intros HB; cbn in HB; discriminate|]. rewrite <- EG in *. rewrite <- (app_nil_r g). apply safe_of_nofuse; [rewrite EG; discriminate|exact NF]. }
  destruct (loc2_run is_letter_hi is_digit_hi is_space_hi r g NR (tgap_layhd g G) HQ k p (init (p ++ r)) (init (p ++ g)) ts lo')
    as (tsm & lm' & RM & SH & FIN); [split; [reflexivity|split; [reflexivity|exact SF]]|exact R|exact E|].
  destruct (lex_runs _ _ _ _ RM) as (f2 & L2 & E2). rewrite E2, map_app, SH. f_equal.
  destruct f2 as [|f2]; [lia|]. apply lex_all_at_end. rewrite FIN. apply tgap_skipped. exact G.
Qed.

(* ... hence trailing layout does not change the token types and literals at all *)
Theorem trailing_layout_is_ignored (p r g : list N) (k : nat) :
  r <> [] -> reaches r k (init (p ++ r)) -> tgap g -> ~ fuses p g ->
  map shape (lex (p ++ g)) = map shape (lex p).
Proof.
  intros NR R G NF. apply runs_reaches in R. destruct R as (ts & lo' & R & E).
  rewrite (trailing_layout_then_eof p r g k ts lo' NR R E G NF).
  replace (lex p) with (lex (p ++ [])) by (rewrite app_nil_r; reflexivity). symmetry. apply (trailing_layout_then_eof p r [] k ts lo' NR R E tgap_nil).
  intros (p' & g' & _ & X). discriminate X.
Qed.

(* a file that consists of layout only *)
Theorem only_layout_is_eof g : tgap g -> map shape (lex g) = [(EOF, [])].
Proof. intros G. unfold Lexer.lex. apply lex_all_at_end. cbn [init chs]. apply tgap_skipped. exact G. Qed.
End MAIN.


Definition no_hi : N -> bool := fun _ => false.

(* the exception is real: "/" followed by "a" is the token '/' and the identifier a; with the gap "//x\n" between them the
   '/' is swallowed by the comment *)
Example comment_gap_counterexample :
  reaches no_hi no_hi no_hi (t "a") 1 (init (t "/" ++ t "a")) /\ gap (47%N :: 47%N :: [120%N] ++ 10%N :: []) /\
  map shape (lex no_hi no_hi no_hi (t "/" ++ (47%N :: 47%N :: [120%N] ++ 10%N :: []) ++ t "a")) = [(IDENT, t "a"); (EOF, [])] /\
  map shape (lex no_hi no_hi no_hi (t "/" ++ t "a")) = [(ILLEGAL, t "/"); (IDENT, t "a"); (EOF, [])].
Proof.
  split; [cbn [reaches]; eexists; eexists; split; vm_compute; reflexivity|].
  split; [apply gap_slash; [repeat constructor; discriminate|left; reflexivity|constructor]|].
  split; vm_compute; reflexivity.
Qed.

(* the hypotheses are satisfiable: a comment directly after an identifier, after a number, after '/' (a '#' comment) *)
Example comment_gap_example :
  reaches no_hi no_hi no_hi (t "(c") 1 (init (t "ab" ++ t "(c")) /\ gap (35%N :: t "x" ++ 10%N :: []) /\ ~ fuses (t "ab") (35%N :: t "x" ++ 10%N :: []) /\
  map shape (lex no_hi no_hi no_hi (t "ab" ++ (35%N :: t "x" ++ 10%N :: []) ++ t "(c")) = [(IDENT, t "ab"); (LPAREN, t "("); (IDENT, t "c"); (EOF, [])].
Proof.
  split; [cbn [reaches]; eexists; eexists; split; vm_compute; reflexivity|].
  split; [apply gap_hash; [repeat constructor; discriminate|left; reflexivity|constructor]|].
  split; [intros (p' & g' & _ & X); discriminate X|vm_compute; reflexivity].
Qed.
Example trailing_layout_example :
  runs no_hi no_hi no_hi 1 (init (t "ab" ++ t "(")) (fst (fst (next_token_aux no_hi no_hi no_hi (init (t "ab("))))) (snd (fst (next_token_aux no_hi no_hi no_hi (init (t "ab("))))) /\
  tgap (32%N :: 47%N :: 47%N :: t "end") /\
  map shape (lex no_hi no_hi no_hi (t "ab" ++ 32%N :: 47%N :: 47%N :: t "end")) = [(IDENT, t "ab"); (EOF, [])].
Proof.
  split; [cbn [runs]; eexists; eexists; eexists; split; [vm_compute; reflexivity|split; [split; reflexivity|vm_compute; reflexivity]]|].
  split; [apply tgap_ws; [reflexivity|apply tgap_slash_open; repeat constructor; discriminate]|vm_compute; reflexivity].
Qed.

(* ====================================================================================================== *)
(* Part C. (3) The end position of a string token                                                           *)
(* ====================================================================================================== *)
From Pory Require TextLex.
Local Open Scope Z_scope.

(* line, byte column and character column of the position behind the prefix [p] of the source *)
Definition endpos (p : list N) : Z * Z * Z := (1 + nl p, colb p, colu p).

(* the characters of a string token, from its first opening quote to the terminator of its last part: parts
   quote body t with t the closing quote (or a NUL character, which the reader treats alike), separated by gaps; [false] =
   the input ended inside the last part *)
Inductive strspan : bool -> list N -> Prop :=
| span_one body t : TextLex.body_ok body -> t = 34%N \/ t = 0%N -> strspan true (34%N :: body ++ [t])
| span_open body : TextLex.body_ok body -> strspan false (34%N :: body)
| span_more b body t g rest : TextLex.body_ok body -> t = 34%N \/ t = 0%N -> gap g -> strspan b rest ->
    strspan b (34%N :: body ++ t :: g ++ rest).

(* what is claimed of a STRING token of the source s *)
Definition string_ends (s : list N) (tk : token) : Prop :=
  exists pre mid post b, s = pre ++ mid ++ post /\ strspan b mid /\
    tline tk = 1 + nl pre /\ tsb tk = colb pre /\ tsu tk = colu pre /\
    if b then (teline tk, teb tk, teu tk) = endpos (pre ++ mid) /\ hd 0%N (skipped post) <> 34%N
    else post = [] /\ teline tk = 1 + nl s /\ teb tk = colb s.

Definition Eend (l : lx) : Prop := chs l = [] -> cn l = pcn l.
Lemma Eend_read_char l : Eend (read_char l).
Proof.
  unfold Eend. rewrite chs_read_char. unfold read_char. intros H. rewrite H.
  destruct ((ch l =? 10)%N && negb (match chs l with [] => true | _ => false end)); cbn; lia.
Qed.

Fixpoint takebody (x : list N) : list N * list N :=
  match x with
  | [] => ([], [])
  | c :: r => if ((c =? 34) || (c =? 0))%N then ([], x) else let '(b, rest) := takebody r in (c :: b, rest)
  end.
Lemma takebody_ok x : x = fst (takebody x) ++ snd (takebody x) /\ TextLex.body_ok (fst (takebody x)) /\ TextLex.stops (snd (takebody x)).
Proof.
  induction x as [|c r IH]; cbn [takebody].
  - cbn. split; [reflexivity|]. split; [constructor|left; reflexivity].
  - destruct ((c =? 34) || (c =? 0))%N eqn:Q.
    + cbn [fst snd app]. split; [reflexivity|]. split; [constructor|]. right. cbn [hd]. apply orb_prop in Q. destruct Q as [Q|Q]; apply N.eqb_eq in Q; auto.
    + destruct (takebody r) as [b rest]. cbn [fst snd] in *. destruct IH as (E & OK & ST). split; [cbn; rewrite <- E; reflexivity|]. split; [|exact ST].
      apply orb_false_iff in Q. destruct Q as [Q1 Q2]. apply N.eqb_neq in Q1, Q2. constructor; [split; assumption|exact OK].
Qed.

Section STR.
Variable s : list N.
Notation at_pre := (at_pre s).

Lemma ax_skip_ws f : forall l pre, at_pre pre l -> Eend l -> exists x, at_pre (pre ++ x) (skip_ws f l) /\ Eend (skip_ws f l).
Proof.
  induction f as [|f IH]; intros l pre H E; cbn [skip_ws]; [exists []; rewrite app_nil_r; auto|].
  destruct (is_ws (ch l) && negb (match chs l with [] => true | _ => false end)) eqn:Q; [|exists []; rewrite app_nil_r; auto].
  destruct (chs l) as [|c rest] eqn:EC; [rewrite andb_false_r in Q; discriminate|].
  destruct (IH (read_char l) (pre ++ [c]) (at_pre_read_char s _ _ _ _ EC H) (Eend_read_char l)) as (x & A & B).
  exists (c :: x). rewrite <- app_assoc in A. auto.
Qed.
Lemma ax_skip_nl f : forall l sk pre, at_pre pre l -> Eend l -> exists x, at_pre (pre ++ x) (fst (skip_nl f l sk)) /\ Eend (fst (skip_nl f l sk)).
Proof.
  induction f as [|f IH]; intros l sk pre H E; cbn [skip_nl]; [exists []; rewrite app_nil_r; auto|].
  destruct (((ch l =? 10) || (ch l =? 13))%N && negb (match chs l with [] => true | _ => false end)) eqn:Q; [|exists []; rewrite app_nil_r; auto].
  destruct (chs l) as [|c rest] eqn:EC; [rewrite andb_false_r in Q; discriminate|].
  destruct (IH (read_char l) true (pre ++ [c]) (at_pre_read_char s _ _ _ _ EC H) (Eend_read_char l)) as (x & A & B).
  exists (c :: x). rewrite <- app_assoc in A. auto.
Qed.
Lemma ne_of_ch l : ((ch l =? 34) || (ch l =? 0))%N = false -> exists c rest, chs l = c :: rest.
Proof. unfold ch. destruct (chs l) as [|c rest]; [cbn; discriminate|]. intros _. eauto. Qed.
Lemma ax_read_str_part f : forall l acc pre, at_pre pre l -> Eend l ->
  exists x, at_pre (pre ++ x) (snd (read_str_part f l acc)) /\ Eend (snd (read_str_part f l acc)).
Proof.
  induction f as [|f IH]; intros l acc pre H E; cbn [read_str_part]; [exists []; rewrite app_nil_r; auto|].
  destruct ((ch l =? 34) || (ch l =? 0))%N eqn:Q; [exists []; rewrite app_nil_r; auto|].
  destruct (ax_skip_nl (fuel_of l) l false pre H E) as (x1 & A1 & E1).
  destruct (skip_nl (fuel_of l) l false) as [l1 sk]. cbn [fst] in A1, E1. destruct sk.
  - destruct (ax_skip_ws (fuel_of l1) l1 _ A1 E1) as (x2 & A2 & E2). set (l2 := skip_ws (fuel_of l1) l1) in *.
    destruct ((ch l2 =? 34) || (ch l2 =? 0))%N eqn:Q2.
    + cbn [snd]. exists (x1 ++ x2). rewrite app_assoc. auto.
    + destruct (ne_of_ch l2 Q2) as (c & rest & EC).
      destruct (IH (read_char l2) ((acc ++ [32%N]) ++ [ch l2]) _ (at_pre_read_char s _ _ _ _ EC A2) (Eend_read_char l2)) as (x3 & A3 & E3).
      exists (x1 ++ x2 ++ c :: x3). split; [|exact E3].
      replace (pre ++ x1 ++ x2 ++ c :: x3) with ((((pre ++ x1) ++ x2) ++ [c]) ++ x3) by (rewrite <- !app_assoc; reflexivity). exact A3.
  - destruct (ne_of_ch l Q) as (c & rest & EC).
    destruct (IH (read_char l) (acc ++ [ch l]) _ (at_pre_read_char s _ _ _ _ EC H) (Eend_read_char l)) as (x3 & A3 & E3).
    exists (c :: x3). rewrite <- app_assoc in A3. auto.
Qed.

(* one turn of the string loop *)
Lemma rs_iter f l acc e pre body rest : at_pre pre l -> chs l = 34%N :: body ++ rest -> TextLex.body_ok body -> TextLex.stops rest ->
  exists a1 l2, at_pre (pre ++ 34%N :: body) l2 /\ Eend l2 /\ chs l2 = rest /\
    read_string' (S f) l acc e = read_string' f (skipall (read_char l2)) a1 (line (read_char l2), pcn (read_char l2), pun (read_char l2)).
Proof.
  intros AP EC OK ST. cbn [read_string']. rewrite TextLex.ch_hd, EC. cbn [hd].
  change ((34 =? 34)%N && negb false) with true. cbv iota.
  assert (E1 : chs (read_char l) = body ++ rest) by (rewrite chs_read_char, EC; reflexivity).
  destruct (TextLex.read_str_part_spec (fuel_of (read_char l)) body (read_char l) (match acc with [] => acc | _ => acc ++ [10%N] end) rest OK ST E1) as (l2 & R & C2).
  { unfold fuel_of. rewrite E1, app_length. lia. }
  pose proof (at_pre_read_char s pre l _ _ EC AP) as AP1.
  destruct (ax_read_str_part (fuel_of (read_char l)) (read_char l) (match acc with [] => acc | _ => acc ++ [10%N] end) _ AP1 (Eend_read_char l)) as (x & A2 & E2).
  rewrite R in *. cbn [snd] in A2, E2.
  assert (X : x = body).
  { destruct AP1 as (S1 & _). destruct A2 as (S2 & _). rewrite S1, E1, C2 in S2. rewrite <- (app_assoc (pre ++ [34%N]) x rest) in S2. apply app_inv_head in S2. apply app_inv_tail in S2. symmetry. exact S2. }
  subst x. eexists. exists l2. split; [rewrite <- app_assoc in A2; exact A2|]. split; [exact E2|]. split; [exact C2|reflexivity].
Qed.

Lemma hd34 l : hd 0%N (chs l) = 34%N -> exists rest, chs l = 34%N :: rest.
Proof. destruct (chs l) as [|c rest]; cbn; [discriminate|]. intros ->. eauto. Qed.

(* the whole loop, started in front of an opening quote *)
Lemma rs_end : forall f l acc e pre, at_pre pre l -> (len l < f)%nat -> hd 0%N (chs l) = 34%N ->
  exists lit e' l' mid post b, read_string' f l acc e = (lit, e', l') /\ chs l = mid ++ post /\ strspan b mid /\
    if b then e' = endpos (pre ++ mid) /\ hd 0%N (skipped post) <> 34%N
    else post = [] /\ fst (fst e') = 1 + nl s /\ snd (fst e') = colb s.
Proof.
  induction f as [|f IH]; intros l acc e pre AP L HD; [lia|].
  destruct (hd34 l HD) as (rest0 & EC).
  pose proof (takebody_ok rest0) as (TB & OK & ST). destruct (takebody rest0) as [body rest]. cbn [fst snd] in TB, OK, ST. subst rest0.
  destruct (rs_iter f l acc e pre body rest AP EC OK ST) as (a1 & l2 & AP2 & E2 & C2 & R). rewrite R. clear R.
  assert (LL : len l = S (List.length body + List.length rest)) by (unfold len; rewrite EC; cbn [List.length]; rewrite app_length; reflexivity).
  destruct rest as [|t rest2].
  - (* the input ended inside the part *)
    assert (C5 : chs (skipall (read_char l2)) = []).
    { pose proof (len_skipall (read_char l2)) as G. rewrite len_read_char in G. unfold len in G. rewrite C2 in G. cbn [List.length pred] in G. revert G. destruct (chs (skipall (read_char l2))); [reflexivity|cbn [List.length]; lia]. }
    rewrite read_string'_stop2 by (rewrite C5; cbn; discriminate).
    eexists. eexists. eexists. exists (34%N :: body), [], false. split; [reflexivity|]. split; [rewrite EC; reflexivity|]. split; [apply span_open; exact OK|].
    split; [reflexivity|]. cbn [fst snd].
    destruct AP2 as (S2 & L2 & P2 & _). rewrite C2, app_nil_r in S2. specialize (E2 C2).
    unfold read_char. rewrite C2. cbn [tl]. rewrite TextLex.ch_hd, C2. cbn [hd andb N.eqb line pcn]. rewrite S2. split; [exact L2|]. rewrite E2. exact P2.
  - (* the part is closed by t *)
    assert (T : t = 34%N \/ t = 0%N) by (destruct ST as [ST|ST]; [discriminate ST|exact ST]).
    pose proof (at_pre_read_char s _ l2 _ _ C2 AP2) as AP3. set (l3 := read_char l2) in *.
    assert (C3 : chs l3 = rest2) by (unfold l3; rewrite chs_read_char, C2; reflexivity).
    assert (E3 : (line l3, pcn l3, pun l3) = endpos ((pre ++ 34%N :: body) ++ [t])).
    { destruct AP3 as (_ & A2 & A3 & A4 & _). unfold endpos. rewrite A2, A3, A4. reflexivity. }
    assert (C5 : chs (skipall l3) = skipped rest2) by (rewrite chs_skipall, C3; reflexivity).
    destruct (N.eq_dec (hd 0%N (chs (skipall l3))) 34%N) as [Q|Q].
    + (* another part follows *)
      assert (NE5 : chs (skipall l3) <> []) by (intros X; rewrite X in Q; discriminate Q).
      assert (P5 : P s (skipall l3)). { apply PI_P; [exact NE5|]. apply PI_skipall. right. eexists. exact AP3. }
      destruct P5 as [pre5 AP5].
      destruct (suf_skipall l3) as [g G]. rewrite C3 in G.
      assert (PE : pre5 = ((pre ++ 34%N :: body) ++ [t]) ++ g).
      { destruct AP3 as (S3 & _). destruct AP5 as (S5 & _). rewrite S3, C3, G in S5. rewrite app_assoc in S5. apply app_inv_tail in S5. symmetry. exact S5. }
      assert (GG : gap g).
      { apply (exact_gap (chs (skipall l3)) NE5 (List.length g) g); [lia|]. rewrite <- G. symmetry. exact C5. }
      assert (L5 : (len (skipall l3) < f)%nat).
      { pose proof (len_skipall l3) as G5. unfold l3 in G5 at 2. rewrite len_read_char in G5. unfold len in G5 at 2. rewrite C2 in G5. cbn [List.length] in *. lia. }
      destruct (IH (skipall l3) a1 (line l3, pcn l3, pun l3) pre5 AP5 L5 Q) as (lit & e' & l' & mid' & post' & b & R & CM & SP & CL).
      exists lit, e', l', (34%N :: body ++ t :: g ++ mid'), post', b. split; [exact R|]. split.
      { rewrite EC, G, CM. cbn [app]. f_equal. rewrite <- !app_assoc. cbn [app]. rewrite <- !app_assoc. reflexivity. }
      split; [apply span_more; assumption|].
      assert (PM : pre5 ++ mid' = pre ++ 34%N :: body ++ t :: g ++ mid').
      { rewrite PE. repeat (rewrite <- app_assoc; cbn [app]). reflexivity. }
      destruct b; [rewrite <- PM; exact CL|exact CL].
    + (* the token ends here *)
      rewrite read_string'_stop2 by exact Q.
      eexists. eexists. eexists. exists (34%N :: body ++ [t]), rest2, true. split; [reflexivity|]. split.
      { rewrite EC. cbn [app]. rewrite <- app_assoc. reflexivity. }
      split; [apply span_one; assumption|]. split; [|rewrite <- C5; exact Q].
      rewrite E3. f_equal. rewrite <- app_assoc. reflexivity.
Qed.

Lemma read_string_token_ends l pre : at_pre pre l -> hd 0%N (chs l) = 34%N -> string_ends s (fst (read_string_token l)).
Proof.
  intros AP HD. unfold read_string_token.
  destruct (rs_end (fuel_of l) l [] (0, 0, 0) pre AP ltac:(unfold fuel_of, len; lia) HD) as (lit & e' & l' & mid & post & b & R & CM & SP & CL).
  rewrite R. destruct e' as [[el eb] eu]. cbn [fst].
  pose proof AP as (S1 & A2 & A3 & A4 & _).
  exists pre, mid, post, b. split; [rewrite S1, CM; reflexivity|]. split; [exact SP|]. cbn [tline tsb tsu teline teb teu].
  split; [exact A2|]. split; [exact A3|]. split; [exact A4|]. destruct b; exact CL.
Qed.
End STR.

Section STRTOK.
Variable is_letter_hi is_digit_hi is_space_hi : N -> bool.
Variable s : list N.
Notation nt_core := (nt_core is_letter_hi is_digit_hi is_space_hi).
Notation next_token_aux := (next_token_aux is_letter_hi is_digit_hi is_space_hi).
Notation lex_all := (lex_all is_letter_hi is_digit_hi is_space_hi).
Notation read_ident := (read_ident is_letter_hi is_digit_hi).

Definition str_claim (tk : token) : Prop := ttype tk = STRING -> string_ends s tk.

Lemma PI_read_ident l : PI s l -> PI s (snd (read_ident l)).
Proof.
  intros H. unfold Lexer.read_ident. destruct (chs l) as [|c r] eqn:E; [exact H|]. destruct (Lexer.is_letter is_letter_hi c); [|exact H].
  pose proof (PI_read_while s (fuel_of l) (fun x => Lexer.is_letter is_letter_hi x || Lexer.is_digit is_digit_hi x) (read_char l) [] (PI_read_char s _ H)) as K.
  destruct (read_while _ _ _ _) as [r0 l']. exact K.
Qed.

Lemma str_claim_at l : PI s l -> (ch l =? 34)%N && negb (match chs l with [] => true | _ => false end) = true -> str_claim (fst (read_string_token l)).
Proof.
  intros HI Q _. apply andb_prop in Q. destruct Q as [Q1 Q2]. apply N.eqb_eq in Q1.
  assert (NE : chs l <> []) by (destruct (chs l); [discriminate Q2|discriminate]).
  destruct (PI_P s l NE HI) as [pre AP]. apply (read_string_token_ends s l pre AP). rewrite <- TextLex.ch_hd. exact Q1.
Qed.

Ltac nostr := intros T; cbn in T; discriminate T.

Lemma nt_core_str l : PI s l -> Forall str_claim (fst (fst (nt_core l))).
Proof.
  intros HI. unfold LexLayout.nt_core. cbv zeta. cbn [fst snd].
  destruct (match chs l with [] => true | _ => false end) eqn:EOFP.
  { cbn [orb fst]. constructor; [nostr|constructor]. }
  cbn [orb].
  repeat match goal with |- Forall str_claim (fst (if ?b then _ else _)) => destruct b eqn:? end;
  try (cbn [fst]; constructor; [nostr|constructor]);
  try (unfold double; cbn [fst]; constructor; [nostr|constructor]).
  - (* string *)
    pose proof (str_claim_at l HI) as K. destruct (read_string_token l) as [tk l1]. cbn [fst] in *. constructor; [|constructor]. apply K.
    match goal with Q : (ch l =? 34)%N = true |- _ => rewrite Q end. rewrite EOFP. reflexivity.
  - destruct (read_while _ _ (read_char l) []) as [b1 l3]. cbn [fst]. constructor; [nostr|constructor].
  - destruct (read_while _ _ (read_char (read_char l)) []) as [b1 l3]. cbn [fst]. constructor; [nostr|constructor].
  - destruct (read_while _ _ l []) as [b1 l3]. cbn [fst]. constructor; [nostr|constructor].
  - (* identifier, keyword, string type *)
    pose proof (PI_read_ident l HI) as K3. destruct (read_ident l) as [id l3]. cbn [snd] in K3.
    destruct ((ch l3 =? 34)%N && negb (match chs l3 with [] => true | _ => false end)) eqn:Q.
    + pose proof (str_claim_at l3 K3 Q) as K. destruct (read_string_token l3) as [tk l4]. cbn [fst] in *.
      constructor; [nostr|]. constructor; [exact K|constructor].
    + cbn [fst]. constructor; [|constructor]. intros T. cbn [ttype] in T. destruct (kw_plain id) as [KP _]. rewrite T in KP. discriminate KP.
  - destruct (read_while _ _ _ []) as [b1 l3]. cbn [fst]. constructor; [nostr|constructor].
Qed.

Lemma lex_all_str f : forall l, PI s l -> Forall str_claim (lex_all f l).
Proof.
  induction f as [|f IH]; intros l H; cbn [Lexer.lex_all]; [constructor|].
  pose proof (next_token_pos is_letter_hi is_digit_hi is_space_hi s l H) as [_ K2].
  assert (K1 : Forall str_claim (fst (fst (next_token_aux l)))) by (rewrite next_token_aux_core; apply nt_core_str, PI_skipall, H).
  destruct (next_token_aux l) as [[ts l'] e]. cbn [fst snd] in *.
  destruct e; [exact K1|]. apply Forall_app. split; [exact K1|apply IH, K2].
Qed.
End STRTOK.

(* (3) THE END POSITION OF A STRING TOKEN.  For every source and every classification of non-ASCII code points, every
   STRING token of the stream covers a span [mid] of the source, s = pre ++ mid ++ post: it starts at the opening quote of
   its first part (line, byte column and character column of [pre]); [mid] consists of the parts - quote, content without
   quote and NUL, terminator (the closing quote, or a NUL) - separated by gaps; if the last part is closed, the reported
   end (teline, teb, teu) is the position directly behind its terminator - line, byte column and character column of
   pre ++ mid - and what follows, after layout, is not another quote.  If the input ends inside the last part, the token
   ends on the last line of the source at the byte column of the end of the source. *)
Theorem string_tokens_end_located is_letter_hi is_digit_hi is_space_hi (s : text) :
  Forall (fun tk => ttype tk = STRING -> string_ends s tk) (lex is_letter_hi is_digit_hi is_space_hi s).
Proof. unfold lex. apply (lex_all_str is_letter_hi is_digit_hi is_space_hi s). right. apply P_init. Qed.

(* ---------- the same for a string written as given parts: the end is behind the closing quote of the last part ---------- *)
Section STRPARTS.
Variable s : list N.
Notation at_pre := (at_pre s).

Lemma at_pre_skipall pre l g x : at_pre pre l -> chs l = g ++ x -> gap g -> x <> [] -> skipped x = x -> at_pre (pre ++ g) (skipall l) /\ chs (skipall l) = x.
Proof.
  intros AP E G NX FX.
  assert (C : chs (skipall l) = x) by (rewrite chs_skipall, E, (gap_skipped g G); exact FX).
  assert (P5 : P s (skipall l)). { apply PI_P; [rewrite C; exact NX|]. apply PI_skipall. right. eexists. exact AP. }
  destruct P5 as [pre5 AP5]. split; [|exact C].
  assert (PE : pre5 = pre ++ g).
  { destruct AP as (S3 & _). destruct AP5 as (S5 & _). rewrite S3, E, C in S5. rewrite app_assoc in S5. apply app_inv_tail in S5. symmetry. exact S5. }
  rewrite <- PE. exact AP5.
Qed.

Lemma rs_parts : forall ps f l acc e pre b g r, at_pre pre l -> (len l < f)%nat ->
  chs l = TextLex.src_parts (ps ++ [(b, g)]) ++ r -> Forall TextLex.part_ok (ps ++ [(b, g)]) -> TextLex.no_quote r ->
  snd (fst (read_string' f l acc e)) = endpos (pre ++ TextLex.src_parts ps ++ 34%N :: b ++ [34%N]).
Proof.
  induction ps as [|[b0 g0] ps IH]; intros f l acc e pre b g r AP L EC OK NQ; (destruct f as [|f]; [lia|]).
  - cbn [app] in *. inversion OK as [|x y [OKb Gg] _]; subst x y. cbn [fst snd] in OKb, Gg.
    rewrite TextLex.src_parts_cons in EC. cbn [TextLex.src_parts flat_map app] in EC.
    destruct (rs_iter s f l acc e pre b (34%N :: g ++ r) AP EC OKb ltac:(right; left; reflexivity)) as (a1 & l2 & AP2 & E2 & C2 & R). rewrite R.
    pose proof (at_pre_read_char s _ l2 _ _ C2 AP2) as AP3.
    rewrite read_string'_stop2.
    + cbn [fst snd]. destruct AP3 as (_ & A2 & A3 & A4 & _). unfold endpos. rewrite A2, A3, A4. rewrite <- app_assoc. reflexivity.
    + rewrite chs_skipall, chs_read_char, C2. cbn [tl]. rewrite (gap_skipped g Gg). exact NQ.
  - cbn [app] in *. inversion OK as [|x y [OKb Gg] OK']; subst x y. cbn [fst snd] in OKb, Gg.
    rewrite TextLex.src_parts_cons in EC.
    set (X := TextLex.src_parts (ps ++ [(b, g)]) ++ r) in *.
    destruct (rs_iter s f l acc e pre b0 (34%N :: g0 ++ X) AP EC OKb ltac:(right; left; reflexivity)) as (a1 & l2 & AP2 & E2 & C2 & R). rewrite R.
    pose proof (at_pre_read_char s _ l2 _ _ C2 AP2) as AP3.
    assert (C3 : chs (read_char l2) = g0 ++ X) by (rewrite chs_read_char, C2; reflexivity).
    assert (XQ : exists y, X = 34%N :: y).
    { unfold X. destruct (ps ++ [(b, g)]) as [|[b' g'] ps'] eqn:EP; [destruct ps; discriminate EP|]. rewrite TextLex.src_parts_cons. eauto. }
    destruct XQ as [y XQ].
    destruct (at_pre_skipall _ _ g0 X AP3 C3 Gg ltac:(rewrite XQ; discriminate) ltac:(rewrite XQ; apply TextLex.skipped_quote)) as [AP5 C5].
    assert (L5 : (len (skipall (read_char l2)) < f)%nat).
    { unfold len at 1. rewrite C5. unfold len in L. rewrite EC in L. cbn [List.length] in L. rewrite !app_length in L. cbn [List.length] in L. rewrite app_length in L. lia. }
    rewrite (IH f _ a1 _ _ b g r AP5 L5 C5 OK' NQ). f_equal.
    rewrite TextLex.src_parts_cons. repeat (rewrite <- app_assoc; cbn [app]). reflexivity.
Qed.

Lemma read_string_token_parts l pre ps b g r : at_pre pre l ->
  chs l = TextLex.src_parts (ps ++ [(b, g)]) ++ r -> Forall TextLex.part_ok (ps ++ [(b, g)]) -> TextLex.no_quote r ->
  let tk := fst (read_string_token l) in
  (tline tk, tsb tk, tsu tk) = endpos pre /\ (teline tk, teb tk, teu tk) = endpos (pre ++ TextLex.src_parts ps ++ 34%N :: b ++ [34%N]).
Proof.
  intros AP EC OK NQ. unfold read_string_token.
  pose proof (rs_parts ps (fuel_of l) l [] (0, 0, 0) pre b g r AP ltac:(unfold fuel_of, len; lia) EC OK NQ) as R.
  destruct (read_string' (fuel_of l) l [] (0, 0, 0)) as [[lit [[el eb] eu]] l']. cbn [fst snd] in *. cbn [tline tsb tsu teline teb teu].
  split; [|exact R]. destruct AP as (_ & A2 & A3 & A4 & _). unfold endpos. rewrite A2, A3, A4. reflexivity.
Qed.
End STRPARTS.

Lemma runs_PI hl hd hs s : forall k l ts l', PI s l -> runs hl hd hs k l ts l' -> PI s l'.
Proof.
  induction k as [|k IH]; intros l ts l' H R; cbn [runs] in R; [destruct R as [_ ->]; exact H|].
  destruct R as (ts1 & l1 & ts2 & NT & R & _). apply (IH l1 ts2 l'); [|exact R].
  pose proof (next_token_pos hl hd hs s l H) as [_ K]. rewrite NT in K. exact K.
Qed.
Lemma nt_core_at_quote hl hg hs l : hd 0%N (chs l) = 34%N ->
  nt_core hl hg hs l = ([fst (read_string_token l)], snd (read_string_token l), false).
Proof.
  intros H. unfold nt_core. rewrite TextLex.ch_hd. destruct (chs l) as [|c rest]; [discriminate H|]. cbn [hd] in *. subst c.
  cbn [N.eqb Pos.eqb orb]. destruct (read_string_token l) as [tk l']. reflexivity.
Qed.

(* (3, given parts) after k tokens the lexer stands - up to layout - in front of a string written as the parts ps ++ [(b, g)]
   (contents ps_i / b, each closed by its quote, gaps behind them), and no further quote follows.  Then the next token is the
   STRING token, it starts at the first opening quote and its reported end is the position directly behind the closing
   quote of the LAST part. *)
Theorem string_token_end_of_parts hl hd hs (s pre : list N) ps b g r k ts l :
  s = pre ++ TextLex.src_parts (ps ++ [(b, g)]) ++ r ->
  runs hl hd hs k (init s) ts l -> chs (skipall l) = TextLex.src_parts (ps ++ [(b, g)]) ++ r ->
  Forall TextLex.part_ok (ps ++ [(b, g)]) -> TextLex.no_quote r ->
  exists tk l', next_token_aux hl hd hs l = ([tk], l', false) /\ ttype tk = STRING /\
    (tline tk, tsb tk, tsu tk) = endpos pre /\
    (teline tk, teb tk, teu tk) = endpos (pre ++ TextLex.src_parts ps ++ 34%N :: b ++ [34%N]).
Proof.
  intros ES R EC OK NQ.
  assert (HI : PI s (skipall l)). { apply PI_skipall. apply (runs_PI hl hd hs s k (init s) ts l); [right; apply P_init|exact R]. }
  assert (Q : exists y, chs (skipall l) = 34%N :: y).
  { rewrite EC. destruct (ps ++ [(b, g)]) as [|[b' g'] ps'] eqn:EP; [destruct ps; discriminate EP|]. rewrite TextLex.src_parts_cons. eauto. }
  destruct Q as [y Q].
  destruct (PI_P s _ ltac:(rewrite Q; discriminate) HI) as [pre' AP].
  assert (PE : pre' = pre). { destruct AP as (S1 & _). rewrite ES, EC in S1. apply app_inv_tail in S1. symmetry. exact S1. }
  subst pre'.
  destruct (read_string_token_parts s (skipall l) pre ps b g r AP EC OK NQ) as [A B].
  rewrite next_token_aux_core, nt_core_at_quote by (rewrite Q; reflexivity).
  eexists. eexists. split; [reflexivity|]. split; [|split; [exact A|exact B]].
  unfold read_string_token. destruct (read_string' _ _ _ _) as [[lit [[el eb] eu]] l']. reflexivity.
Qed.

Lemma bytes_app x y : bytes (x ++ y) = bytes x + bytes y.
Proof. unfold bytes. induction x as [|c x IH]; cbn [app fold_right]; [lia|]. rewrite IH. lia. Qed.

(* a string written on one line as one part "b": it ends on its line, 2 + the size of b behind its start *)
Corollary one_line_string_end hl hd hs (s pre : list N) b g r k ts l :
  s = pre ++ (34%N :: b ++ 34%N :: g) ++ r ->
  runs hl hd hs k (init s) ts l -> chs (skipall l) = (34%N :: b ++ 34%N :: g) ++ r ->
  TextLex.body_ok b -> Forall (fun c => c <> 10%N) b -> gap g -> TextLex.no_quote r ->
  exists tk l', next_token_aux hl hd hs l = ([tk], l', false) /\ ttype tk = STRING /\
    teline tk = tline tk /\ teb tk = tsb tk + bytes b + 2 /\ teu tk = tsu tk + Z.of_nat (List.length b) + 2.
Proof.
  intros ES R EC OKb NL G NQ.
  assert (SP : TextLex.src_parts ([] ++ [(b, g)]) = 34%N :: b ++ 34%N :: g) by (cbn; rewrite app_nil_r; reflexivity).
  destruct (string_token_end_of_parts hl hd hs s pre [] b g r k ts l) as (tk & l' & NT & TY & A & B);
    [rewrite SP; exact ES|exact R|rewrite SP; exact EC|constructor; [split; assumption|constructor]|exact NQ|].
  exists tk, l'. split; [exact NT|]. split; [exact TY|]. cbn [TextLex.src_parts flat_map app] in B.
  assert (NL2 : Forall (fun c => c <> 10%N) (34%N :: b ++ [34%N])).
  { constructor; [discriminate|]. apply Forall_app. split; [exact NL|repeat constructor; discriminate]. }
  unfold endpos in A, B. rewrite nl_app, (nl_line _ NL2), (colb_app_line _ _ NL2), (colu_app_line _ _ NL2) in B.
  change (34%N :: b ++ [34%N]) with ([34%N] ++ b ++ [34%N]) in B. rewrite !bytes_app, !app_length in B.
  change (bytes [34%N]) with 1 in B. cbn [List.length] in B.
  pose proof (f_equal (fun x => fst (fst x)) A) as A1. pose proof (f_equal (fun x => snd (fst x)) A) as A2. pose proof (f_equal snd A) as A3.
  pose proof (f_equal (fun x => fst (fst x)) B) as B1. pose proof (f_equal (fun x => snd (fst x)) B) as B2. pose proof (f_equal snd B) as B3.
  cbv beta in *. cbn [fst snd] in *. lia.
Qed.

(* the hypotheses are satisfiable: x "ab" "c" y - the string token starts at column 2 and ends at column 10 *)
Example string_end_example :
  let s := t "x " ++ TextLex.src_parts ([(t "ab", [32%N])] ++ [(t "c", [32%N])]) ++ t "y" in
  let l := snd (fst (next_token_aux no_hi no_hi no_hi (init s))) in
  runs no_hi no_hi no_hi 1 (init s) (fst (fst (next_token_aux no_hi no_hi no_hi (init s)))) l /\
  chs (skipall l) = TextLex.src_parts ([(t "ab", [32%N])] ++ [(t "c", [32%N])]) ++ t "y" /\
  endpos (t "x " ++ TextLex.src_parts [(t "ab", [32%N])] ++ 34%N :: t "c" ++ [34%N]) = (1, 10, 10) /\
  map (fun tk => (ttype tk, (tsb tk, teb tk))) (lex no_hi no_hi no_hi s) = [(IDENT, (0, 1)); (STRING, (2, 10)); (IDENT, (11, 12)); (EOF, (12, 12))].
Proof.
  cbv zeta. split; [cbn [runs]; eexists; eexists; eexists; split; [vm_compute; reflexivity|split; [split; reflexivity|vm_compute; reflexivity]]|].
  split; [vm_compute; reflexivity|]. split; vm_compute; reflexivity.
Qed.
