(* Prototype: C16 "line markers are transparent", on the structured output of the real model. *)
From Coq Require Import List String Ascii ZArith NArith Lia Bool.
From Pory Require Import Lexer Ast Emitter.
Import ListNotations.
Open Scope list_scope.

Definition notmarker (i : instr) : bool := match i with IMarker _ => false | _ => true end.
Definition strip := filter notmarker.

Lemma strip_app a b : strip (a ++ b) = strip a ++ strip b.
Proof. apply filter_app. Qed.

Section T.
Variable p : text.
Variable tl : list text.
Notation ON := (Some p).
Notation OFF := (@None text).

Lemma strip_marker line : strip (marker ON line) = marker OFF line.
Proof. reflexivity. Qed.

Ltac st := repeat (rewrite ?strip_app, ?strip_marker; cbn [strip filter notmarker app]).

Lemma strip_render_stmt s : strip (render_stmt ON s) = render_stmt OFF s.
Proof. destruct s; cbn [render_stmt]; st; reflexivity. Qed.

Lemma strip_flat_map {A} (f g : A -> list instr) l :
  (forall x, strip (f x) = g x) -> strip (flat_map f l) = flat_map g l.
Proof. intros H. induction l; cbn; auto. rewrite strip_app, H, IHl. reflexivity. Qed.

Lemma strip_leaf_cmp name l d : strip (render_leaf_cmp name l d) = render_leaf_cmp name l d.
Proof. unfold render_leaf_cmp. destruct (lk l); cbn; try destruct (flag_truthy l); reflexivity. Qed.

Lemma strip_goto name d next b :
  let '(x, regs, fall) := goto_or_fall name d next b in strip x = x.
Proof. unfold goto_or_fall. destruct (b && (d =? -1)%Z); [reflexivity|]. destruct (d =? next)%Z; reflexivity. Qed.

Lemma render_branch_strip name c next :
  let '(x1, r1, f1) := render_branch ON name c next in
  let '(x2, r2, f2) := render_branch OFF name c next in
  strip x1 = x2 /\ r1 = r2 /\ f1 = f2.
Proof.
  unfold render_branch. destruct (cbr c) as [[d|d|l tr fa|op ol cases def dest]|].
  - pose proof (strip_goto name d next false). destruct (goto_or_fall name d next false) as [[x r] f]. auto.
  - pose proof (strip_goto name d next true). destruct (goto_or_fall name d next true) as [[x r] f]. auto.
  - pose proof (strip_goto name fa next true). destruct (goto_or_fall name fa next true) as [[x r] f].
    repeat split. st. rewrite strip_leaf_cmp, H. destruct (lpre l); reflexivity.
  - assert (C : strip (flat_map (fun '(v, vl, d) => marker ON vl ++ [ICase v (lbl name d)]) cases)
                = flat_map (fun '(v, vl, d) => marker OFF vl ++ [ICase v (lbl name d)]) cases).
    { apply strip_flat_map. intros [[v vl] d]. reflexivity. }
    destruct def as [dd|].
    + destruct (dd =? next)%Z; repeat split; st; rewrite C; reflexivity.
    + destruct (dest =? next)%Z; [repeat split; st; rewrite C; reflexivity|].
      destruct (dest =? -1)%Z; repeat split; st; rewrite C; reflexivity.
  - destruct (cret c =? -1)%Z; [repeat split; destruct (cend c); reflexivity|].
    destruct (cret c =? next)%Z; repeat split; reflexivity.
Qed.

Definition strip_bodies (l : list (Z * list instr)) := map (fun '(i, b) => (i, strip b)) l.

Lemma render_bodies_strip name fs labels order :
  match render_bodies ON tl name fs labels order, render_bodies OFF tl name fs labels order with
  | Ok (b1, r1), Ok (b2, r2) => strip_bodies b1 = b2 /\ r1 = r2
  | ErrLabel t1 x1, ErrLabel t2 x2 => t1 = t2 /\ x1 = x2
  | ErrBreak, ErrBreak | ErrContinue, ErrContinue | OutOfFuel, OutOfFuel => True
  | _, _ => False
  end.
Proof.
  induction order as [|i r IH]; cbn [render_bodies]; auto.
  destruct (get_chunk fs i) as [c|]; auto.
  destruct (clash tl labels (cstmts c)) as [[tk b]|]; auto.
  pose proof (render_branch_strip name c (match r with n :: _ => n | [] => (-1)%Z end)) as RB.
  destruct (render_branch ON name c _) as [[x1 r1] f1].
  destruct (render_branch OFF name c _) as [[x2 r2] f2].
  destruct RB as (Hx & Hr & Hf). subst.
  destruct (render_bodies ON tl name fs labels r) as [[b1 g1]| | | |];
  destruct (render_bodies OFF tl name fs labels r) as [[b2 g2]| | | |]; try contradiction; auto.
  destruct IH as [Hb Hg]. subst. split; auto. cbn. f_equal. f_equal.
  st. rewrite (strip_flat_map _ _ _ strip_render_stmt). destruct f2; reflexivity.
Qed.

Theorem render_chunks_transparent name glob fs order :
  match render_chunks ON tl name glob fs order, render_chunks OFF tl name glob fs order with
  | Ok a, Ok b => strip a = b
  | ErrLabel t1 x1, ErrLabel t2 x2 => t1 = t2 /\ x1 = x2
  | ErrBreak, ErrBreak | ErrContinue, ErrContinue | OutOfFuel, OutOfFuel => True
  | _, _ => False
  end.
Proof.
  unfold render_chunks.
  pose proof (render_bodies_strip name fs (map (chunk_label name) fs) order) as H.
  destruct (render_bodies ON tl name fs _ order) as [[b1 g1]| | | |];
  destruct (render_bodies OFF tl name fs _ order) as [[b2 g2]| | | |]; try contradiction; auto.
  destruct H as [Hb Hg]. subst. unfold strip_bodies.
  induction b1 as [|[i b] r IH]; cbn; auto.
  rewrite strip_app, IH. f_equal. rewrite strip_app. f_equal.
  destruct (i =? 0)%Z; [reflexivity|]. destruct (zmem i g2); reflexivity.
Qed.

(* a script: the chunk graph and the order do not depend on the marker setting at all *)
Theorem emit_script_transparent name glob opt body :
  match emit_script ON tl name glob opt body, emit_script OFF tl name glob opt body with
  | Ok a, Ok b => strip a = b
  | ErrLabel t1 x1, ErrLabel t2 x2 => t1 = t2 /\ x1 = x2
  | ErrBreak, ErrBreak | ErrContinue, ErrContinue | OutOfFuel, OutOfFuel => True
  | _, _ => False
  end.
Proof.
  unfold emit_script. destruct (emit_graph body) as [w| | | |]; auto.
  apply render_chunks_transparent.
Qed.
End T.
