(* Prototype: the FormatText line filler as a fold over the word stream, and its three layout theorems. *)
From Coq Require Import List ZArith Lia Bool.
Import ListNotations.
Open Scope Z_scope.

Section FMT.
Variable word : Type.
Variable width : word -> Z.          (* pixel width incl. control codes; any integer *)
Variable space maxW cursor numLines : Z.

Inductive ebrk := En | El | Ep | EN.                 (* explicit break codes in the input *)
Inductive tok := WWord (w : word) | WBreak (b : ebrk).
Inductive obrk := Bn | Bl | Bp.                       (* codes written to the output *)
Record line := { lwords : list word; lbrk : option obrk; lauto : bool (* inserted by the compiler *) }.

Record st := { out : list line (* reversed *); cur : list word (* reversed *); cw : Z; ln : Z }.

Definition is_p (t : option tok) : bool := match t with Some (WBreak Ep) => true | _ => false end.
Definition is_some {A} (o : option A) : bool := match o with Some _ => true | None => false end.
Definition reserve_at (lnum : Z) (nxt : option tok) : Z :=
  if is_some nxt && ((numLines - 1 <=? lnum) || is_p nxt) then cursor else 0.

Definition step (s : st) (w : tok) (nxt : option tok) : st :=
  match w with
  | WBreak b =>
      let code := match b with
                  | EN => if ln s <? numLines - 1 then Bn else Bl
                  | En => Bn | El => Bl | Ep => Bp
                  end in
      {| out := {| lwords := rev (cur s); lbrk := Some code; lauto := false |} :: out s;
         cur := []; cw := 0;
         ln := match b with Ep => 0 | _ => ln s + 1 end |}
  | WWord x =>
      let ww := width x in
      let nww := match cur s with [] => ww | _ => ww + space end in
      let nw := cw s + nww + reserve_at (ln s) nxt in
      if (maxW <? nw) && negb (match cur s with [] => true | _ => false end) then
        {| out := {| lwords := rev (cur s); lbrk := Some (if numLines - 1 <=? ln s then Bl else Bn); lauto := true |} :: out s;
           cur := [x]; cw := ww; ln := ln s + 1 |}
      else
        {| out := out s; cur := x :: cur s; cw := cw s + nww; ln := ln s |}
  end.

Fixpoint run (s : st) (ts : list tok) : st :=
  match ts with
  | [] => s
  | w :: rest => run (step s w (hd_error rest)) rest
  end.

Definition finish (s : st) : list line :=
  rev (match cur s with
       | [] => out s
       | _ => {| lwords := rev (cur s); lbrk := None; lauto := false |} :: out s
       end).

Definition init : st := {| out := []; cur := []; cw := 0; ln := 0 |}.
Definition layout (ts : list tok) : list line := finish (run init ts).

(* ---------- specification side ---------- *)
Fixpoint wsum (ws : list word) : Z :=       (* width of a line given oldest-first words *)
  match ws with
  | [] => 0
  | [x] => width x
  | x :: r => width x + space + wsum r
  end.

(* paragraph-relative index of each line of a finished output *)
Fixpoint indices (from : Z) (ls : list line) : list Z :=
  match ls with
  | [] => []
  | l :: r => from :: indices (match lbrk l with Some Bp => 0 | _ => from + 1 end) r
  end.

Definition reserve_of (idx : Z) (l : line) : Z :=
  match lbrk l with
  | None => 0
  | Some b => if (numLines - 1 <=? idx) || (match b with Bp => true | _ => false end) then cursor else 0
  end.

Definition line_ok (idx : Z) (l : line) : Prop :=
  (2 <= length (lwords l))%nat -> wsum (lwords l) + reserve_of idx l <= maxW.

Definition disc_ok (idx : Z) (l : line) : Prop :=
  lauto l = true -> lbrk l = Some (if numLines - 1 <=? idx then Bl else Bn).

(* index bookkeeping on the reversed list kept in the state *)
Definition next_index (idx : Z) (l : line) : Z := match lbrk l with Some Bp => 0 | _ => idx + 1 end.

(* all lines of a reversed output are fine, and [lnum] is the index of the line being built *)
Inductive outs_ok : list line -> Z -> Prop :=
| oo_nil : outs_ok [] 0
| oo_cons l r idx : outs_ok r idx -> line_ok idx l -> disc_ok idx l -> lbrk l <> None ->
                    outs_ok (l :: r) (next_index idx l).

Lemma wsum_cons a l : l <> [] -> wsum (a :: l) = width a + space + wsum l.
Proof. destruct l; [congruence|reflexivity]. Qed.

Lemma wsum_snoc ws x : ws <> [] -> wsum (ws ++ [x]) = wsum ws + space + width x.
Proof.
  induction ws as [|a ws IH]; [congruence|]. intros _.
  destruct ws as [|b ws].
  - cbn. lia.
  - change ((a :: b :: ws) ++ [x]) with (a :: ((b :: ws) ++ [x])).
    rewrite wsum_cons by (cbn; discriminate).
    rewrite IH by discriminate. rewrite (wsum_cons a (b :: ws)) by discriminate. lia.
Qed.

Definition cur_width_ok (s : st) : Prop := cw s = wsum (rev (cur s)).

Definition pending_ok (s : st) (nxt : option tok) : Prop :=
  (2 <= length (cur s))%nat -> cw s + reserve_at (ln s) nxt <= maxW.

Definition Inv (s : st) (rest : list tok) : Prop :=
  outs_ok (out s) (ln s) /\ cur_width_ok s /\ pending_ok s (hd_error rest).

Lemma reserve_break_match lnum b :
  reserve_at lnum (Some (WBreak b)) =
  if (numLines - 1 <=? lnum) || (match b with Ep => true | _ => false end) then cursor else 0.
Proof. unfold reserve_at. cbn. destruct b; reflexivity. Qed.

Lemma step_inv s w rest : Inv s (w :: rest) -> Inv (step s w (hd_error rest)) rest.
Proof.
  intros (HO & HW & HP). unfold Inv. destruct w as [x|b]; cbn [step].
  - (* word *)
    set (ww := width x).
    set (nww := match cur s with [] => ww | _ => ww + space end).
    destruct ((maxW <? cw s + nww + reserve_at (ln s) (hd_error rest)) &&
              negb (match cur s with [] => true | _ => false end)) eqn:C.
    + (* wrap *)
      apply andb_prop in C. destruct C as [C1 C2].
      cbn [out cur cw ln]. split; [|split].
      * replace (ln s + 1) with (next_index (ln s) {| lwords := rev (cur s); lbrk := Some (if numLines - 1 <=? ln s then Bl else Bn); lauto := true |}).
        2:{ unfold next_index. cbn. destruct (numLines - 1 <=? ln s); reflexivity. }
        constructor; auto.
        -- (* the finished line fits: its last word was checked with the word x as look-ahead *)
           unfold line_ok. cbn [lwords lbrk]. rewrite rev_length. intros L.
           unfold cur_width_ok in HW. rewrite <- HW.
           specialize (HP L). cbn in HP. unfold reserve_at in HP. cbn in HP.
           unfold reserve_of. cbn.
           destruct (numLines - 1 <=? ln s); cbn in *; lia.
        -- unfold disc_ok. reflexivity.
        -- cbn. discriminate.
      * unfold cur_width_ok. cbn. reflexivity.
      * unfold pending_ok. cbn. lia.
    + (* append *)
      cbn [out cur cw ln]. split; [exact HO|]. split.
      * unfold cur_width_ok in *. cbn [cur cw rev]. destruct (cur s) as [|y c] eqn:Ec.
        -- cbn in *. subst nww. lia.
        -- rewrite wsum_snoc.
           2:{ intro E. apply (f_equal (@length word)) in E. rewrite rev_length in E. cbn in E. lia. }
           subst nww. lia.
      * unfold pending_ok. cbn [cur cw ln length]. intros L.
        destruct (cur s) as [|y c] eqn:Ec; [cbn in L; lia|].
        cbn in C. rewrite andb_true_r in C. apply Z.ltb_ge in C. subst nww ww. lia.
  - (* break *)
    cbn [out cur cw ln]. split; [|split].
    + set (code := match b with EN => if ln s <? numLines - 1 then Bn else Bl | En => Bn | El => Bl | Ep => Bp end).
      replace (match b with Ep => 0 | _ => ln s + 1 end)
        with (next_index (ln s) {| lwords := rev (cur s); lbrk := Some code; lauto := false |}).
      2:{ unfold next_index. cbn. subst code. destruct b; try reflexivity. destruct (ln s <? numLines - 1); reflexivity. }
      constructor; auto.
      * unfold line_ok. cbn [lwords lbrk]. rewrite rev_length. intros L.
        unfold cur_width_ok in HW. rewrite <- HW.
        specialize (HP L). cbn [hd_error] in HP. rewrite reserve_break_match in HP.
        unfold reserve_of. cbn [lbrk]. subst code. revert HP.
        destruct (Z.leb_spec (numLines - 1) (ln s)); destruct (Z.ltb_spec (ln s) (numLines - 1)); try lia;
          destruct b; cbn; lia.
      * unfold disc_ok. cbn. discriminate.
      * cbn. discriminate.
    + unfold cur_width_ok. reflexivity.
    + unfold pending_ok. cbn. lia.
Qed.

Lemma run_inv ts : forall s, Inv s ts -> Inv (run s ts) [].
Proof.
  induction ts as [|w rest IH]; intros s H; cbn [run]; auto.
  apply IH. now apply step_inv.
Qed.

Lemma init_inv ts : Inv init ts.
Proof. split; [constructor|]. split; [reflexivity|]. unfold pending_ok. cbn. lia. Qed.

(* lines of a reversed output with their indices, oldest first *)
Lemma outs_ok_indices r idx :
  outs_ok r idx ->
  Forall2 (fun i l => line_ok i l /\ disc_ok i l) (indices 0 (rev r)) (rev r) /\
  (forall extra, indices 0 (rev r ++ extra) = indices 0 (rev r) ++ indices idx extra).
Proof.
  induction 1.
  - split; [constructor|]. reflexivity.
  - destruct IHouts_ok as [F E]. cbn [rev]. split.
    + rewrite E. apply Forall2_app; auto. cbn. constructor; auto.
    + intros extra. rewrite <- app_assoc. rewrite E. cbn [app indices]. rewrite E.
      rewrite <- app_assoc. reflexivity.
Qed.

(* THE THEOREMS: every line of the result fits under the stated reserve rule, and every
   compiler-inserted break follows the discipline *)
Theorem layout_fits_and_discipline ts :
  Forall2 (fun i l => line_ok i l /\ disc_ok i l) (indices 0 (layout ts)) (layout ts).
Proof.
  unfold layout, finish.
  destruct (run_inv ts init (init_inv ts)) as (HO & HW & HP).
  destruct (outs_ok_indices _ _ HO) as [F E].
  destruct (cur (run init ts)) as [|y c] eqn:Ec; [exact F|].
  set (lastl := {| lwords := rev (y :: c); lbrk := None; lauto := false |}).
  change (rev (lastl :: out (run init ts))) with (rev (out (run init ts)) ++ [lastl]).
  rewrite E. apply Forall2_app; [exact F|].
  cbn [indices]. constructor; [|constructor]. split.
  - unfold line_ok, lastl. cbn [lwords lbrk]. rewrite rev_length. intros L.
    unfold cur_width_ok in HW. rewrite Ec in HW. rewrite <- HW.
    unfold pending_ok in HP. rewrite Ec in HP. specialize (HP L). cbn [hd_error] in HP.
    unfold reserve_of. cbn [lbrk]. unfold reserve_at in HP. cbn in HP. lia.
  - unfold disc_ok, lastl. cbn. discriminate.
Qed.

End FMT.
