(* Prototype parser model: transliteration of parser/parser.go (after the planned repairs). *)
From Coq Require Import List String Ascii ZArith NArith Lia Bool.
From Pory Require Import Lexer Ast.
Import ListNotations.
Open Scope list_scope.
Local Open Scope Z_scope.

(* ---------- results ---------- *)
Record perr := { els : Z; ele : Z; ecs : Z; eus : Z; ece : Z; eue : Z; emsg : text }.
Inductive res (A : Type) := Ok (a : A) | Err (e : perr) | Panic | Fuel.
Arguments Ok {A}. Arguments Err {A}. Arguments Panic {A}. Arguments Fuel {A}.

Notation "'do' x <- m ; f" :=
  (match m with Ok x => f | Err e => Err e | Panic => Panic | Fuel => Fuel end)
  (at level 200, x pattern, m at level 100, f at level 200).

Definition err_tok {A} (tk : token) (m : string) : res A :=
  Err {| els := tline tk; ele := teline tk; ecs := tsb tk; eus := tsu tk; ece := teb tk; eue := teu tk; emsg := t m |}.
Definition err_range {A} (a b : token) (m : string) : res A :=
  Err {| els := tline a; ele := teline b; ecs := tsb a; eus := tsu a; ece := teb b; eue := teu b; emsg := t m |}.

(* ---------- token window ---------- *)
Definition eof0 : token := {| ttype := EOF; tlit := []; tline := 0; tsb := 0; tsu := 0; teline := 0; teb := 0; teu := 0 |}.
Definition toks := list token.
Definition cur (ts : toks) : token := hd eof0 ts.
Definition pk (n : nat) (ts : toks) : token := nth n ts (last ts eof0).
Definition adv (ts : toks) : toks := match ts with [] => [] | [x] => [x] | _ :: r => r end.
Definition is (ty : toktype) (tk : token) : bool := tt_eqb (ttype tk) ty.
Definition curis ty ts := is ty (cur ts).
Definition peekis ty ts := is ty (pk 1 ts).

(* expectPeek: on success advance *)
Definition expect_peek (ty : toktype) (ts : toks) : option toks :=
  if peekis ty ts then Some (adv ts) else None.

Fixpoint join (sep : text) (l : list text) : text :=
  match l with [] => [] | [x] => x | x :: r => x ++ sep ++ join sep r end.
Definition sp : text := [32%N].

Fixpoint assoc {B} (l : list (text * B)) (k : text) : option B :=
  match l with [] => None | (a, b) :: r => if text_eqb a k then Some b else assoc r k end.

(* ---------- implicit data ---------- *)
Record imptext := { itCid : nat; itArg : nat; itTok : token; itType : text; itScript : text }.
Record impmov := { imCid : nat; imArg : nat; imToks : list token; imScript : text; imCmdTok : token }.
Record impdata := { idT : list imptext; idM : list impmov }.
Definition imp0 : impdata := {| idT := []; idM := [] |}.
Definition impadd (a b : impdata) : impdata := {| idT := idT a ++ idT b; idM := idM a ++ idM b |}.

Record autovar := { avName : text; avPos : option Z }.

Definition set_lit (tk : token) (l : text) : token :=
  {| ttype := ttype tk; tlit := l; tline := tline tk; tsb := tsb tk; tsu := tsu tk; teline := teline tk; teb := teb tk; teu := teu tk |}.
Definition set_type_lit (tk : token) (ty : toktype) (l : text) : token :=
  {| ttype := ty; tlit := l; tline := tline tk; tsb := tsb tk; tsu := tsu tk; teline := teline tk; teb := teb tk; teu := teu tk |}.

(* textSuffixes / formatTextTerminator *)
Definition text_suffix (ty : text) : option text :=
  if text_eqb ty [] then Some (t "$")
  else if text_eqb ty (t "ascii") then Some [92%N; 48%N]
  else if text_eqb ty (t "braille") then Some (t "$") else None.
Fixpoint has_suffix_rev (rs rsuf : text) : bool :=
  match rsuf, rs with
  | [], _ => true
  | a :: r1, b :: r2 => (a =? b)%N && has_suffix_rev r2 r1
  | _ :: _, [] => false
  end.
Definition has_suffix (s suf : text) : bool := has_suffix_rev (rev s) (rev suf).
Definition terminate (s ty : text) : text :=
  match text_suffix ty with
  | None => s
  | Some suf => if has_suffix s suf then s else s ++ suf
  end.

Section PARSER.
Variable autovars : list (text * autovar).
Variable switches : list (text * text).
Variable env_errors : bool.
(* format(): the operator is parsed by a function supplied separately (it needs the font model) *)
Variable parse_format : toks -> res (token * text * text * toks).   (* textToken, formatted, stringType, rest(cur = ')') *)

Section WITHCONSTS.
Variable consts : list (text * text).
Definition creplace (x : text) : text := match assoc consts x with Some v => v | None => x end.

(* ---------- movement values ---------- *)
(* strconv.ParseInt(s, 0, 64) for the literals the lexer can produce; None = error *)
Definition digit_val (c : N) : option Z :=
  if ((48 <=? c) && (c <=? 57))%N then Some (Z.of_N c - 48)
  else if ((97 <=? c) && (c <=? 102))%N then Some (Z.of_N c - 87)
  else if ((65 <=? c) && (c <=? 70))%N then Some (Z.of_N c - 55) else None.
Fixpoint parse_digits (base : Z) (ds : text) (acc : Z) : option Z :=
  match ds with
  | [] => Some acc
  | d :: r => match digit_val d with
              | Some v => if (v <? base)%Z then
                            let acc' := (acc * base + v)%Z in
                            if (acc' >? 9223372036854775808)%Z then None else parse_digits base r acc'
                          else None
              | None => None
              end
  end.
Definition go_parse_int (s : text) : option Z :=
  let '(neg, body) := match s with 45%N :: r => (true, r) | 43%N :: r => (false, r) | _ => (false, s) end in
  let pre2 (a : N) := match body with 48%N :: x :: _ :: _ => (x =? a)%N | _ => false end in
  let bare2 (a : N) := match body with [48%N; x] => (x =? a)%N | _ => false end in
  let r := match body with
           | [] => None
           | _ =>
             if bare2 120%N || bare2 88%N || bare2 98%N || bare2 66%N || bare2 111%N || bare2 79%N then None
             else if pre2 120%N || pre2 88%N then parse_digits 16 (tl (tl body)) 0
             else if pre2 98%N || pre2 66%N then parse_digits 2 (tl (tl body)) 0
             else if pre2 111%N || pre2 79%N then parse_digits 8 (tl (tl body)) 0
             else match body with
                  | 48%N :: ((_ :: _) as ds) => parse_digits 8 ds 0
                  | _ => parse_digits 10 body 0
                  end
           end in
  match r with
  | None => None
  | Some v => let v' := if neg then (- v)%Z else v in
              if (v' >? 9223372036854775807)%Z || (v' <? -9223372036854775808)%Z then None else Some v'
  end.

Fixpoint repeat_tok (n : nat) (tk : token) : list token := match n with O => [] | S k => tk :: repeat_tok k tk end.

(* poryswitch header; cur = poryswitch. returns (switchCase, switchValue option, ts with cur = first case token) *)
Definition poryswitch_header (ts : toks) : res (text * option text * toks) :=
  if match switches with [] => env_errors | _ => false end then err_tok (cur ts) "poryswitch used, but no compile switches" else
  match expect_peek LPAREN ts with None => err_tok (pk 1 ts) "expected opening parenthesis for poryswitch value" | Some ts1 =>
  match expect_peek IDENT ts1 with None => err_tok (pk 1 ts1) "expected poryswitch identifier value" | Some ts2 =>
  let sc := tlit (cur ts2) in
  let sv := assoc switches sc in
  if env_errors && (match sv with None => true | Some _ => false end) then err_tok (cur ts2) "no poryswitch for X was specified" else
  match expect_peek RPAREN ts2 with None => err_tok (pk 1 ts2) "expected closing parenthesis for poryswitch value" | Some ts3 =>
  match expect_peek LBRACE ts3 with None => err_tok (pk 1 ts3) "expected opening curly brace for poryswitch statement" | Some ts4 =>
  Ok (sc, sv, adv ts4)
  end end end end.

Definition sval (o : option text) : text := match o with Some v => v | None => [] end.

(* movement / mart lists, with nested poryswitch; one mutual fixpoint, kind = which list *)
Inductive listkind := LMov (closing : toktype) | LMart.

Fixpoint list_value (fuel : nat) (k : listkind) (multi : bool) (ts : toks) (acc : list token) {struct fuel}
  : res (list token * toks) :=
  match fuel with O => Fuel | S f =>
  let closing := match k with LMov c => c | LMart => RBRACE end in
  if curis closing ts then Ok (acc, ts) else
  let continue (acc' : list token) (ts' : toks) :=
      if multi then list_value f k multi ts' acc' else Ok (acc', ts') in
  if curis PORYSWITCH ts then
    let start := cur ts in
    do (sc, sv, ts1) <- poryswitch_header ts;
    do (cases, ts2) <- list_cases f k (cur ts1) ts1 [];
    match assoc cases (sval sv) with
    | Some items => continue (acc ++ items) (adv ts2)
    | None => match assoc cases (t "_") with
              | Some items => continue (acc ++ items) (adv ts2)
              | None => if env_errors then err_tok start "no poryswitch case found" else continue acc (adv ts2)
              end
    end
  else
    match k with
    | LMov _ =>
        if curis IDENT ts then
          let mv := cur ts in
          let ts1 := adv ts in
          if curis MUL ts1 then
            let ts2 := adv ts1 in
            if negb (curis INT ts2) then err_tok (cur ts2) "expected mulplier number for movement command" else
            match go_parse_int (tlit (cur ts2)) with
            | None => err_tok (cur ts2) "invalid movement mulplier integer"
            | Some n => if (n <=? 0)%Z then err_tok (cur ts2) "movement mulplier must be a positive integer"
                        else if (n >? 9999)%Z then err_tok (cur ts2) "movement mulplier is too large"
                        else continue (acc ++ repeat_tok (Z.to_nat n) mv) (adv ts2)
            end
          else continue (acc ++ [mv]) ts1
        else if curis COMMA ts then continue acc (adv ts)
        else err_tok (cur ts) "expected movement command"
    | LMart =>
        if curis IDENT ts then continue (acc ++ [cur ts]) (adv ts)
        else err_tok (cur ts) "expected mart item"
    end
  end
with list_cases (fuel : nat) (k : listkind) (start : token) (ts : toks) (acc : list (text * list token)) {struct fuel}
  : res (list (text * list token) * toks) :=
  match fuel with O => Fuel | S f =>
  if curis RBRACE ts then Ok (acc, ts) else
  if curis EOF ts then err_tok start "missing closing curly braces for poryswitch statement" else
  if negb (curis IDENT ts) && negb (curis INT ts) then err_tok (cur ts) "invalid poryswitch case" else
  let cv := tlit (cur ts) in
  let ts1 := adv ts in
  if curis COLON ts1 || curis LBRACE ts1 then
    let brace := curis LBRACE ts1 in
    let k' := match k with LMov c => if brace then LMov RBRACE else LMov c | LMart => LMart end in
    do (items, ts2) <- list_value f k' brace (adv ts1) [];
    if brace then
      if negb (curis RBRACE ts2) then err_tok (cur ts2) "missing closing curly brace for poryswitch case"
      else list_cases f k start (adv ts2) ((cv, items) :: acc)
    else list_cases f k start ts2 ((cv, items) :: acc)
  else err_tok (cur ts1) "invalid token after poryswitch case"
  end.


(* BEGIN UNFOLD list_value *)
Lemma list_value_unfold f (k : listkind) (multi : bool) (ts : toks) (acc : list token) :
  list_value (S f) k multi ts acc =

  let closing := match k with LMov c => c | LMart => RBRACE end in
  if curis closing ts then Ok (acc, ts) else
  let continue (acc' : list token) (ts' : toks) :=
      if multi then list_value f k multi ts' acc' else Ok (acc', ts') in
  if curis PORYSWITCH ts then
    let start := cur ts in
    do (sc, sv, ts1) <- poryswitch_header ts;
    do (cases, ts2) <- list_cases f k (cur ts1) ts1 [];
    match assoc cases (sval sv) with
    | Some items => continue (acc ++ items) (adv ts2)
    | None => match assoc cases (t "_") with
              | Some items => continue (acc ++ items) (adv ts2)
              | None => if env_errors then err_tok start "no poryswitch case found" else continue acc (adv ts2)
              end
    end
  else
    match k with
    | LMov _ =>
        if curis IDENT ts then
          let mv := cur ts in
          let ts1 := adv ts in
          if curis MUL ts1 then
            let ts2 := adv ts1 in
            if negb (curis INT ts2) then err_tok (cur ts2) "expected mulplier number for movement command" else
            match go_parse_int (tlit (cur ts2)) with
            | None => err_tok (cur ts2) "invalid movement mulplier integer"
            | Some n => if (n <=? 0)%Z then err_tok (cur ts2) "movement mulplier must be a positive integer"
                        else if (n >? 9999)%Z then err_tok (cur ts2) "movement mulplier is too large"
                        else continue (acc ++ repeat_tok (Z.to_nat n) mv) (adv ts2)
            end
          else continue (acc ++ [mv]) ts1
        else if curis COMMA ts then continue acc (adv ts)
        else err_tok (cur ts) "expected movement command"
    | LMart =>
        if curis IDENT ts then continue (acc ++ [cur ts]) (adv ts)
        else err_tok (cur ts) "expected mart item"
    end.
Proof. reflexivity. Qed.

Lemma list_cases_unfold f (k : listkind) (start : token) (ts : toks) (acc : list (text * list token)) :
  list_cases (S f) k start ts acc =

  if curis RBRACE ts then Ok (acc, ts) else
  if curis EOF ts then err_tok start "missing closing curly braces for poryswitch statement" else
  if negb (curis IDENT ts) && negb (curis INT ts) then err_tok (cur ts) "invalid poryswitch case" else
  let cv := tlit (cur ts) in
  let ts1 := adv ts in
  if curis COLON ts1 || curis LBRACE ts1 then
    let brace := curis LBRACE ts1 in
    let k' := match k with LMov c => if brace then LMov RBRACE else LMov c | LMart => LMart end in
    do (items, ts2) <- list_value f k' brace (adv ts1) [];
    if brace then
      if negb (curis RBRACE ts2) then err_tok (cur ts2) "missing closing curly brace for poryswitch case"
      else list_cases f k start (adv ts2) ((cv, items) :: acc)
    else list_cases f k start ts2 ((cv, items) :: acc)
  else err_tok (cur ts1) "invalid token after poryswitch case".
Proof. reflexivity. Qed.
(* END UNFOLD *)
Definition movement_value (fuel : nat) (closing : toktype) (multi : bool) (ts : toks) (acc : list token) :=
  list_value fuel (LMov closing) multi ts acc.
Definition mart_value (fuel : nat) (multi : bool) (ts : toks) (acc : list token) :=
  list_value fuel LMart multi ts acc.

(* moves( ... ): cur = moves *)
Definition moves_operator (fuel : nat) (ts : toks) : res (list token * toks) :=
  match expect_peek LPAREN ts with
  | None => err_tok (cur ts) "moves operator must begin with an open parenthesis"
  | Some ts1 => movement_value fuel RPAREN true (adv ts1) []
  end.

(* ---------- commands ---------- *)
Definition flush_arg (parts : list text) (args : list text) : list text := args ++ [join sp parts].

Fixpoint command_args (fuel : nat) (script : text) (cmdtok : token) (cidv : nat) (ts : toks)
         (depth : nat) (parts : list text) (args : list text) (imp : impdata)
  : res (list text * impdata * toks) :=
  match fuel with O => Fuel | S f =>
  if curis RPAREN ts && Nat.eqb depth 0 then
    Ok (match parts with [] => args | _ => flush_arg parts args end, imp, ts)
  else if curis EOF ts then err_tok cmdtok "missing closing parenthesis for command"
  else if curis COMMA ts then command_args f script cmdtok cidv (adv ts) depth [] (flush_arg parts args) imp
  else if curis LPAREN ts then command_args f script cmdtok cidv (adv ts) (S depth) (parts ++ [tlit (cur ts)]) args imp
  else if curis RPAREN ts then command_args f script cmdtok cidv (adv ts) (pred depth) (parts ++ [tlit (cur ts)]) args imp
  else if curis FORMAT ts then
    do (tk, v, sty, ts1) <- parse_format ts;
    let it := {| itCid := cidv; itArg := List.length args; itTok := set_lit tk (terminate v sty); itType := sty; itScript := script |} in
    command_args f script cmdtok cidv (adv ts1) depth (parts ++ [[]]) args {| idT := idT imp ++ [it]; idM := idM imp |}
  else if curis STRING ts then
    let it := {| itCid := cidv; itArg := List.length args; itTok := set_lit (cur ts) (terminate (tlit (cur ts)) []); itType := []; itScript := script |} in
    command_args f script cmdtok cidv (adv ts) depth (parts ++ [[]]) args {| idT := idT imp ++ [it]; idM := idM imp |}
  else if curis STRINGTYPE ts then
    let sty := tlit (cur ts) in
    let ts1 := adv ts in
    if negb (curis STRING ts1) then err_tok (cur ts1) "expected a string literal after string type" else
    let it := {| itCid := cidv; itArg := List.length args; itTok := set_lit (cur ts1) (terminate (tlit (cur ts1)) sty); itType := sty; itScript := script |} in
    command_args f script cmdtok cidv (adv ts1) depth (parts ++ [[]]) args {| idT := idT imp ++ [it]; idM := idM imp |}
  else if curis MOVES ts then
    do (mv, ts1) <- moves_operator f ts;
    let im := {| imCid := cidv; imArg := List.length args; imToks := mv; imScript := script; imCmdTok := cmdtok |} in
    command_args f script cmdtok cidv (adv ts1) depth (parts ++ [[]]) args {| idT := idT imp; idM := idM imp ++ [im] |}
  else command_args f script cmdtok cidv (adv ts) depth (parts ++ [creplace (tlit (cur ts))]) args imp
  end.

(* cur = command name; result: cur = last token of the command *)
Definition command_stmt (fuel : nat) (script : text) (ts : toks) : res (cmd * impdata * toks) :=
  let tk := cur ts in
  let cidv := List.length ts in
  if peekis LPAREN ts then
    do (args, imp, ts1) <- command_args fuel script tk cidv (adv (adv ts)) 0 [] [] imp0;
    Ok ({| cname := tlit tk; cargs := args; ctok := tk; cid := cidv |}, imp, ts1)
  else Ok ({| cname := tlit tk; cargs := []; ctok := tk; cid := cidv |}, imp0, ts).

(* expectPeekVarOrAutoVar: None = plain var( consumed up to '(' ; Some (var, preamble) *)
Definition var_or_autovar (fuel : nat) (script : text) (ts : toks)
  : res (option (text * cmd) * impdata * toks) :=
  if peekis VAR ts then
    let ts1 := adv ts in
    match expect_peek LPAREN ts1 with
    | None => err_range (cur ts1) (pk 1 ts1) "missing '(' after var operator"
    | Some ts2 => Ok (None, imp0, ts2)
    end
  else
    match assoc autovars (tlit (pk 1 ts)) with
    | Some av =>
        let ts1 := adv ts in
        let ctk := cur ts1 in
        do (c, imp, ts2) <- command_stmt fuel script ts1;
        match avPos av with
        | Some p =>
            if (p <? 0)%Z || (p >? Z.of_nat (List.length (cargs c)) - 1)%Z then err_range ctk (cur ts2) "auto-var command has an arg position out of range"
            else Ok (Some (nth (Z.to_nat p) (cargs c) [], c), imp, ts2)
        | None => Ok (Some (avName av, c), imp, ts2)
        end
    | None => err_tok (pk 1 ts) "expected next token to be 'VAR' or auto-var command"
    end.

(* ---------- boolean expressions ---------- *)
Definition negate_op (o : cmpop) : cmpop :=
  match o with OEq => ONe | ONe => OEq | OLt => OGe | OGt => OLe | OLe => OGt | OGe => OLt end.
Definition negate_bop (o : bop) : bop := match o with BAnd => BOr | BOr => BAnd end.

Definition is_cmp_tok (tk : token) : option cmpop :=
  match ttype tk with
  | GT => Some OGt | GTE => Some OGe | LT => Some OLt | LTE => Some OLe | EQ => Some OEq | NEQ => Some ONe
  | _ => None
  end.

Fixpoint collect_until (fuel : nat) (stop : token -> bool) (ts : toks) (parts : list text)
  : option (list text * toks) :=     (* None = hit EOF (after at least one step) *)
  match fuel with O => None | S f =>
  if stop (cur ts) then Some (parts, ts) else
  let ts1 := adv ts in
  if curis EOF ts1 then None else collect_until f stop ts1 (parts ++ [creplace (tlit (cur ts))])
  end.

(* value( ... ) : cur = first token after '(' *)
Fixpoint value_parts (fuel : nat) (vtok : token) (ts : toks) (depth : nat) (parts : list text)
  : res (list text * toks) :=
  match fuel with O => Fuel | S f =>
  let go d :=
      let ts1 := adv ts in
      if curis EOF ts1 then err_tok vtok "missing ')' when evaluating 'value'"
      else value_parts f vtok ts1 d (parts ++ [creplace (tlit (cur ts))]) in
  if curis LPAREN ts then go (S depth)
  else if curis RPAREN ts then
    match depth with
    | O => Ok (match parts with _ :: _ :: _ => [t "("] ++ parts ++ [t ")"] | _ => parts end, adv ts)
    | S d => go d
    end
  else go depth
  end.

(* parseConditionVarOperator: cur = token after the operand's ')' *)
Definition cond_var_operator (fuel : nat) (ts : toks) : res (cmpop * text * bool * toks) :=
  match is_cmp_tok (cur ts) with
  | None => Ok (ONe, t "0", false, ts)
  | Some o =>
      let otk := cur ts in
      let ts1 := adv ts in
      if curis RPAREN ts1 then err_range otk (cur ts1) "missing comparison value for var operator" else
      if curis VALUE ts1 then
        match expect_peek LPAREN ts1 with
        | None => err_tok (pk 1 ts1) "expected next token to be '('"
        | Some ts2 =>
            do (parts, ts3) <- value_parts fuel (cur ts1) (adv ts2) 0 [];
            Ok (o, join sp parts, true, ts3)
        end
      else
        let start := cur ts1 in
        let stop tk := is RPAREN tk || is AND tk || is OR tk in
        (* Go: loop { append; next; if EOF -> error } guarded by the stop test *)
        match collect_until fuel stop ts1 [] with
        | Some (parts, ts2) => Ok (o, join sp parts, false, ts2)
        | None => (* error token: range from start to the EOF token *)
            err_range start (last ts1 eof0) "missing ')', '&&' or '||' when evaluating 'var' operator"
        end
  end.

Definition cond_flag_operator (ts : toks) (opname : string) : res (cmpop * text * toks) :=
  match ttype (cur ts) with
  | EQ | NEQ =>
      let otk := cur ts in
      let o := if curis EQ ts then OEq else ONe in
      let ts1 := adv ts in
      if curis RPAREN ts1 then err_range otk (cur ts1) "missing comparison value for flag-like operator"
      else if curis TRUE ts1 then Ok (o, t "TRUE", adv ts1)
      else if curis FALSE ts1 then Ok (o, t "FALSE", adv ts1)
      else err_tok (cur ts1) "invalid comparison value. Only TRUE and FALSE are allowed"
  | _ => Ok (OEq, t "TRUE", ts)
  end.

Definition peek_is_autovar (ts : toks) : bool :=
  peekis IDENT ts && match assoc autovars (tlit (pk 1 ts)) with Some _ => true | None => false end.

(* parseLeafBooleanExpression: on entry peek = first token of the leaf; on exit cur = token after the leaf *)
Definition leaf_expr (fuel : nat) (script : text) (ts0 : toks) : res (leaf * impdata * toks) :=
  let '(used_not, ts) := if peekis NOT ts0 then (true, adv ts0) else (false, ts0) in
  let isauto := peek_is_autovar ts in
  if negb (peekis VAR ts) && negb isauto && negb (peekis FLAG ts) && negb (peekis DEFEATED ts) then
    err_tok (pk 1 ts) "left side of binary expression must be var(), flag(), defeated(), or autovar command"
  else
    do (kind, opnd, opline, pre, imp, ts3) <-
       (if negb isauto then
          let ts1 := adv ts in
          let otk := cur ts1 in
          let kind := if is VAR otk then KVar else if is FLAG otk then KFlag else KDefeated in
          match expect_peek LPAREN ts1 with
          | None => err_range otk (pk 1 ts1) "missing opening parenthesis for condition operator"
          | Some ts2 =>
              if peekis RPAREN ts2 then err_range otk (pk 1 ts2) "missing value for condition operator" else
              let ts3 := adv ts2 in
              match collect_until fuel (is RPAREN) ts3 [] with
              | None => err_tok otk "missing closing ')' for condition operator value"
              | Some (parts, ts4) => Ok (kind, join sp parts, tline (cur ts3), None, imp0, ts4)
              end
          end
        else
          do (r, imp, ts1) <- var_or_autovar fuel script ts;
          match r with
          | Some (v, c) => Ok (KVar, v, tline (ctok c), Some c, imp, ts1)
          | None => Panic   (* unreachable: peek is not VAR here *)
          end);
    let ts4 := adv ts3 in
    if used_not then
      let v := match kind with KVar => t "0" | _ => t "FALSE" end in
      Ok ({| lk := kind; loperand := opnd; lline := opline; lop := OEq; lvalue := v; lstrict := false; lpre := pre |}, imp, ts4)
    else
      match kind with
      | KVar => do (o, v, strict, ts5) <- cond_var_operator fuel ts4;
                Ok ({| lk := kind; loperand := opnd; lline := opline; lop := o; lvalue := v; lstrict := strict; lpre := pre |}, imp, ts5)
      | KFlag => do (o, v, ts5) <- cond_flag_operator ts4 "flag";
                Ok ({| lk := kind; loperand := opnd; lline := opline; lop := o; lvalue := v; lstrict := false; lpre := pre |}, imp, ts5)
      | KDefeated => do (o, v, ts5) <- cond_flag_operator ts4 "defeated";
                Ok ({| lk := kind; loperand := opnd; lline := opline; lop := o; lvalue := v; lstrict := false; lpre := pre |}, imp, ts5)
      end.

Definition neg_leaf (l : leaf) : leaf :=
  {| lk := lk l; loperand := loperand l; lline := lline l; lop := negate_op (lop l); lvalue := lvalue l; lstrict := lstrict l; lpre := lpre l |}.

(* parseBooleanExpression (repaired).  On entry peek = first token; on exit cur = token after the expression *)
Fixpoint bool_expr (fuel : nat) (single negated : bool) (script : text) (ts : toks) {struct fuel}
  : res (bexp * impdata * toks) :=
  match fuel with O => Fuel | S f =>
  let nested := peekis LPAREN ts in
  let negnested := peekis NOT ts && is LPAREN (pk 2 ts) in
  if nested || negnested then
    let ts1 := adv ts in
    let open := cur ts1 in
    let '(ts2, nn) := if nested then (ts1, negated) else (adv ts1, negb negated) in
    do (e, imp, ts3) <- bool_expr f false nn script ts2;
    if negb (curis RPAREN ts3) then err_range open (cur ts3) "missing closing ')' for nested boolean expression" else
    if negb single && (peekis AND ts3 || peekis OR ts3) then
      do (e', imp', ts4) <- right_side f e single negated script (adv ts3);
      Ok (e', impadd imp imp', ts4)
    else Ok (e, imp, adv ts3)
  else
    do (l, imp, ts1) <- leaf_expr f script ts;
    let l' := if negated then neg_leaf l else l in
    if single then Ok (BLeaf l', imp, ts1)
    else do (e', imp', ts2) <- right_side f (BLeaf l') single negated script ts1;
         Ok (e', impadd imp imp', ts2)
  end
with right_side (fuel : nat) (left : bexp) (single negated : bool) (script : text) (ts : toks) {struct fuel}
  : res (bexp * impdata * toks) :=
  match fuel with O => Fuel | S f =>
  if curis AND ts then
    do (r, imp, ts1) <- bool_expr f true negated script ts;
    let grouped := BBin (if negated then BOr else BAnd) left r in
    do (e', imp', ts2) <- right_side f grouped single negated script ts1;
    Ok (e', impadd imp imp', ts2)
  else if curis OR ts then
    do (r, imp, ts1) <- bool_expr f false negated script ts;
    Ok (BBin (if negated then BAnd else BOr) left r, imp, ts1)
  else Ok (left, imp0, ts)
  end.


(* BEGIN UNFOLD bool_expr *)
Lemma bool_expr_unfold f (single negated : bool) (script : text) (ts : toks) :
  bool_expr (S f) single negated script ts =

  let nested := peekis LPAREN ts in
  let negnested := peekis NOT ts && is LPAREN (pk 2 ts) in
  if nested || negnested then
    let ts1 := adv ts in
    let open := cur ts1 in
    let '(ts2, nn) := if nested then (ts1, negated) else (adv ts1, negb negated) in
    do (e, imp, ts3) <- bool_expr f false nn script ts2;
    if negb (curis RPAREN ts3) then err_range open (cur ts3) "missing closing ')' for nested boolean expression" else
    if negb single && (peekis AND ts3 || peekis OR ts3) then
      do (e', imp', ts4) <- right_side f e single negated script (adv ts3);
      Ok (e', impadd imp imp', ts4)
    else Ok (e, imp, adv ts3)
  else
    do (l, imp, ts1) <- leaf_expr f script ts;
    let l' := if negated then neg_leaf l else l in
    if single then Ok (BLeaf l', imp, ts1)
    else do (e', imp', ts2) <- right_side f (BLeaf l') single negated script ts1;
         Ok (e', impadd imp imp', ts2).
Proof. reflexivity. Qed.

Lemma right_side_unfold f (left : bexp) (single negated : bool) (script : text) (ts : toks) :
  right_side (S f) left single negated script ts =

  if curis AND ts then
    do (r, imp, ts1) <- bool_expr f true negated script ts;
    let grouped := BBin (if negated then BOr else BAnd) left r in
    do (e', imp', ts2) <- right_side f grouped single negated script ts1;
    Ok (e', impadd imp imp', ts2)
  else if curis OR ts then
    do (r, imp, ts1) <- bool_expr f false negated script ts;
    Ok (BBin (if negated then BAnd else BOr) left r, imp, ts1)
  else Ok (left, imp0, ts).
Proof. reflexivity. Qed.
(* END UNFOLD *)

(* ---------- statements ---------- *)
Definition try_label (ts : toks) : option (stmt * toks) :=
  if peekis COLON ts then Some (SLabel (tlit (cur ts)) false (cur ts), adv ts)
  else if peekis LPAREN ts && (is GLOBAL (pk 2 ts) || is LOCAL (pk 2 ts)) && is RPAREN (pk 3 ts) && is COLON (pk 4 ts)
  then Some (SLabel (tlit (cur ts)) (is GLOBAL (pk 2 ts)) (cur ts), adv (adv (adv (adv ts))))
  else None.

(* switch operand: cur = first operand token; EOF test first, then append, then next *)
Fixpoint switch_operand (fuel : nat) (orig : token) (ts : toks) (parts : list text) : res (list text * toks) :=
  match fuel with O => Fuel | S f =>
  if curis RPAREN ts then Ok (parts, ts)
  else if curis EOF ts then err_tok orig "missing closing parenthesis of switch statement value"
  else switch_operand f orig (adv ts) (parts ++ [creplace (tlit (cur ts))])
  end.

Definition scase := (bool * text * Z * list stmt)%type.

Fixpoint parse_stmt (fuel : nat) (script : text) (bs cs : list nat) (ts : toks) {struct fuel}
  : res (list stmt * impdata * toks) :=
  match fuel with O => Fuel | S f =>
  match ttype (cur ts) with
  | IDENT =>
      match try_label ts with
      | Some (l, ts1) => Ok ([l], imp0, ts1)
      | None => do (c, imp, ts1) <- command_stmt f script ts; Ok ([SCmd c], imp, ts1)
      end
  | IF => parse_if f script bs cs ts
  | WHILE =>
      let tg := List.length ts in
      do (c, b, imp, ts1) <- parse_cond f false script (tg :: bs) (tg :: cs) ts;
      Ok ([SWhile tg c b], imp, ts1)
  | DO =>
      let tg := List.length ts in
      match expect_peek LBRACE ts with
      | None => err_range (cur ts) (pk 1 ts) "missing opening curly brace of do...while statement"
      | Some ts1 =>
          do (b, imp, ts2) <- parse_block f script (tg :: bs) (tg :: cs) (cur ts1) (adv ts1) [] imp0;
          match expect_peek WHILE ts2 with
          | None => err_range (cur ts2) (pk 1 ts2) "missing 'while' after body of do...while statement"
          | Some ts3 =>
              match expect_peek LPAREN ts3 with
              | None => err_range (cur ts3) (pk 1 ts3) "missing '(' to start condition for do...while statement"
              | Some ts4 =>
                  do (e, imp', ts5) <- bool_expr f false false script ts4;
                  Ok ([SDoWhile tg b e], impadd imp imp', ts5)
              end
          end
      end
  | BREAK =>
      match bs with
      | [] => err_tok (cur ts) "'break' statement outside of any break-able scope"
      | tg :: _ => Ok ([SBreak tg], imp0, ts)
      end
  | CONTINUE =>
      match cs with
      | [] => err_tok (cur ts) "'continue' statement outside of any continue-able scope"
      | tg :: _ => if peekis RBRACE ts then Ok ([SContinue tg], imp0, ts)
                   else err_tok (cur ts) "'continue' must be the last statement in block scope"
      end
  | SWITCH => parse_switch f script bs cs ts
  | PORYSWITCH => parse_pory f script bs cs ts
  | _ => err_tok (cur ts) "could not parse statement"
  end
  end
(* cur = first token of the block's contents; result cur = '}' *)
with parse_block (fuel : nat) (script : text) (bs cs : list nat) (start : token) (ts : toks)
                 (acc : list stmt) (imp : impdata) {struct fuel} : res (list stmt * impdata * toks) :=
  match fuel with O => Fuel | S f =>
  if curis RBRACE ts then Ok (acc, imp, ts)
  else if curis EOF ts then err_tok start "missing closing curly brace for block statement"
  else do (ss, imp', ts1) <- parse_stmt f script bs cs ts;
       parse_block f script bs cs start (adv ts1) (acc ++ ss) (impadd imp imp')
  end
with parse_switch_block (fuel : nat) (script : text) (bs cs : list nat) (start : token) (ts : toks)
                 (acc : list stmt) (imp : impdata) {struct fuel} : res (list stmt * impdata * toks) :=
  match fuel with O => Fuel | S f =>
  if curis RBRACE ts || curis CASE ts || curis DEFAULT ts then Ok (acc, imp, ts)
  else if curis EOF ts then err_range start (cur ts) "missing end for switch case body"
  else do (ss, imp', ts1) <- parse_stmt f script bs cs ts;
       parse_switch_block f script bs cs start (adv ts1) (acc ++ ss) (impadd imp imp')
  end
(* parseConditionExpression; cur = if/elif/while *)
with parse_cond (fuel : nat) (require : bool) (script : text) (bs cs : list nat) (ts : toks) {struct fuel}
  : res (option bexp * list stmt * impdata * toks) :=
  match fuel with O => Fuel | S f =>
  do (e, imp, ts1) <-
     (if require || negb (peekis LBRACE ts) then
        match expect_peek LPAREN ts with
        | None => err_range (cur ts) (pk 1 ts) "missing '(' to start boolean expression"
        | Some tsa => do (e, imp, tsb) <- bool_expr f false false script tsa; Ok (Some e, imp, tsb)
        end
      else Ok (None, imp0, ts));
  match expect_peek LBRACE ts1 with
  | None => err_tok (pk 1 ts1) "expected next token to be '{'"
  | Some ts2 =>
      do (b, imp', ts3) <- parse_block f script bs cs (cur ts2) (adv ts2) [] imp0;
      Ok (e, b, impadd imp imp', ts3)
  end
  end
with parse_if (fuel : nat) (script : text) (bs cs : list nat) (ts : toks) {struct fuel}
  : res (list stmt * impdata * toks) :=
  match fuel with O => Fuel | S f =>
  do (e, b, imp, ts1) <- parse_cond f true script bs cs ts;
  match e with
  | None => Panic
  | Some e1 =>
      do (elifs, imp2, ts2) <- parse_elifs f script bs cs ts1 [] imp;
      if peekis ELSE ts2 then
        let ts3 := adv ts2 in
        match expect_peek LBRACE ts3 with
        | None => err_range (cur ts3) (pk 1 ts3) "missing opening curly brace of else statement"
        | Some ts4 =>
            do (eb, imp3, ts5) <- parse_block f script bs cs (cur ts4) (adv ts4) [] imp0;
            Ok ([SIf ((e1, b) :: elifs) (Some eb)], impadd imp2 imp3, ts5)
        end
      else Ok ([SIf ((e1, b) :: elifs) None], imp2, ts2)
  end
  end
with parse_elifs (fuel : nat) (script : text) (bs cs : list nat) (ts : toks)
                 (acc : list (bexp * list stmt)) (imp : impdata) {struct fuel}
  : res (list (bexp * list stmt) * impdata * toks) :=
  match fuel with O => Fuel | S f =>
  if peekis ELSEIF ts then
    do (e, b, imp', ts1) <- parse_cond f true script bs cs (adv ts);
    match e with
    | None => Panic
    | Some e1 => parse_elifs f script bs cs ts1 (acc ++ [(e1, b)]) (impadd imp imp')
    end
  else Ok (acc, imp, ts)
  end
with parse_switch (fuel : nat) (script : text) (bs cs : list nat) (ts : toks) {struct fuel}
  : res (list stmt * impdata * toks) :=
  match fuel with O => Fuel | S f =>
  let tg := List.length ts in
  let orig := cur ts in
  match expect_peek LPAREN ts with
  | None => err_range (cur ts) (pk 1 ts) "missing opening parenthesis of switch statement operand"
  | Some ts1 =>
      do (r, imp, ts2) <- var_or_autovar f script ts1;
      do (operand, oline, pre, ts3) <-
         (match r with
          | None =>
              let ts2' := adv ts2 in
              do (parts, tsx) <- switch_operand f orig ts2' [];
              Ok (join sp parts, tline (cur ts2'), None, adv tsx)
          | Some (v, c) =>
              match expect_peek RPAREN ts2 with
              | None => err_tok orig "missing closing parenthesis of switch statement value"
              | Some tsx => Ok (v, tline (ctok c), Some c, tsx)
              end
          end);
      match expect_peek LBRACE ts3 with
      | None => err_range (cur ts3) (pk 1 ts3) "missing opening curly brace of switch statement"
      | Some ts4 =>
          do (cases, imp', ts5) <- parse_cases f script (tg :: bs) cs (cur ts4) (adv ts4) [] [] false imp0;
          match cases with
          | [] => err_range orig (cur ts5) "switch statement has no cases or default case"
          | _ => Ok ((match pre with Some c => [SCmd c] | None => [] end) ++ [SSwitch tg operand oline cases],
                     impadd imp imp', ts5)
          end
      end
  end
  end
with parse_cases (fuel : nat) (script : text) (bs cs : list nat) (brace : token) (ts : toks)
                 (acc : list scase) (seen : list text) (hasdef : bool) (imp : impdata) {struct fuel}
  : res (list scase * impdata * toks) :=
  match fuel with O => Fuel | S f =>
  if curis RBRACE ts then Ok (acc, imp, ts)
  else if curis CASE ts then
    let ctk := cur ts in
    let ts1 := adv ts in
    let vtk := cur ts1 in
    match collect_until f (is COLON) ts1 [] with
    | None => err_tok ctk "missing `:` after 'case'"
    | Some (parts, ts2) =>
        let v := join sp parts in
        if existsb (text_eqb v) seen then err_range ctk (cur ts2) "duplicate switch cases detected"
        else do (b, imp', ts3) <- parse_switch_block f script bs cs brace (adv ts2) [] imp0;
             parse_cases f script bs cs brace ts3 (acc ++ [(false, v, tline vtk, b)]) (v :: seen) hasdef (impadd imp imp')
    end
  else if curis DEFAULT ts then
    if hasdef then err_tok (cur ts) "multiple `default` cases found in switch statement"
    else match expect_peek COLON ts with
         | None => err_tok (cur ts) "missing `:` after default"
         | Some ts1 =>
             do (b, imp', ts2) <- parse_switch_block f script bs cs brace (adv ts1) [] imp0;
             parse_cases f script bs cs brace ts2 (acc ++ [(true, [], 0%Z, b)]) seen true (impadd imp imp')
         end
  else err_tok (cur ts) "invalid start of switch case"
  end
(* parsePoryswitchStatement; cur = poryswitch; result cur = closing '}' *)
with parse_pory (fuel : nat) (script : text) (bs cs : list nat) (ts : toks) {struct fuel}
  : res (list stmt * impdata * toks) :=
  match fuel with O => Fuel | S f =>
  let start := cur ts in
  do (sc, sv, ts1) <- poryswitch_header ts;
  do (cases, ts2) <- parse_pory_cases f script bs cs (cur ts1) ts1 [];
  match assoc cases (sval sv) with
  | Some (ss, imp) => Ok (ss, imp, ts2)
  | None => match assoc cases (t "_") with
            | Some (ss, imp) => Ok (ss, imp, ts2)
            | None => if env_errors then err_tok start "no poryswitch case found" else Ok ([], imp0, ts2)
            end
  end
  end
with parse_pory_cases (fuel : nat) (script : text) (bs cs : list nat) (start : token) (ts : toks)
                      (acc : list (text * (list stmt * impdata))) {struct fuel}
  : res (list (text * (list stmt * impdata)) * toks) :=
  match fuel with O => Fuel | S f =>
  if curis RBRACE ts then Ok (acc, ts)
  else if curis EOF ts then err_tok start "missing closing curly braces for poryswitch statement"
  else if negb (curis IDENT ts) && negb (curis INT ts) then err_tok (cur ts) "invalid poryswitch case"
  else
    let ctk := cur ts in
    let ts1 := adv ts in
    if curis COLON ts1 || curis LBRACE ts1 then
      let brace := curis LBRACE ts1 in
      do (ss, imp, ts2) <- parse_pory_stmts f script bs cs brace (adv ts1) [] imp0;
      if brace then
        if negb (curis RBRACE ts2) then err_tok ctk "missing closing curly brace for poryswitch case"
        else parse_pory_cases f script bs cs start (adv ts2) ((tlit ctk, (ss, imp)) :: acc)
      else parse_pory_cases f script bs cs start ts2 ((tlit ctk, (ss, imp)) :: acc)
    else err_tok (cur ts1) "invalid token after poryswitch case"
  end
with parse_pory_stmts (fuel : nat) (script : text) (bs cs : list nat) (multi : bool) (ts : toks)
                      (acc : list stmt) (imp : impdata) {struct fuel} : res (list stmt * impdata * toks) :=
  match fuel with O => Fuel | S f =>
  if curis RBRACE ts then Ok (acc, imp, ts)
  else
    do (ss, imp', ts1) <- (if curis PORYSWITCH ts then parse_pory f script bs cs ts else parse_stmt f script bs cs ts);
    let ts2 := adv ts1 in
    if multi then parse_pory_stmts f script bs cs multi ts2 (acc ++ ss) (impadd imp imp')
    else Ok (acc ++ ss, impadd imp imp', ts2)
  end.


(* BEGIN UNFOLD parse_stmt *)
Lemma parse_stmt_unfold f (script : text) (bs cs : list nat) (ts : toks) :
  parse_stmt (S f) script bs cs ts =

  match ttype (cur ts) with
  | IDENT =>
      match try_label ts with
      | Some (l, ts1) => Ok ([l], imp0, ts1)
      | None => do (c, imp, ts1) <- command_stmt f script ts; Ok ([SCmd c], imp, ts1)
      end
  | IF => parse_if f script bs cs ts
  | WHILE =>
      let tg := List.length ts in
      do (c, b, imp, ts1) <- parse_cond f false script (tg :: bs) (tg :: cs) ts;
      Ok ([SWhile tg c b], imp, ts1)
  | DO =>
      let tg := List.length ts in
      match expect_peek LBRACE ts with
      | None => err_range (cur ts) (pk 1 ts) "missing opening curly brace of do...while statement"
      | Some ts1 =>
          do (b, imp, ts2) <- parse_block f script (tg :: bs) (tg :: cs) (cur ts1) (adv ts1) [] imp0;
          match expect_peek WHILE ts2 with
          | None => err_range (cur ts2) (pk 1 ts2) "missing 'while' after body of do...while statement"
          | Some ts3 =>
              match expect_peek LPAREN ts3 with
              | None => err_range (cur ts3) (pk 1 ts3) "missing '(' to start condition for do...while statement"
              | Some ts4 =>
                  do (e, imp', ts5) <- bool_expr f false false script ts4;
                  Ok ([SDoWhile tg b e], impadd imp imp', ts5)
              end
          end
      end
  | BREAK =>
      match bs with
      | [] => err_tok (cur ts) "'break' statement outside of any break-able scope"
      | tg :: _ => Ok ([SBreak tg], imp0, ts)
      end
  | CONTINUE =>
      match cs with
      | [] => err_tok (cur ts) "'continue' statement outside of any continue-able scope"
      | tg :: _ => if peekis RBRACE ts then Ok ([SContinue tg], imp0, ts)
                   else err_tok (cur ts) "'continue' must be the last statement in block scope"
      end
  | SWITCH => parse_switch f script bs cs ts
  | PORYSWITCH => parse_pory f script bs cs ts
  | _ => err_tok (cur ts) "could not parse statement"
  end.
Proof. reflexivity. Qed.

Lemma parse_block_unfold f (script : text) (bs cs : list nat) (start : token) (ts : toks)
                 (acc : list stmt) (imp : impdata) :
  parse_block (S f) script bs cs start ts acc imp =

  if curis RBRACE ts then Ok (acc, imp, ts)
  else if curis EOF ts then err_tok start "missing closing curly brace for block statement"
  else do (ss, imp', ts1) <- parse_stmt f script bs cs ts;
       parse_block f script bs cs start (adv ts1) (acc ++ ss) (impadd imp imp').
Proof. reflexivity. Qed.

Lemma parse_switch_block_unfold f (script : text) (bs cs : list nat) (start : token) (ts : toks)
                 (acc : list stmt) (imp : impdata) :
  parse_switch_block (S f) script bs cs start ts acc imp =

  if curis RBRACE ts || curis CASE ts || curis DEFAULT ts then Ok (acc, imp, ts)
  else if curis EOF ts then err_range start (cur ts) "missing end for switch case body"
  else do (ss, imp', ts1) <- parse_stmt f script bs cs ts;
       parse_switch_block f script bs cs start (adv ts1) (acc ++ ss) (impadd imp imp').
Proof. reflexivity. Qed.

Lemma parse_cond_unfold f (require : bool) (script : text) (bs cs : list nat) (ts : toks) :
  parse_cond (S f) require script bs cs ts =

  do (e, imp, ts1) <-
     (if require || negb (peekis LBRACE ts) then
        match expect_peek LPAREN ts with
        | None => err_range (cur ts) (pk 1 ts) "missing '(' to start boolean expression"
        | Some tsa => do (e, imp, tsb) <- bool_expr f false false script tsa; Ok (Some e, imp, tsb)
        end
      else Ok (None, imp0, ts));
  match expect_peek LBRACE ts1 with
  | None => err_tok (pk 1 ts1) "expected next token to be '{'"
  | Some ts2 =>
      do (b, imp', ts3) <- parse_block f script bs cs (cur ts2) (adv ts2) [] imp0;
      Ok (e, b, impadd imp imp', ts3)
  end.
Proof. reflexivity. Qed.

Lemma parse_if_unfold f (script : text) (bs cs : list nat) (ts : toks) :
  parse_if (S f) script bs cs ts =

  do (e, b, imp, ts1) <- parse_cond f true script bs cs ts;
  match e with
  | None => Panic
  | Some e1 =>
      do (elifs, imp2, ts2) <- parse_elifs f script bs cs ts1 [] imp;
      if peekis ELSE ts2 then
        let ts3 := adv ts2 in
        match expect_peek LBRACE ts3 with
        | None => err_range (cur ts3) (pk 1 ts3) "missing opening curly brace of else statement"
        | Some ts4 =>
            do (eb, imp3, ts5) <- parse_block f script bs cs (cur ts4) (adv ts4) [] imp0;
            Ok ([SIf ((e1, b) :: elifs) (Some eb)], impadd imp2 imp3, ts5)
        end
      else Ok ([SIf ((e1, b) :: elifs) None], imp2, ts2)
  end.
Proof. reflexivity. Qed.

Lemma parse_elifs_unfold f (script : text) (bs cs : list nat) (ts : toks)
                 (acc : list (bexp * list stmt)) (imp : impdata) :
  parse_elifs (S f) script bs cs ts acc imp =

  if peekis ELSEIF ts then
    do (e, b, imp', ts1) <- parse_cond f true script bs cs (adv ts);
    match e with
    | None => Panic
    | Some e1 => parse_elifs f script bs cs ts1 (acc ++ [(e1, b)]) (impadd imp imp')
    end
  else Ok (acc, imp, ts).
Proof. reflexivity. Qed.

Lemma parse_switch_unfold f (script : text) (bs cs : list nat) (ts : toks) :
  parse_switch (S f) script bs cs ts =

  let tg := List.length ts in
  let orig := cur ts in
  match expect_peek LPAREN ts with
  | None => err_range (cur ts) (pk 1 ts) "missing opening parenthesis of switch statement operand"
  | Some ts1 =>
      do (r, imp, ts2) <- var_or_autovar f script ts1;
      do (operand, oline, pre, ts3) <-
         (match r with
          | None =>
              let ts2' := adv ts2 in
              do (parts, tsx) <- switch_operand f orig ts2' [];
              Ok (join sp parts, tline (cur ts2'), None, adv tsx)
          | Some (v, c) =>
              match expect_peek RPAREN ts2 with
              | None => err_tok orig "missing closing parenthesis of switch statement value"
              | Some tsx => Ok (v, tline (ctok c), Some c, tsx)
              end
          end);
      match expect_peek LBRACE ts3 with
      | None => err_range (cur ts3) (pk 1 ts3) "missing opening curly brace of switch statement"
      | Some ts4 =>
          do (cases, imp', ts5) <- parse_cases f script (tg :: bs) cs (cur ts4) (adv ts4) [] [] false imp0;
          match cases with
          | [] => err_range orig (cur ts5) "switch statement has no cases or default case"
          | _ => Ok ((match pre with Some c => [SCmd c] | None => [] end) ++ [SSwitch tg operand oline cases],
                     impadd imp imp', ts5)
          end
      end
  end.
Proof. reflexivity. Qed.

Lemma parse_cases_unfold f (script : text) (bs cs : list nat) (brace : token) (ts : toks)
                 (acc : list scase) (seen : list text) (hasdef : bool) (imp : impdata) :
  parse_cases (S f) script bs cs brace ts acc seen hasdef imp =

  if curis RBRACE ts then Ok (acc, imp, ts)
  else if curis CASE ts then
    let ctk := cur ts in
    let ts1 := adv ts in
    let vtk := cur ts1 in
    match collect_until f (is COLON) ts1 [] with
    | None => err_tok ctk "missing `:` after 'case'"
    | Some (parts, ts2) =>
        let v := join sp parts in
        if existsb (text_eqb v) seen then err_range ctk (cur ts2) "duplicate switch cases detected"
        else do (b, imp', ts3) <- parse_switch_block f script bs cs brace (adv ts2) [] imp0;
             parse_cases f script bs cs brace ts3 (acc ++ [(false, v, tline vtk, b)]) (v :: seen) hasdef (impadd imp imp')
    end
  else if curis DEFAULT ts then
    if hasdef then err_tok (cur ts) "multiple `default` cases found in switch statement"
    else match expect_peek COLON ts with
         | None => err_tok (cur ts) "missing `:` after default"
         | Some ts1 =>
             do (b, imp', ts2) <- parse_switch_block f script bs cs brace (adv ts1) [] imp0;
             parse_cases f script bs cs brace ts2 (acc ++ [(true, [], 0%Z, b)]) seen true (impadd imp imp')
         end
  else err_tok (cur ts) "invalid start of switch case".
Proof. reflexivity. Qed.

Lemma parse_pory_unfold f (script : text) (bs cs : list nat) (ts : toks) :
  parse_pory (S f) script bs cs ts =

  let start := cur ts in
  do (sc, sv, ts1) <- poryswitch_header ts;
  do (cases, ts2) <- parse_pory_cases f script bs cs (cur ts1) ts1 [];
  match assoc cases (sval sv) with
  | Some (ss, imp) => Ok (ss, imp, ts2)
  | None => match assoc cases (t "_") with
            | Some (ss, imp) => Ok (ss, imp, ts2)
            | None => if env_errors then err_tok start "no poryswitch case found" else Ok ([], imp0, ts2)
            end
  end.
Proof. reflexivity. Qed.

Lemma parse_pory_cases_unfold f (script : text) (bs cs : list nat) (start : token) (ts : toks)
                      (acc : list (text * (list stmt * impdata))) :
  parse_pory_cases (S f) script bs cs start ts acc =

  if curis RBRACE ts then Ok (acc, ts)
  else if curis EOF ts then err_tok start "missing closing curly braces for poryswitch statement"
  else if negb (curis IDENT ts) && negb (curis INT ts) then err_tok (cur ts) "invalid poryswitch case"
  else
    let ctk := cur ts in
    let ts1 := adv ts in
    if curis COLON ts1 || curis LBRACE ts1 then
      let brace := curis LBRACE ts1 in
      do (ss, imp, ts2) <- parse_pory_stmts f script bs cs brace (adv ts1) [] imp0;
      if brace then
        if negb (curis RBRACE ts2) then err_tok ctk "missing closing curly brace for poryswitch case"
        else parse_pory_cases f script bs cs start (adv ts2) ((tlit ctk, (ss, imp)) :: acc)
      else parse_pory_cases f script bs cs start ts2 ((tlit ctk, (ss, imp)) :: acc)
    else err_tok (cur ts1) "invalid token after poryswitch case".
Proof. reflexivity. Qed.

Lemma parse_pory_stmts_unfold f (script : text) (bs cs : list nat) (multi : bool) (ts : toks)
                      (acc : list stmt) (imp : impdata) :
  parse_pory_stmts (S f) script bs cs multi ts acc imp =

  if curis RBRACE ts then Ok (acc, imp, ts)
  else
    do (ss, imp', ts1) <- (if curis PORYSWITCH ts then parse_pory f script bs cs ts else parse_stmt f script bs cs ts);
    let ts2 := adv ts1 in
    if multi then parse_pory_stmts f script bs cs multi ts2 (acc ++ ss) (impadd imp imp')
    else Ok (acc ++ ss, impadd imp imp', ts2).
Proof. reflexivity. Qed.
(* END UNFOLD *)
(* ---------- top-level statements that only read the constants ---------- *)
Definition scope_modifier (default : bool) (ts : toks) : res (bool * toks) :=
  if negb (peekis LPAREN ts) then Ok (default, ts) else
  let ts1 := adv ts in
  if negb (peekis GLOBAL ts1) && negb (peekis LOCAL ts1) then err_tok (pk 1 ts1) "scope modifier must be 'global' or 'local'" else
  let ts2 := adv ts1 in
  if negb (peekis RPAREN ts2) then err_tok (cur ts2) "missing ')' after scope modifier" else
  Ok (curis GLOBAL ts2, adv ts2).

Definition parse_script (fuel : nat) (ts : toks) : res (text * bool * list stmt * impdata * toks) :=
  let stok := cur ts in
  do (g, ts1) <- scope_modifier true ts;
  match expect_peek IDENT ts1 with
  | None => err_range (cur ts1) (pk 1 ts1) "missing name for script"
  | Some ts2 =>
      let name := tlit (cur ts2) in
      match expect_peek LBRACE ts2 with
      | None => err_range stok (pk 1 ts2) "missing opening curly brace for script"
      | Some ts3 =>
          do (b, imp, ts4) <- parse_block fuel name [] [] (cur ts3) (adv ts3) [] imp0;
          Ok (name, g, b, imp, ts4)
      end
  end.

(* parseTextValue: cur = first token of the value; result cur = last token of the value *)
Definition text_value (ts : toks) : res (text * text * toks) :=
  if curis FORMAT ts then
    do (tk, v, sty, ts1) <- parse_format ts; Ok (terminate v sty, sty, ts1)
  else if curis STRING ts then Ok (terminate (tlit (cur ts)) [], [], ts)
  else if curis STRINGTYPE ts then
    let sty := tlit (cur ts) in
    let ts1 := adv ts in
    if negb (curis STRING ts1) then err_tok (cur ts1) "expected a string literal after string type"
    else Ok (terminate (tlit (cur ts1)) sty, sty, ts1)
  else err_tok (cur ts) "body of text statement must be a string or formatted string".

Fixpoint pory_text_cases (fuel : nat) (start : token) (ts : toks) (acc : list (text * (text * text)))
  : res (list (text * (text * text)) * toks) :=
  match fuel with O => Fuel | S f =>
  if curis RBRACE ts then Ok (acc, ts)
  else if curis EOF ts then err_tok start "missing closing curly brace for poryswitch statement"
  else if negb (curis IDENT ts) && negb (curis INT ts) then err_tok (cur ts) "invalid poryswitch case"
  else
    let cv := tlit (cur ts) in
    let ts1 := adv ts in
    if curis COLON ts1 || curis LBRACE ts1 then
      let brace := curis LBRACE ts1 in
      do (v, sty, ts2) <- text_value (adv ts1);
      let ts3 := adv ts2 in
      if brace then
        if negb (curis RBRACE ts3) then err_tok start "missing closing curly brace for poryswitch case"
        else pory_text_cases f start (adv ts3) ((cv, (v, sty)) :: acc)
      else pory_text_cases f start ts3 ((cv, (v, sty)) :: acc)
    else err_tok (cur ts1) "invalid token after poryswitch case"
  end.

(* cur = poryswitch; result cur = closing '}' of the poryswitch *)
Definition pory_text (fuel : nat) (ts : toks) : res (text * text * toks) :=
  let start := cur ts in
  do (sc, sv, ts1) <- poryswitch_header ts;
  do (cases, ts2) <- pory_text_cases fuel (cur ts1) ts1 [];
  match assoc cases (sval sv) with
  | Some (v, sty) => Ok (v, sty, ts2)
  | None => match assoc cases (t "_") with
            | Some (v, sty) => Ok (v, sty, ts2)       (* repair D7: the fallback's own type *)
            | None => if env_errors then err_tok start "no poryswitch case found" else Ok ([], [], ts2)
            end
  end.

Definition parse_text (fuel : nat) (ts : toks) : res (textdef * toks) :=
  let stok := cur ts in
  do (g, ts1) <- scope_modifier true ts;
  match expect_peek IDENT ts1 with
  | None => err_range stok (pk 1 ts1) "missing name for text statement"
  | Some ts2 =>
      let name := tlit (cur ts2) in
      match expect_peek LBRACE ts2 with
      | None => err_range stok (pk 1 ts2) "missing opening curly brace for text"
      | Some ts3 =>
          let ts4 := adv ts3 in
          do (v, sty, ts5) <- (if curis PORYSWITCH ts4 then pory_text fuel ts4 else text_value ts4);
          match expect_peek RBRACE ts5 with
          | None => err_tok (pk 1 ts5) "expected closing curly brace for text"
          | Some ts6 => Ok ({| xname := name; xvalue := v; xtype := sty; xglob := g; xtok := stok |}, ts6)
          end
      end
  end.

Definition parse_movement (fuel : nat) (ts : toks) : res (top * toks) :=
  let stok := cur ts in
  do (g, ts1) <- scope_modifier false ts;
  match expect_peek IDENT ts1 with
  | None => err_range stok (pk 1 ts1) "missing name for movement statement"
  | Some ts2 =>
      let name := tlit (cur ts2) in
      match expect_peek LBRACE ts2 with
      | None => err_range stok (pk 1 ts2) "missing opening curly brace for movement"
      | Some ts3 =>
          do (mv, ts4) <- movement_value fuel RBRACE true (adv ts3) [];
          Ok (TMovement name g stok mv, ts4)
      end
  end.

Definition parse_mart (fuel : nat) (ts : toks) : res (top * toks) :=
  let stok := cur ts in
  do (g, ts1) <- scope_modifier false ts;
  match expect_peek IDENT ts1 with
  | None => err_range stok (pk 1 ts1) "missing name for mart statement"
  | Some ts2 =>
      let name := tlit (cur ts2) in
      match expect_peek LBRACE ts2 with
      | None => err_range stok (pk 1 ts2) "missing opening curly brace for mart"
      | Some ts3 =>
          do (its, ts4) <- mart_value fuel true (adv ts3) [];
          Ok (TMart name g stok (map (fun tk => creplace (tlit tk)) its) its, ts4)
      end
  end.

Definition parse_raw (ts : toks) : res (top * toks) :=
  match expect_peek RAWSTRING ts with
  | None => err_range (cur ts) (pk 1 ts) "raw statement must begin with a backtick character"
  | Some ts1 => Ok (TRaw (tlit (cur ts1)) (tline (cur ts1)), ts1)      (* repair D15 *)
  end.

(* ---------- mapscripts ---------- *)
(* strings.Builder style accumulation: a space is written only when the builder is non-empty *)
Definition sb_add (acc lit : text) : text := match acc with [] => lit | _ => acc ++ sp ++ lit end.
(* table entry value loops: append, next, EOF test *)
Fixpoint ms_collect (fuel : nat) (stop : token -> bool) (ts : toks) (acc : text) : option (text * toks) :=
  match fuel with O => None | S f =>
  if stop (cur ts) then Some (acc, ts) else
  let ts1 := adv ts in
  if curis EOF ts1 then None else ms_collect f stop ts1 (sb_add acc (creplace (tlit (cur ts))))
  end.

Definition nat_text (n : nat) : text :=
  (fix go (fuel : nat) (n : N) (acc : text) : text :=
     match fuel with O => acc | S f =>
       let d := (48 + N.modulo n 10)%N in let q := N.div n 10 in
       if (q =? 0)%N then d :: acc else go f q (d :: acc) end) 40%nat (N.of_nat n) [].

Fixpoint ms_table (fuel : nat) (mapname tyname : text) (ts : toks) (i : nat) (acc : list tableentry) (imp : impdata)
  : res (list tableentry * impdata * toks) :=
  match fuel with O => Fuel | S f =>
  if curis RBRACKET ts then Ok (acc, imp, ts) else
  let start := cur ts in
  match ms_collect f (is COMMA) ts [] with
  | None => err_tok start "missing ',' to specify map script table entry comparison value"
  | Some (cond, ts1) =>
      match cond with [] => err_tok start "expected condition for map script table entry, but it was empty" | _ =>
      let ts2 := adv ts1 in
      let endtok := cur ts2 in
      match ms_collect f (fun tk => is COLON tk || is LBRACE tk) ts2 [] with
      | None => err_range start endtok "missing ':' or '{' to specify map script table entry"
      | Some (cmp, ts3) =>
          match cmp with [] => err_range start (cur ts3) "expected comparison value for map script table entry, but it was empty" | _ =>
          if curis COLON ts3 then
            match expect_peek IDENT ts3 with
            | None => err_tok (pk 1 ts3) "expected map script label after ':'"
            | Some ts4 =>
                ms_table f mapname tyname (adv ts4) (S i)
                  (acc ++ [{| teCond := start; teCondLit := cond; teCmp := cmp; teName := tlit (cur ts4); teScript := None |}]) imp
            end
          else
            let sname := mapname ++ t "_" ++ tyname ++ t "_" ++ nat_text i in
            do (b, imp', ts4) <- parse_block f sname [] [] (cur ts3) (adv ts3) [] imp0;
            ms_table f mapname tyname (adv ts4) (S i)
              (acc ++ [{| teCond := start; teCondLit := cond; teCmp := cmp; teName := sname; teScript := Some b |}]) (impadd imp imp')
          end
      end
      end
  end
  end.

Fixpoint ms_entries (fuel : nat) (mapname : text) (ts : toks) (plain : list mapscript) (tables : list tablems) (imp : impdata)
  : res (list mapscript * list tablems * impdata * toks) :=
  match fuel with O => Fuel | S f =>
  if curis RBRACE ts then Ok (plain, tables, imp, ts) else
  if negb (curis IDENT ts) then err_tok (cur ts) "expected map script type" else
  let ty := cur ts in
  let ts1 := adv ts in
  if curis COLON ts1 then
    match expect_peek IDENT ts1 with
    | None => err_tok (pk 1 ts1) "expected map script label after ':'"
    | Some ts2 => ms_entries f mapname (adv ts2) (plain ++ [{| msType := ty; msName := tlit (cur ts2); msScript := None |}]) tables imp
    end
  else if curis LBRACE ts1 then
    let sname := mapname ++ t "_" ++ tlit ty in
    do (b, imp', ts2) <- parse_block f sname [] [] (cur ts1) (adv ts1) [] imp0;
    ms_entries f mapname (adv ts2) (plain ++ [{| msType := ty; msName := sname; msScript := Some b |}]) tables (impadd imp imp')
  else if curis LBRACKET ts1 then
    do (es, imp', ts2) <- ms_table f mapname (tlit ty) (adv ts1) 0 [] imp0;
    ms_entries f mapname (adv ts2) plain
      (tables ++ [{| tmType := ty; tmName := mapname ++ t "_" ++ tlit ty; tmEntries := es |}]) (impadd imp imp')
  else err_tok (cur ts1) "expected ':', '[', or '{' after map script type"
  end.

Definition parse_mapscripts (fuel : nat) (ts : toks) : res (top * impdata * toks) :=
  do (g, ts1) <- scope_modifier true ts;
  let mtok := cur ts1 in
  match expect_peek IDENT ts1 with
  | None => err_range (cur ts1) (pk 1 ts1) "missing name for mapscripts statement"
  | Some ts2 =>
      let name := tlit (cur ts2) in
      match expect_peek LBRACE ts2 with
      | None => err_range mtok (pk 1 ts2) "missing opening curly brace for mapscripts"
      | Some ts3 =>
          do (plain, tables, imp, ts4) <- ms_entries fuel name (adv ts3) [] [] imp0;
          Ok (TMapScripts name g plain tables, imp, ts4)
      end
  end.

End WITHCONSTS.

(* ---------- constants ---------- *)
Definition is_toplevel (ty : toktype) : bool :=
  match ty with SCRIPT | RAW | TEXT | MOVEMENT | MART | MAPSCRIPTS | CONST => true | _ => false end.

Fixpoint const_value (fuel : nat) (consts : list (text * text)) (ts : toks) (acc : text) : text * toks :=
  match fuel with O => (acc, ts) | S f =>
  if is_toplevel (ttype (pk 1 ts)) || curis EOF ts then (acc, ts)
  else let ts1 := adv ts in
       const_value f consts ts1 (match acc with [] => creplace consts (tlit (cur ts1)) | _ => acc ++ sp ++ creplace consts (tlit (cur ts1)) end)
  end.

Definition parse_const (fuel : nat) (consts : list (text * text)) (ts : toks) : res (list (text * text) * toks) :=
  let itok := cur ts in
  match expect_peek IDENT ts with
  | None => err_tok (pk 1 ts) "expected identifier after const"
  | Some ts1 =>
      let name := tlit (cur ts1) in
      match assoc consts name with
      | Some _ => err_tok (cur ts1) "duplicate const"
      | None =>
          match expect_peek ASSIGN ts1 with
          | None => err_tok (cur ts1) "missing equals sign after const name"
          | Some ts2 =>
              let '(v, ts3) := const_value fuel consts ts2 [] in
              match v with
              | [] => err_range itok (cur ts2) "missing value for const"
              | _ => Ok ((name, v) :: consts, ts3)
              end
          end
      end
  end.

(* ---------- hoisting ---------- *)
Record hst := { htexts : list textdef; hset : list (text * text * text); hcnt : list (text * nat);
                hmovs : list top; hmset : list (text * text); hmcnt : list (text * nat) }.
Definition hst0 : hst := {| htexts := []; hset := []; hcnt := []; hmovs := []; hmset := []; hmcnt := [] |}.

Definition count_of (l : list (text * nat)) (k : text) : nat := match assoc l k with Some n => n | None => O end.
Definition bump (l : list (text * nat)) (k : text) : list (text * nat) := (k, S (count_of l k)) :: l.

Fixpoint find_text (l : list (text * text * text)) (v ty : text) : option text :=
  match l with
  | [] => None
  | (v', ty', lbl) :: r => if text_eqb v v' && text_eqb ty ty' then Some lbl else find_text r v ty
  end.

Definition patch := (nat * nat * text)%type.

Fixpoint add_texts (its : list imptext) (h : hst) (ps : list patch) : hst * list patch :=
  match its with
  | [] => (h, ps)
  | it :: r =>
      let v := tlit (itTok it) in
      match find_text (hset h) v (itType it) with
      | Some lbl => add_texts r h (ps ++ [(itCid it, itArg it, lbl)])
      | None =>
          let lbl := itScript it ++ t "_Text_" ++ nat_text (count_of (hcnt h) (itScript it)) in
          let h' := {| htexts := htexts h ++ [{| xname := lbl; xvalue := v; xtype := itType it; xglob := false; xtok := itTok it |}];
                       hset := (v, itType it, lbl) :: hset h; hcnt := bump (hcnt h) (itScript it);
                       hmovs := hmovs h; hmset := hmset h; hmcnt := hmcnt h |} in
          add_texts r h' (ps ++ [(itCid it, itArg it, lbl)])
      end
  end.

Definition mov_key (ms : list token) : text := flat_map (fun tk => tlit tk ++ t ":") ms.

Fixpoint add_movs (ims : list impmov) (h : hst) (ps : list patch) : hst * list patch :=
  match ims with
  | [] => (h, ps)
  | im :: r =>
      let k := mov_key (imToks im) in
      match assoc (hmset h) k with
      | Some lbl => add_movs r h (ps ++ [(imCid im, imArg im, lbl)])
      | None =>
          let lbl := imScript im ++ t "_Movement_" ++ nat_text (count_of (hmcnt h) (imScript im)) in
          let h' := {| htexts := htexts h; hset := hset h; hcnt := hcnt h;
                       hmovs := hmovs h ++ [TMovement lbl false (imCmdTok im) (imToks im)];
                       hmset := (k, lbl) :: hmset h; hmcnt := bump (hmcnt h) (imScript im) |} in
          add_movs r h' (ps ++ [(imCid im, imArg im, lbl)])
      end
  end.

(* patching: Args[argPos] = label; out-of-range would be a Go panic *)
Fixpoint set_nth (n : nat) (l : list text) (v : text) : option (list text) :=
  match n, l with
  | O, _ :: r => Some (v :: r)
  | S k, x :: r => match set_nth k r v with Some r' => Some (x :: r') | None => None end
  | _, [] => None
  end.

Fixpoint apply_patches (ps : list patch) (c : cmd) : option cmd :=
  match ps with
  | [] => Some c
  | (i, a, lbl) :: r =>
      if Nat.eqb i (cid c) then
        match set_nth a (cargs c) lbl with
        | Some args => apply_patches r {| cname := cname c; cargs := args; ctok := ctok c; cid := cid c |}
        | None => None
        end
      else apply_patches r c
  end.

(* a failed patch is reported by returning a command named PANIC; checked afterwards *)
Definition pcmd (ps : list patch) (c : cmd) : cmd :=
  match apply_patches ps c with Some c' => c' | None => {| cname := t "!PANIC!"; cargs := []; ctok := ctok c; cid := cid c |} end.

Definition pleaf (ps : list patch) (l : leaf) : leaf :=
  {| lk := lk l; loperand := loperand l; lline := lline l; lop := lop l; lvalue := lvalue l; lstrict := lstrict l;
     lpre := match lpre l with Some c => Some (pcmd ps c) | None => None end |}.
Fixpoint pbexp (ps : list patch) (e : bexp) : bexp :=
  match e with BLeaf l => BLeaf (pleaf ps l) | BBin o a b => BBin o (pbexp ps a) (pbexp ps b) end.

Fixpoint pstmt (ps : list patch) (s : stmt) : stmt :=
  let pl := map (pstmt ps) in
  match s with
  | SCmd c => SCmd (pcmd ps c)
  | SIf conds els => SIf (map (fun cb => (pbexp ps (fst cb), map (pstmt ps) (snd cb))) conds)
                         (match els with Some b => Some (map (pstmt ps) b) | None => None end)
  | SWhile tg c b => SWhile tg (match c with Some e => Some (pbexp ps e) | None => None end) (map (pstmt ps) b)
  | SDoWhile tg b c => SDoWhile tg (map (pstmt ps) b) (pbexp ps c)
  | SSwitch tg o ol cases => SSwitch tg o ol (map (fun c : scase => (fst (fst (fst c)), snd (fst (fst c)), snd (fst c), map (pstmt ps) (snd c))) cases)
  | other => other
  end.

Definition add_implicit (imp : impdata) (h : hst) : hst * list patch :=
  let '(h1, ps1) := add_texts (idT imp) h [] in
  add_movs (idM imp) h1 ps1.

(* ---------- ParseProgram ---------- *)
Record pstate := { pconsts : list (text * text); ph : hst; ptops : list top; ptexts : list textdef }.

Fixpoint parse_tops (fuel : nat) (st : pstate) (ts : toks) : res pstate :=
  match fuel with O => Fuel | S f =>
  if curis EOF ts then Ok st else
  let c := pconsts st in
  match ttype (cur ts) with
  | SCRIPT =>
      do (name, g, b, imp, ts1) <- parse_script c f ts;
      let '(h', ps) := add_implicit imp (ph st) in
      parse_tops f {| pconsts := c; ph := h'; ptops := ptops st ++ [TScript name g (map (pstmt ps) b)]; ptexts := ptexts st |} (adv ts1)
  | RAW =>
      do (tp, ts1) <- parse_raw ts;
      parse_tops f {| pconsts := c; ph := ph st; ptops := ptops st ++ [tp]; ptexts := ptexts st |} (adv ts1)
  | TEXT =>
      do (td, ts1) <- parse_text f ts;
      parse_tops f {| pconsts := c; ph := ph st; ptops := ptops st ++ [TTextStmt]; ptexts := ptexts st ++ [td] |} (adv ts1)
  | MOVEMENT =>
      do (tp, ts1) <- parse_movement f ts;
      parse_tops f {| pconsts := c; ph := ph st; ptops := ptops st ++ [tp]; ptexts := ptexts st |} (adv ts1)
  | MART =>
      do (tp, ts1) <- parse_mart c f ts;
      parse_tops f {| pconsts := c; ph := ph st; ptops := ptops st ++ [tp]; ptexts := ptexts st |} (adv ts1)
  | MAPSCRIPTS =>
      do (tp, imp, ts1) <- parse_mapscripts c f ts;
      let '(h', ps) := add_implicit imp (ph st) in
      let tp' := match tp with
                 | TMapScripts n g plain tables =>
                     TMapScripts n g
                       (map (fun m => {| msType := msType m; msName := msName m;
                                         msScript := match msScript m with Some b => Some (map (pstmt ps) b) | None => None end |}) plain)
                       (map (fun tb => {| tmType := tmType tb; tmName := tmName tb;
                                          tmEntries := map (fun e => {| teCond := teCond e; teCondLit := teCondLit e; teCmp := teCmp e; teName := teName e;
                                                                        teScript := match teScript e with Some b => Some (map (pstmt ps) b) | None => None end |}) (tmEntries tb) |}) tables)
                 | other => other
                 end in
      parse_tops f {| pconsts := c; ph := h'; ptops := ptops st ++ [tp']; ptexts := ptexts st |} (adv ts1)
  | CONST =>
      do (c', ts1) <- parse_const f c ts;
      parse_tops f {| pconsts := c'; ph := ph st; ptops := ptops st; ptexts := ptexts st |} (adv ts1)
  | _ => err_tok (cur ts) "could not parse top-level statement"
  end
  end.

Fixpoint dup_text (seen : list text) (l : list textdef) : option textdef :=
  match l with
  | [] => None
  | x :: r => if existsb (text_eqb (xname x)) seen then Some x else dup_text (xname x :: seen) r
  end.

(* first movement statement whose name reappears later: the error is reported on the earlier one *)
Fixpoint dup_mov (seen : list (text * token)) (l : list top) : option token :=
  match l with
  | [] => None
  | TMovement n _ tk _ :: r => match assoc seen n with Some tk0 => Some tk0 | None => dup_mov ((n, tk) :: seen) r end
  | _ :: r => dup_mov seen r
  end.

(* what the name check looks at: everything in normal mode; in lint mode (no switches, no fonts: other poryswitch cases are
   selected and format() gives other texts, so the generated names are not those of the real compilation) only the author's
   text and movement statements *)
Definition checked_texts (st : pstate) : list textdef := if env_errors then htexts (ph st) ++ ptexts st else ptexts st.
Definition checked_tops (st : pstate) : list top := if env_errors then ptops st ++ hmovs (ph st) else ptops st.

Definition parse_program (ts : toks) : res program :=
  do st <- parse_tops (5 * List.length ts + 4) {| pconsts := []; ph := hst0; ptops := []; ptexts := [] |} ts;
  match dup_text [] (checked_texts st) with
  | Some x => err_tok (xtok x) "duplicate text label"
  | None =>
      match dup_mov [] (checked_tops st) with
      | Some tk => err_tok tk "duplicate movement label"
      | None => Ok {| tops := ptops st ++ hmovs (ph st); texts := htexts (ph st) ++ ptexts st |}
      end
  end.

End PARSER.
