(* C14 - Movement and mart lists are expanded, ordered and terminated exactly once. *)
From Coq Require Import List String ZArith NArith.
Open Scope string_scope.
From Pory Require Import Lexer Ast Parser Emitter Props1.
Import ListNotations.

Theorem steps_out_spec : forall steps,
  steps_out steps = let '(l, found) := take_through steps in if found then l else l ++ [t "step_end"].
Proof. exact Props1.steps_out_spec. Qed.
Print Assumptions steps_out_spec.

Theorem steps_out_one_terminator : forall steps,
  exists pre, steps_out steps = pre ++ [t "step_end"] /\ Forall (fun x => x <> t "step_end") pre.
Proof. exact Props1.steps_out_one_terminator. Qed.
Print Assumptions steps_out_one_terminator.

Theorem emit_steps_lines : forall steps,
  emit_steps None steps = map (fun x => ILine (tab ++ x)) (steps_out steps).
Proof. intros. apply Props1.emit_steps_lines. reflexivity. Qed.
Print Assumptions emit_steps_lines.

Theorem repeat_tok_spec : forall n tk, repeat_tok n tk = repeat tk n.
Proof. exact Props1.repeat_tok_spec. Qed.
Print Assumptions repeat_tok_spec.
