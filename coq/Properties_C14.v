(* C14 - Movement and mart lists are expanded, ordered and terminated exactly once. *)
From Coq Require Import List String ZArith NArith.
Open Scope string_scope.
From Pory Require Import Lexer Ast Parser Emitter Props1 C14Proofs TopProps Tables TablesOK.
Import ListNotations.

Theorem steps_out_spec : forall steps,
  steps_out steps = let '(l, found) := take_through steps in if found then l else l ++ [t "step_end"].
Proof. exact Props1.steps_out_spec. Qed.
Print Assumptions steps_out_spec.

Theorem steps_out_one_terminator : forall steps,
  exists pre, steps_out steps = pre ++ [t "step_end"] /\ Forall (fun x => x <> t "step_end") pre.
Proof. exact Props1.steps_out_one_terminator. Qed.
Print Assumptions steps_out_one_terminator.

Theorem emit_steps_lines : forall steps,
  emit_steps None steps = map (fun x => ILine (tab ++ x)) (steps_out steps).
Proof. intros. apply Props1.emit_steps_lines. reflexivity. Qed.
Print Assumptions emit_steps_lines.

Theorem repeat_tok_spec : forall n tk, repeat_tok n tk = repeat tk n.
Proof. exact Props1.repeat_tok_spec. Qed.
Print Assumptions repeat_tok_spec.

(* 'step * N': accepted exactly for 1 <= N <= 9999 (N read as by strconv.ParseInt(.,0,64)) and expanded in place *)
Theorem multiplier_accepted :
  forall switches env_errors f c multi ts acc n,
    at_multiplier c ts -> go_parse_int (tlit (cur (adv (adv ts)))) = Some n -> (1 <= n <= 9999)%Z ->
    list_value switches env_errors (S f) (LMov c) multi ts acc =
      (if multi then list_value switches env_errors f (LMov c) multi (adv (adv (adv ts))) (acc ++ repeat (cur ts) (Z.to_nat n))
       else Parser.Ok (acc ++ repeat (cur ts) (Z.to_nat n), adv (adv (adv ts)))).
Proof. exact C14Proofs.multiplier_accepted. Qed.
Print Assumptions multiplier_accepted.

Theorem multiplier_rejected :
  forall switches env_errors f c multi ts acc,
    at_multiplier c ts ->
    (match go_parse_int (tlit (cur (adv (adv ts)))) with Some n => (n <= 0 \/ 9999 < n)%Z | None => True end) ->
    exists e, list_value switches env_errors (S f) (LMov c) multi ts acc = Err e /\ els e = tline (cur (adv (adv ts))).
Proof. exact C14Proofs.multiplier_rejected. Qed.
Print Assumptions multiplier_rejected.

(* a mart block: .align 2, the label, the items, one ITEM_NONE *)
Theorem mart_shape : forall name glob tk items itoks,
  emit_mart None name glob tk items itoks =
    ILine (tab ++ t ".align 2") :: ILabel name glob :: emit_items None items itoks ++ [ILine (tab ++ t ".2byte ITEM_NONE")].
Proof. exact TopProps.emit_mart_shape. Qed.
Print Assumptions mart_shape.

(* the bounds are those written in parser/parser.go (regenerated from /repo on every run) *)
Theorem multiplier_bounds_are_the_go_constants : go_multiplier_min_rejected = 0%Z /\ go_multiplier_max = 9999%Z.
Proof. exact multiplier_bounds_agree. Qed.
Print Assumptions multiplier_bounds_are_the_go_constants.

(* ---- parser side and composition (ListsParse.v). Grammar of a plain movement list: step_list = ( IDENT | IDENT '*' INT | ',' )*
   (commas optional anywhere, no newline token); mart: identifiers only. movement_list_accepted / _sound / _decided / _unique:
   the parser accepts exactly the lists of the grammar whose multipliers read (decimal, hex, leading-0 octal) as 1..9999 and
   returns the expansion, each step repeated N times in source order; movement_list_rejected and the located special cases:
   the error stands at the INT token (unreadable, <= 0, > 9999), at the non-INT token after '*', at a '*' without a step,
   at EOF for an unclosed list. mart_list_*: the same for items. *_statement_compiles_(un)terminated: from the source tokens
   of a movement / mart statement to the emitted block: label, one line per expanded step up to and including the first
   step_end the author wrote, else all steps and exactly one step_end; .align 2, label, one .2byte per item up to but
   excluding the first ITEM_NONE, then exactly one. program_*: every such statement of every accepted program, its block is in
   the program's output. moves_*: the same for moves(...) inside a command, hoisted under its label. ---- *)
From Pory Require ListsParse. Open Scope list_scope.
Theorem movement_list_accepted :
  forall (switches : list (text * text)) (env_errors : bool) (c : toktype) (src : list token) (cl : token) (rest acc : list token) (f : nat),
  ListsParse.closing c ->
  ListsParse.step_list src ->
  ListsParse.mults_ok src ->
  ttype cl = c ->
  ListsParse.nelems src < f ->
  list_value switches env_errors f (LMov c) true (src ++ cl :: rest) acc = Parser.Ok (acc ++ ListsParse.expand src, cl :: rest).
Proof. exact ListsParse.movement_list_accepted. Qed.
Print Assumptions movement_list_accepted.

Theorem movement_list_prefix :
  forall (switches : list (text * text)) (env_errors : bool) (c : toktype) (src rest acc : list token) (f : nat),
  ListsParse.closing c ->
  ListsParse.step_list src ->
  ListsParse.mults_ok src ->
  rest <> [] ->
  ListsParse.follows_ok src (cur rest) ->
  list_value switches env_errors f (LMov c) true (src ++ rest) acc =
  list_value switches env_errors (f - ListsParse.nelems src) (LMov c) true rest (acc ++ ListsParse.expand src).
Proof. exact ListsParse.movement_list_prefix. Qed.
Print Assumptions movement_list_prefix.

Theorem movement_list_rejected :
  forall (switches : list (text * text)) (env_errors : bool) (c : toktype) (src rest : list token) (b : token) (msg : string) 
    (acc : list token) (f : nat),
  ListsParse.closing c ->
  ListsParse.step_list src ->
  ListsParse.mults_ok src ->
  rest <> [] ->
  ListsParse.follows_ok src (cur rest) ->
  ListsParse.list_stop c rest (Some (b, msg)) ->
  ListsParse.nelems src < f -> list_value switches env_errors f (LMov c) true (src ++ rest) acc = err_tok b msg.
Proof. exact ListsParse.movement_list_rejected. Qed.
Print Assumptions movement_list_rejected.

Theorem multiplier_out_of_range_rejected :
  forall (switches : list (text * text)) (env_errors : bool) (c : toktype) (src : list token) (x m n : token) (r : list token) 
    (k : Z) (acc : list token) (f : nat),
  ListsParse.closing c ->
  ListsParse.step_list src ->
  ListsParse.mults_ok src ->
  ttype x = IDENT ->
  ttype m = MUL ->
  ttype n = INT ->
  go_parse_int (tlit n) = Some k ->
  ~ (1 <= k <= 9999)%Z ->
  ListsParse.nelems src < f -> exists msg : string, list_value switches env_errors f (LMov c) true (src ++ x :: m :: n :: r) acc = err_tok n msg.
Proof. exact ListsParse.multiplier_out_of_range_rejected. Qed.
Print Assumptions multiplier_out_of_range_rejected.

Theorem multiplier_not_a_number_rejected :
  forall (switches : list (text * text)) (env_errors : bool) (c : toktype) (src : list token) (x m b : token) (r acc : list token) (f : nat),
  ListsParse.closing c ->
  ListsParse.step_list src ->
  ListsParse.mults_ok src ->
  ttype x = IDENT ->
  ttype m = MUL ->
  ttype b <> INT \/ go_parse_int (tlit b) = None ->
  ListsParse.nelems src < f -> exists msg : string, list_value switches env_errors f (LMov c) true (src ++ x :: m :: b :: r) acc = err_tok b msg.
Proof. exact ListsParse.multiplier_not_a_number_rejected. Qed.
Print Assumptions multiplier_not_a_number_rejected.

Theorem star_without_step_rejected :
  forall (switches : list (text * text)) (env_errors : bool) (c : toktype) (src : list token) (b : token) (r acc : list token) (f : nat),
  ListsParse.closing c ->
  ListsParse.step_list src ->
  ListsParse.mults_ok src ->
  ListsParse.no_open_step src ->
  ttype b = MUL ->
  ListsParse.nelems src < f -> list_value switches env_errors f (LMov c) true (src ++ b :: r) acc = err_tok b "expected movement command".
Proof. exact ListsParse.star_without_step_rejected. Qed.
Print Assumptions star_without_step_rejected.

Theorem unclosed_movement_list_rejected :
  forall (switches : list (text * text)) (env_errors : bool) (c : toktype) (src : list token) (b : token) (r acc : list token) (f : nat),
  ListsParse.closing c ->
  ListsParse.step_list src ->
  ListsParse.mults_ok src ->
  ttype b = EOF ->
  ListsParse.nelems src < f -> list_value switches env_errors f (LMov c) true (src ++ b :: r) acc = err_tok b "expected movement command".
Proof. exact ListsParse.unclosed_movement_list_rejected. Qed.
Print Assumptions unclosed_movement_list_rejected.

Theorem movement_list_decided :
  forall (switches : list (text * text)) (env_errors : bool) (c : toktype) (ts : toks),
  ListsParse.closing c ->
  Consume.eof_ended ts ->
  exists src rest : list token,
    ts = src ++ rest /\
    ListsParse.step_list src /\
    ListsParse.mults_ok src /\
    Consume.eof_ended rest /\
    (forall (f : nat) (acc : list token),
     list_value switches env_errors f (LMov c) true ts acc =
     list_value switches env_errors (f - ListsParse.nelems src) (LMov c) true rest (acc ++ ListsParse.expand src)) /\
    (ttype (cur rest) = PORYSWITCH \/
     (exists v : option (token * string),
        ListsParse.list_stop c rest v /\
        (forall (f : nat) (acc : list token),
         ListsParse.nelems src < f ->
         list_value switches env_errors f (LMov c) true ts acc =
         match v with
         | Some (b, msg) => err_tok b msg
         | None => Parser.Ok (acc ++ ListsParse.expand src, rest)
         end))).
Proof. exact ListsParse.movement_list_decided. Qed.
Print Assumptions movement_list_decided.

Theorem movement_list_sound :
  forall (switches : list (text * text)) (env_errors : bool) (c : toktype) (f : nat) (ts : toks) (acc items : list token) (ts' : toks),
  ListsParse.closing c ->
  Consume.eof_ended ts ->
  list_value switches env_errors f (LMov c) true ts acc = Parser.Ok (items, ts') ->
  (exists src : list token,
     ts = src ++ ts' /\ ListsParse.step_list src /\ ListsParse.mults_ok src /\ ttype (cur ts') = c /\ items = acc ++ ListsParse.expand src) \/
  (exists src rest : list token, ts = src ++ rest /\ ListsParse.step_list src /\ ttype (cur rest) = PORYSWITCH).
Proof. exact ListsParse.movement_list_sound. Qed.
Print Assumptions movement_list_sound.

Theorem movement_list_unique :
  forall (c : toktype) (src1 : list token) (cl1 : token) (r1 src2 : list token) (cl2 : token) (r2 : list token),
  ListsParse.closing c ->
  ListsParse.step_list src1 ->
  ListsParse.step_list src2 -> ttype cl1 = c -> ttype cl2 = c -> src1 ++ cl1 :: r1 = src2 ++ cl2 :: r2 -> src1 = src2 /\ cl1 = cl2 /\ r1 = r2.
Proof. exact ListsParse.movement_list_unique. Qed.
Print Assumptions movement_list_unique.

Theorem movement_list_sound_poryswitch :
  forall (switches : list (text * text)) (env_errors : bool) (c : toktype) (f : nat) (ts : toks) (acc items : list token) (ts' : toks),
  list_value switches env_errors f (LMov c) true ts acc = Parser.Ok (items, ts') ->
  exists src : list token,
    PorySwitchLists.list_erase switches env_errors f (LMov c) true ts [] = Parser.Ok (src, ts') /\
    ListsParse.step_list src /\ ListsParse.mults_ok src /\ items = acc ++ ListsParse.expand src /\ ttype (cur ts') = c.
Proof. exact ListsParse.movement_list_sound_poryswitch. Qed.
Print Assumptions movement_list_sound_poryswitch.

Theorem commas_are_irrelevant :
  forall src : list token,
  ListsParse.step_list src ->
  ListsParse.step_list (ListsParse.no_commas src) /\
  ListsParse.expand (ListsParse.no_commas src) = ListsParse.expand src /\
  ListsParse.multipliers (ListsParse.no_commas src) = ListsParse.multipliers src.
Proof. exact ListsParse.commas_are_irrelevant. Qed.
Print Assumptions commas_are_irrelevant.

Theorem decimal_multiplier_ok :
  forall (n : token) (d : N) (ds : list N),
  tlit n = d :: ds ->
  (49 <= d <= 57)%N ->
  Forall ListsParse.dec_digit ds ->
  (ListsParse.mult_ok n <-> (1 <= ListsParse.dec_value (d :: ds) 0 <= 9999)%Z) /\
  ((1 <= ListsParse.dec_value (d :: ds) 0 <= 9999)%Z -> ListsParse.mult n = Z.to_nat (ListsParse.dec_value (d :: ds) 0)).
Proof. exact ListsParse.decimal_multiplier_ok. Qed.
Print Assumptions decimal_multiplier_ok.

Theorem mart_list_accepted :
  forall (switches : list (text * text)) (env_errors : bool) (src : list token) (cl : token) (rest acc : list token) (f : nat),
  ListsParse.item_list src ->
  ttype cl = RBRACE ->
  Datatypes.length src < f -> list_value switches env_errors f LMart true (src ++ cl :: rest) acc = Parser.Ok (acc ++ src, cl :: rest).
Proof. exact ListsParse.mart_list_accepted. Qed.
Print Assumptions mart_list_accepted.

Theorem mart_list_rejected :
  forall (switches : list (text * text)) (env_errors : bool) (src : list token) (b : token) (r acc : list token) (f : nat),
  ListsParse.item_list src ->
  ttype b <> RBRACE ->
  ttype b <> PORYSWITCH ->
  ttype b <> IDENT ->
  Datatypes.length src < f -> list_value switches env_errors f LMart true (src ++ b :: r) acc = err_tok b "expected mart item".
Proof. exact ListsParse.mart_list_rejected. Qed.
Print Assumptions mart_list_rejected.

Theorem mart_list_decided :
  forall (switches : list (text * text)) (env_errors : bool) (ts : toks),
  Consume.eof_ended ts ->
  exists src rest : list token,
    ts = src ++ rest /\
    ListsParse.item_list src /\
    Consume.eof_ended rest /\
    (forall (f : nat) (acc : list token),
     list_value switches env_errors f LMart true ts acc = list_value switches env_errors (f - Datatypes.length src) LMart true rest (acc ++ src)) /\
    (ttype (cur rest) = PORYSWITCH \/
     (exists v : option (token * string),
        ListsParse.mart_stop rest v /\
        (forall (f : nat) (acc : list token),
         Datatypes.length src < f ->
         list_value switches env_errors f LMart true ts acc =
         match v with
         | Some (b, msg) => err_tok b msg
         | None => Parser.Ok (acc ++ src, rest)
         end))).
Proof. exact ListsParse.mart_list_decided. Qed.
Print Assumptions mart_list_decided.

Theorem mart_list_sound :
  forall (switches : list (text * text)) (env_errors : bool) (f : nat) (ts : toks) (acc items : list token) (ts' : toks),
  Consume.eof_ended ts ->
  list_value switches env_errors f LMart true ts acc = Parser.Ok (items, ts') ->
  (exists src : list token, ts = src ++ ts' /\ ListsParse.item_list src /\ ttype (cur ts') = RBRACE /\ items = acc ++ src) \/
  (exists src rest : list token, ts = src ++ rest /\ ListsParse.item_list src /\ ttype (cur rest) = PORYSWITCH).
Proof. exact ListsParse.mart_list_sound. Qed.
Print Assumptions mart_list_sound.

Theorem movement_statement_accepted :
  forall (switches : list (text * text)) (env_errors : bool) (f : nat) (hd : list token) (kw name : token) (g : bool) 
    (src : list token) (cl : token) (rest : list token),
  ListsParse.stmt_header hd kw name g ->
  ListsParse.step_list src ->
  ListsParse.mults_ok src ->
  ttype cl = RBRACE ->
  ListsParse.nelems src < f ->
  parse_movement switches env_errors f (hd ++ src ++ cl :: rest) = Parser.Ok (TMovement (tlit name) g kw (ListsParse.expand src), cl :: rest).
Proof. exact ListsParse.movement_statement_accepted. Qed.
Print Assumptions movement_statement_accepted.

Theorem movement_statement_rejected :
  forall (switches : list (text * text)) (env_errors : bool) (f : nat) (hd : list token) (kw name : token) (g : bool) 
    (src rest : list token) (b : token) (msg : string),
  ListsParse.stmt_header hd kw name g ->
  ListsParse.step_list src ->
  ListsParse.mults_ok src ->
  rest <> [] ->
  ListsParse.follows_ok src (cur rest) ->
  ListsParse.list_stop RBRACE rest (Some (b, msg)) ->
  ListsParse.nelems src < f -> parse_movement switches env_errors f (hd ++ src ++ rest) = err_tok b msg.
Proof. exact ListsParse.movement_statement_rejected. Qed.
Print Assumptions movement_statement_rejected.

Theorem movement_statement_sound :
  forall (switches : list (text * text)) (env_errors : bool) (f : nat) (ts : toks) (tp : top) (ts' : toks),
  Consume.eof_ended ts ->
  parse_movement switches env_errors f ts = Parser.Ok (tp, ts') ->
  exists (h : list token) (n lb : token) (body : list token) (g : bool) (src : list token),
    ts = h ++ n :: lb :: body /\
    ttype n = IDENT /\
    ttype lb = LBRACE /\
    PorySwitchLists.list_erase switches env_errors f (LMov RBRACE) true body [] = Parser.Ok (src, ts') /\
    ListsParse.step_list src /\
    ListsParse.mults_ok src /\ ttype (cur ts') = RBRACE /\ tp = TMovement (tlit n) g (cur ts) (ListsParse.expand src).
Proof. exact ListsParse.movement_statement_sound. Qed.
Print Assumptions movement_statement_sound.

Theorem mart_statement_accepted :
  forall (switches : list (text * text)) (env_errors : bool) (consts : list (text * text)) (f : nat) (hd : list token) 
    (kw name : token) (g : bool) (src : list token) (cl : token) (rest : list token),
  ListsParse.stmt_header hd kw name g ->
  ListsParse.item_list src ->
  ttype cl = RBRACE ->
  Datatypes.length src < f ->
  parse_mart switches env_errors consts f (hd ++ src ++ cl :: rest) =
  Parser.Ok (TMart (tlit name) g kw (map (fun tk : token => creplace consts (tlit tk)) src) src, cl :: rest).
Proof. exact ListsParse.mart_statement_accepted. Qed.
Print Assumptions mart_statement_accepted.

Theorem mart_statement_sound :
  forall (switches : list (text * text)) (env_errors : bool) (consts : list (text * text)) (f : nat) (ts : toks) (tp : top) (ts' : toks),
  Consume.eof_ended ts ->
  parse_mart switches env_errors consts f ts = Parser.Ok (tp, ts') ->
  exists (h : list token) (n lb : token) (body : list token) (g : bool) (src : list token),
    ts = h ++ n :: lb :: body /\
    ttype n = IDENT /\
    ttype lb = LBRACE /\
    PorySwitchLists.list_erase switches env_errors f LMart true body [] = Parser.Ok (src, ts') /\
    ListsParse.item_list src /\
    ttype (cur ts') = RBRACE /\ tp = TMart (tlit n) g (cur ts) (map (fun tk : token => creplace consts (tlit tk)) src) src.
Proof. exact ListsParse.mart_statement_sound. Qed.
Print Assumptions mart_statement_sound.

Theorem emit_steps_unterminated :
  forall (mp : option text) (l : list token),
  Forall ListsParse.not_end l -> emit_steps mp l = flat_map (ListsParse.step_line mp) l ++ [ListsParse.end_line].
Proof. exact ListsParse.emit_steps_unterminated. Qed.
Print Assumptions emit_steps_unterminated.

Theorem emit_steps_terminated :
  forall (mp : option text) (pre : list token) (e : token) (post : list token),
  Forall ListsParse.not_end pre -> tlit e = t "step_end" -> emit_steps mp (pre ++ e :: post) = flat_map (ListsParse.step_line mp) (pre ++ [e]).
Proof. exact ListsParse.emit_steps_terminated. Qed.
Print Assumptions emit_steps_terminated.

Theorem emit_items_unterminated :
  forall (mp : option text) (val : token -> text) (l : list token),
  Forall (fun x : token => val x <> t "ITEM_NONE") l -> emit_items mp (map val l) l = flat_map (ListsParse.item_line mp val) l.
Proof. exact ListsParse.emit_items_unterminated. Qed.
Print Assumptions emit_items_unterminated.

Theorem emit_items_terminated :
  forall (mp : option text) (val : token -> text) (pre : list token) (e : token) (post : list token),
  Forall (fun x : token => val x <> t "ITEM_NONE") pre ->
  val e = t "ITEM_NONE" -> emit_items mp (map val (pre ++ e :: post)) (pre ++ e :: post) = flat_map (ListsParse.item_line mp val) pre.
Proof. exact ListsParse.emit_items_terminated. Qed.
Print Assumptions emit_items_terminated.

Theorem movement_statement_compiles_unterminated :
  forall (switches : list (text * text)) (env_errors : bool) (mp : option text) (tl : list text) (opt : bool) (f : nat) 
    (hd : list token) (kw name : token) (g : bool) (src : list token) (cl : token) (rest : list token),
  ListsParse.stmt_header hd kw name g ->
  ListsParse.step_list src ->
  ListsParse.mults_ok src ->
  ttype cl = RBRACE ->
  ListsParse.nelems src < f ->
  (forall x : token, In x src -> ttype x = IDENT -> ListsParse.not_end x) ->
  exists tp : top,
    parse_movement switches env_errors f (hd ++ src ++ cl :: rest) = Parser.Ok (tp, cl :: rest) /\
    emit_top mp tl opt tp =
    Some
      (Ok (marker mp (tline kw) ++ ILabel (tlit name) g :: flat_map (ListsParse.step_line mp) (ListsParse.expand src) ++ [ListsParse.end_line])).
Proof. exact ListsParse.movement_statement_compiles_unterminated. Qed.
Print Assumptions movement_statement_compiles_unterminated.

Theorem movement_statement_compiles_terminated :
  forall (switches : list (text * text)) (env_errors : bool) (mp : option text) (tl : list text) (opt : bool) (f : nat) 
    (hd : list token) (kw name : token) (g : bool) (s1 : list token) (e : token) (s2 : list token) (cl : token) (rest : list token),
  ListsParse.stmt_header hd kw name g ->
  ListsParse.step_list s1 ->
  ListsParse.step_list (e :: s2) ->
  ListsParse.mults_ok (s1 ++ e :: s2) ->
  ttype e = IDENT ->
  tlit e = t "step_end" ->
  (forall x : token, In x s1 -> ttype x = IDENT -> ListsParse.not_end x) ->
  ttype cl = RBRACE ->
  ListsParse.nelems (s1 ++ e :: s2) < f ->
  exists tp : top,
    parse_movement switches env_errors f (hd ++ (s1 ++ e :: s2) ++ cl :: rest) = Parser.Ok (tp, cl :: rest) /\
    emit_top mp tl opt tp =
    Some (Ok (marker mp (tline kw) ++ ILabel (tlit name) g :: flat_map (ListsParse.step_line mp) (ListsParse.expand s1 ++ [e]))).
Proof. exact ListsParse.movement_statement_compiles_terminated. Qed.
Print Assumptions movement_statement_compiles_terminated.

Theorem mart_statement_compiles_unterminated :
  forall (switches : list (text * text)) (env_errors : bool) (consts : list (text * text)) (mp : option text) (tl : list text) 
    (opt : bool) (f : nat) (hd : list token) (kw name : token) (g : bool) (src : list token) (cl : token) (rest : list token),
  ListsParse.stmt_header hd kw name g ->
  ListsParse.item_list src ->
  ttype cl = RBRACE ->
  Datatypes.length src < f ->
  Forall (fun x : token => ListsParse.item_value consts x <> t "ITEM_NONE") src ->
  exists tp : top,
    parse_mart switches env_errors consts f (hd ++ src ++ cl :: rest) = Parser.Ok (tp, cl :: rest) /\
    emit_top mp tl opt tp =
    Some
      (Ok
         (ILine (tab ++ t ".align 2")
          :: marker mp (tline kw) ++
             ILabel (tlit name) g :: flat_map (ListsParse.item_line mp (ListsParse.item_value consts)) src ++ [ListsParse.none_line])).
Proof. exact ListsParse.mart_statement_compiles_unterminated. Qed.
Print Assumptions mart_statement_compiles_unterminated.

Theorem mart_statement_compiles_terminated :
  forall (switches : list (text * text)) (env_errors : bool) (consts : list (text * text)) (mp : option text) (tl : list text) 
    (opt : bool) (f : nat) (hd : list token) (kw name : token) (g : bool) (s1 : list token) (e : token) (s2 : list token) 
    (cl : token) (rest : list token),
  ListsParse.stmt_header hd kw name g ->
  ListsParse.item_list (s1 ++ e :: s2) ->
  ttype cl = RBRACE ->
  Datatypes.length (s1 ++ e :: s2) < f ->
  Forall (fun x : token => ListsParse.item_value consts x <> t "ITEM_NONE") s1 ->
  ListsParse.item_value consts e = t "ITEM_NONE" ->
  exists tp : top,
    parse_mart switches env_errors consts f (hd ++ (s1 ++ e :: s2) ++ cl :: rest) = Parser.Ok (tp, cl :: rest) /\
    emit_top mp tl opt tp =
    Some
      (Ok
         (ILine (tab ++ t ".align 2")
          :: marker mp (tline kw) ++
             ILabel (tlit name) g :: flat_map (ListsParse.item_line mp (ListsParse.item_value consts)) s1 ++ [ListsParse.none_line])).
Proof. exact ListsParse.mart_statement_compiles_terminated. Qed.
Print Assumptions mart_statement_compiles_terminated.

Theorem program_movement_statements :
  forall (autovars : list (text * autovar)) (switches : list (text * text)) (ee : bool)
    (parse_format : toks -> Parser.res (token * text * text * toks)),
  (forall (ts : toks) (tk : token) (v sty : text) (ts' : toks),
   parse_format ts = Parser.Ok (tk, v, sty, ts') -> forall a : toks, Consume.advs a ts -> Consume.advs a ts') ->
  forall (ts : toks) (p : program) (st : pstate) (n : text) (g : bool) (tk : token) (steps : list token),
  Consume.eof_ended ts ->
  parse_program autovars switches ee parse_format ts = Parser.Ok p ->
  parse_tops autovars switches ee parse_format (5 * Datatypes.length ts + 4) Hoisting.pstate0 ts = Parser.Ok st ->
  In (TMovement n g tk steps) (ptops st) ->
  In (TMovement n g tk steps) (tops p) /\
  (exists (f : nat) (ts0 ts1 : toks) (src : list token),
     Consume.eof_ended ts0 /\
     parse_movement switches ee f ts0 = Parser.Ok (TMovement n g tk steps, ts1) /\
     ListsParse.step_list src /\
     ListsParse.mults_ok src /\
     steps = ListsParse.expand src /\
     (exists (h : list token) (nm lb : token) (body : list token),
        ts0 = h ++ nm :: lb :: body /\
        ttype lb = LBRACE /\
        n = tlit nm /\ tk = cur ts0 /\ PorySwitchLists.list_erase switches ee f (LMov RBRACE) true body [] = Parser.Ok (src, ts1))).
Proof. exact ListsParse.program_movement_statements. Qed.
Print Assumptions program_movement_statements.

Theorem program_mart_statements :
  forall (autovars : list (text * autovar)) (switches : list (text * text)) (ee : bool)
    (parse_format : toks -> Parser.res (token * text * text * toks)),
  (forall (ts : toks) (tk : token) (v sty : text) (ts' : toks),
   parse_format ts = Parser.Ok (tk, v, sty, ts') -> forall a : toks, Consume.advs a ts -> Consume.advs a ts') ->
  forall (ts : toks) (p : program) (st : pstate) (n : text) (g : bool) (tk : token) (items : list text) (itoks : list token),
  Consume.eof_ended ts ->
  parse_program autovars switches ee parse_format ts = Parser.Ok p ->
  parse_tops autovars switches ee parse_format (5 * Datatypes.length ts + 4) Hoisting.pstate0 ts = Parser.Ok st ->
  In (TMart n g tk items itoks) (ptops st) ->
  In (TMart n g tk items itoks) (tops p) /\
  (exists (consts : list (text * text)) (f : nat) (ts0 ts1 : toks),
     Consume.eof_ended ts0 /\
     parse_mart switches ee consts f ts0 = Parser.Ok (TMart n g tk items itoks, ts1) /\
     ListsParse.item_list itoks /\
     items = map (ListsParse.item_value consts) itoks /\
     (exists (h : list token) (nm lb : token) (body : list token),
        ts0 = h ++ nm :: lb :: body /\
        ttype lb = LBRACE /\ n = tlit nm /\ tk = cur ts0 /\ PorySwitchLists.list_erase switches ee f LMart true body [] = Parser.Ok (itoks, ts1))).
Proof. exact ListsParse.program_mart_statements. Qed.
Print Assumptions program_mart_statements.

Theorem program_movement_block :
  forall (opt : bool) (mp : option text) (p : program) (is : list instr) (n : text) (g : bool) (tk : token) (steps : list token),
  emit_program_instrs opt mp p = Ok is ->
  In (TMovement n g tk steps) (tops p) ->
  exists a b : list instr,
    is = a ++ (marker mp (tline tk) ++ ILabel n g :: emit_steps mp steps) ++ b /\
    (Forall ListsParse.not_end steps -> emit_steps mp steps = flat_map (ListsParse.step_line mp) steps ++ [ListsParse.end_line]) /\
    (forall (pre : list token) (e : token) (post : list token),
     steps = pre ++ e :: post ->
     Forall ListsParse.not_end pre -> tlit e = t "step_end" -> emit_steps mp steps = flat_map (ListsParse.step_line mp) (pre ++ [e])).
Proof. exact ListsParse.program_movement_block. Qed.
Print Assumptions program_movement_block.

Theorem program_mart_block :
  forall (opt : bool) (mp : option text) (p : program) (is : list instr) (n : text) (g : bool) (tk : token) (val : token -> text)
    (itoks : list token),
  emit_program_instrs opt mp p = Ok is ->
  In (TMart n g tk (map val itoks) itoks) (tops p) ->
  exists a b : list instr,
    is =
    a ++
    (ILine (tab ++ t ".align 2") :: marker mp (tline tk) ++ ILabel n g :: emit_items mp (map val itoks) itoks ++ [ListsParse.none_line]) ++ b /\
    (Forall (fun x : token => val x <> t "ITEM_NONE") itoks ->
     emit_items mp (map val itoks) itoks = flat_map (ListsParse.item_line mp val) itoks) /\
    (forall (pre : list token) (e : token) (post : list token),
     itoks = pre ++ e :: post ->
     Forall (fun x : token => val x <> t "ITEM_NONE") pre ->
     val e = t "ITEM_NONE" -> emit_items mp (map val itoks) itoks = flat_map (ListsParse.item_line mp val) pre).
Proof. exact ListsParse.program_mart_block. Qed.
Print Assumptions program_mart_block.

Theorem moves_operator_accepted :
  forall (switches : list (text * text)) (env_errors : bool) (f : nat) (mvtok lp : token) (src : list token) (cl : token) (rest : list token),
  ttype lp = LPAREN ->
  ListsParse.step_list src ->
  ListsParse.mults_ok src ->
  ttype cl = RPAREN ->
  ListsParse.nelems src < f ->
  moves_operator switches env_errors f (mvtok :: lp :: src ++ cl :: rest) = Parser.Ok (ListsParse.expand src, cl :: rest).
Proof. exact ListsParse.moves_operator_accepted. Qed.
Print Assumptions moves_operator_accepted.

Theorem moves_operator_rejected :
  forall (switches : list (text * text)) (env_errors : bool) (f : nat) (mvtok lp : token) (src rest : list token) (b : token) (msg : string),
  ttype lp = LPAREN ->
  ListsParse.step_list src ->
  ListsParse.mults_ok src ->
  rest <> [] ->
  ListsParse.follows_ok src (cur rest) ->
  ListsParse.list_stop RPAREN rest (Some (b, msg)) ->
  ListsParse.nelems src < f -> moves_operator switches env_errors f (mvtok :: lp :: src ++ rest) = err_tok b msg.
Proof. exact ListsParse.moves_operator_rejected. Qed.
Print Assumptions moves_operator_rejected.

Theorem moves_operator_sound :
  forall (switches : list (text * text)) (env_errors : bool) (f : nat) (ts : toks) (mv : list token) (ts' : toks),
  Consume.eof_ended ts ->
  moves_operator switches env_errors f ts = Parser.Ok (mv, ts') ->
  exists (m lp : token) (body src : list token),
    ts = m :: lp :: body /\
    ttype lp = LPAREN /\
    PorySwitchLists.list_erase switches env_errors f (LMov RPAREN) true body [] = Parser.Ok (src, ts') /\
    ListsParse.step_list src /\ ListsParse.mults_ok src /\ ttype (cur ts') = RPAREN /\ mv = ListsParse.expand src.
Proof. exact ListsParse.moves_operator_sound. Qed.
Print Assumptions moves_operator_sound.

Theorem moves_argument_becomes_label :
  forall (switches : list (text * text)) (env_errors : bool) (parse_format : toks -> Parser.res (token * text * text * toks))
    (consts : list (text * text)) (f : nat) (script : text) (name lp : token) (a : CmdArgs.arglist) (rp : token) (rest : list token),
  ttype lp = LPAREN ->
  ttype rp = RPAREN ->
  CmdArgs.wf_args switches env_errors parse_format a ->
  CmdArgs.balanced (CmdArgs.flat a) ->
  Forall CmdArgs.simple_group (CmdArgs.groups_of a) ->
  Datatypes.length (CmdArgs.arg_tokens a) < f ->
  forall (c : cmd) (imp : impdata) (ts' : toks),
  command_stmt switches env_errors parse_format consts f script (name :: lp :: CmdArgs.arg_tokens a ++ rp :: rest) = Parser.Ok (c, imp, ts') ->
  forall (impB impA : impdata) (h h' : hst) (ps : list patch),
  (forall it : imptext, In it (idT impB ++ idT impA) -> itCid it <> Ast.cid c) ->
  (forall im : impmov, In im (idM impB ++ idM impA) -> imCid im <> Ast.cid c) ->
  add_implicit (impadd impB (impadd imp impA)) h = (h', ps) ->
  forall (k : nat) (g1 : list CmdArgs.piece) (lt : list token) (clo : token) (mv : list token) (g2 : list CmdArgs.piece),
  nth_error (CmdArgs.strip_last_empty (CmdArgs.groups_of a)) k = Some (g1 ++ CmdArgs.PMoves lt clo mv :: g2) ->
  CmdArgs.pure g1 ->
  CmdArgs.pure g2 ->
  exists (args' : list text) (l : text),
    pcmd ps c = {| cname := tlit name; cargs := args'; ctok := name; Ast.cid := Ast.cid c |} /\
    nth_error args' k = Some l /\ assoc (hmset h') (mov_key mv) = Some l.
Proof. exact ListsParse.moves_argument_becomes_label. Qed.
Print Assumptions moves_argument_becomes_label.

Theorem hoisted_moves_block :
  forall (autovars : list (text * autovar)) (switches : list (text * text)) (parse_format : toks -> Parser.res (token * text * text * toks))
    (ts : toks) (p : program) (st : pstate) (src : list token) (l : text) (opt : bool) (mp : option text) (is : list instr),
  parse_program autovars switches true parse_format ts = Parser.Ok p ->
  parse_tops autovars switches true parse_format (5 * Datatypes.length ts + 4) Hoisting.pstate0 ts = Parser.Ok st ->
  ListsParse.step_list src ->
  assoc (hmset (ph st)) (mov_key (ListsParse.expand src)) = Some l ->
  (forall x : token, In x src -> ttype x = IDENT -> Hoisting.no_colon x) ->
  (forall (tk : token) (steps : list token), In (TMovement l false tk steps) (tops p) -> Forall Hoisting.no_colon steps) ->
  emit_program_instrs opt mp p = Ok is ->
  Datatypes.length (filter (Hoisting.is_mov_named l) (tops p)) = 1 /\
  (exists (tk : token) (steps : list token) (a b : list instr),
     In (TMovement l false tk steps) (tops p) /\
     map tlit steps = map tlit (ListsParse.expand src) /\ is = a ++ (marker mp (tline tk) ++ ILabel l false :: emit_steps mp steps) ++ b).
Proof. exact ListsParse.hoisted_moves_block. Qed.
Print Assumptions hoisted_moves_block.

Theorem hoisted_moves_lines :
  forall (autovars : list (text * autovar)) (switches : list (text * text)) (parse_format : toks -> Parser.res (token * text * text * toks))
    (ts : toks) (p : program) (st : pstate) (src : list token) (l : text) (opt : bool) (is : list instr),
  parse_program autovars switches true parse_format ts = Parser.Ok p ->
  parse_tops autovars switches true parse_format (5 * Datatypes.length ts + 4) Hoisting.pstate0 ts = Parser.Ok st ->
  ListsParse.step_list src ->
  assoc (hmset (ph st)) (mov_key (ListsParse.expand src)) = Some l ->
  (forall x : token, In x src -> ttype x = IDENT -> Hoisting.no_colon x) ->
  (forall (tk : token) (steps : list token), In (TMovement l false tk steps) (tops p) -> Forall Hoisting.no_colon steps) ->
  emit_program_instrs opt None p = Ok is ->
  exists a b : list instr, is = a ++ (ILabel l false :: map (fun x : list N => ILine (tab ++ x)) (steps_out (ListsParse.expand src))) ++ b.
Proof. exact ListsParse.hoisted_moves_lines. Qed.
Print Assumptions hoisted_moves_lines.


(* ---- moves() at program level (MovesProgram.v): compiled_moves_argument: for every accepted source, every command of every body
   whose argument k was written moves( src ) with src a list of the grammar: the argument is a label l, exactly ONE movement l (local)
   is in the program with the literals of expand src, its block is in the output for both settings - the label, one line per
   expanded step up to and including the first written step_end, else all steps and exactly one step_end. lex_idents_no_colon
   discharges ListsParse's 'identifiers contain no colon'. compiled_moves_arguments_share: two such arguments are the same label IFF
   their expanded steps coincide. compiled_every_moves_argument: every moves() argument of every command, poryswitch inside
   included, no grammar premise. ---- *)
From Pory Require MovesProgram. Open Scope list_scope.
Theorem command_position :
  forall (autovars : list (text * autovar)) (switches : list (text * text)) (parse_format : toks -> Parser.res (token * text * text * toks)),
  (forall (ts : toks) (tk : token) (v sty : text) (ts' : toks),
   parse_format ts = Parser.Ok (tk, v, sty, ts') -> forall a : toks, Consume.advs a ts -> Consume.advs a ts') ->
  forall (T : toks) (p : program),
  parse_program autovars switches true parse_format T = Parser.Ok p ->
  forall (script : text) (c : cmd),
  In (script, c) (HoistProgram.named_cmds (tops p)) ->
  exists pre ts : list token,
    T = pre ++ ts /\
    Datatypes.length ts = Ast.cid c /\
    (exists (consts : list (text * text)) (f : nat) (c0 : cmd) (impc : impdata) (ts1 : toks),
       command_stmt switches true parse_format consts f script ts = Parser.Ok (c0, impc, ts1) /\
       cname c = cname c0 /\ ctok c = ctok c0 /\ Ast.cid c = Ast.cid c0 /\ Datatypes.length (cargs c) = Datatypes.length (cargs c0)).
Proof. exact MovesProgram.command_position. Qed.
Print Assumptions command_position.

Theorem program_moves_argument_label :
  forall (autovars : list (text * autovar)) (switches : list (text * text)) (parse_format : toks -> Parser.res (token * text * text * toks)),
  (forall (ts : toks) (tk : token) (v sty : text) (ts' : toks),
   parse_format ts = Parser.Ok (tk, v, sty, ts') -> forall a : toks, Consume.advs a ts -> Consume.advs a ts') ->
  forall (T : toks) (p : program),
  parse_program autovars switches true parse_format T = Parser.Ok p ->
  forall (script : text) (c : cmd),
  In (script, c) (HoistProgram.named_cmds (tops p)) ->
  forall (name : token) (k : nat) (src mv : list token),
  MovesProgram.written_moves switches parse_format T c name k src mv ->
  mv = ListsParse.expand src /\
  cname c = tlit name /\
  ctok c = name /\
  (exists (st : pstate) (l : text),
     parse_tops autovars switches true parse_format (5 * Datatypes.length T + 4) Hoisting.pstate0 T = Parser.Ok st /\
     nth_error (cargs c) k = Some l /\ assoc (hmset (ph st)) (mov_key (ListsParse.expand src)) = Some l).
Proof. exact MovesProgram.program_moves_argument_label. Qed.
Print Assumptions program_moves_argument_label.

Theorem program_moves_argument :
  forall (autovars : list (text * autovar)) (switches : list (text * text)) (parse_format : toks -> Parser.res (token * text * text * toks)),
  (forall (ts : toks) (tk : token) (v sty : text) (ts' : toks),
   parse_format ts = Parser.Ok (tk, v, sty, ts') -> forall a : toks, Consume.advs a ts -> Consume.advs a ts') ->
  forall (T : toks) (p : program),
  parse_program autovars switches true parse_format T = Parser.Ok p ->
  forall (script : text) (c : cmd),
  In (script, c) (HoistProgram.named_cmds (tops p)) ->
  forall (name : token) (k : nat) (src mv : list token),
  MovesProgram.written_moves switches parse_format T c name k src mv ->
  mv = ListsParse.expand src /\
  cname c = tlit name /\
  ctok c = name /\
  (exists (l : text) (tk : token) (steps : list token),
     nth_error (cargs c) k = Some l /\
     In (TMovement l false tk steps) (tops p) /\
     (forall (g' : bool) (tk' : token) (steps' : list token),
      In (TMovement l g' tk' steps') (tops p) -> g' = false /\ tk' = tk /\ steps' = steps) /\
     Datatypes.length (filter (Hoisting.is_mov_named l) (tops p)) = 1 /\
     mov_key steps = mov_key (ListsParse.expand src) /\
     ((forall x : token, In x src -> ttype x = IDENT -> Hoisting.no_colon x) ->
      Forall Hoisting.no_colon steps -> map tlit steps = map tlit (ListsParse.expand src)) /\
     (forall (optimize : bool) (mp : option text) (out : list instr),
      emit_program_instrs optimize mp p = Ok out ->
      exists x y : list instr, out = x ++ (marker mp (tline tk) ++ ILabel l false :: emit_steps mp steps) ++ y)).
Proof. exact MovesProgram.program_moves_argument. Qed.
Print Assumptions program_moves_argument.

Theorem program_movement_steps_from_stream :
  forall (autovars : list (text * autovar)) (switches : list (text * text)) (env_errors : bool)
    (parse_format : toks -> Parser.res (token * text * text * toks)),
  (forall (ts : toks) (tk : token) (v sty : text) (ts' : toks),
   parse_format ts = Parser.Ok (tk, v, sty, ts') -> forall a : toks, Consume.advs a ts -> Consume.advs a ts') ->
  forall (ts : toks) (p : program),
  parse_program autovars switches env_errors parse_format ts = Parser.Ok p ->
  forall (n : text) (g : bool) (tk : token) (steps : list token),
  In (TMovement n g tk steps) (tops p) -> Forall (fun x : token => In x ts /\ ttype x = IDENT) steps.
Proof. exact MovesProgram.program_movement_steps_from_stream. Qed.
Print Assumptions program_movement_steps_from_stream.

Theorem lex_idents_no_colon :
  forall (hl hd hs : N -> bool) (s : text) (x : token), In x (lex hl hd hs s) -> ttype x = IDENT -> Hoisting.no_colon x.
Proof. exact MovesProgram.lex_idents_no_colon. Qed.
Print Assumptions lex_idents_no_colon.

Theorem compiled_movement_steps :
  forall (hl hd hs : N -> bool) (autovars : list (text * autovar)) (switches : list (text * text)) (fc : Format.fontcfg) 
    (cli_font : text) (cli_maxlen : Z) (s : text) (p : program),
  parse_program autovars switches true (Format.parse_format fc cli_font cli_maxlen true) (lex hl hd hs s) = Parser.Ok p ->
  forall (n : text) (g : bool) (tk : token) (steps : list token),
  In (TMovement n g tk steps) (tops p) -> Forall (fun x : token => In x (lex hl hd hs s) /\ ttype x = IDENT /\ Hoisting.no_colon x) steps.
Proof. exact MovesProgram.compiled_movement_steps. Qed.
Print Assumptions compiled_movement_steps.

Theorem compiled_moves_argument :
  forall (hl hd hs : N -> bool) (autovars : list (text * autovar)) (switches : list (text * text)) (fc : Format.fontcfg) 
    (cli_font : text) (cli_maxlen : Z) (s : text) (p : program),
  parse_program autovars switches true (Format.parse_format fc cli_font cli_maxlen true) (lex hl hd hs s) = Parser.Ok p ->
  forall (script : text) (c : cmd),
  In (script, c) (HoistProgram.named_cmds (tops p)) ->
  forall (name : token) (k : nat) (src mv : list token),
  MovesProgram.written_moves switches (Format.parse_format fc cli_font cli_maxlen true) (lex hl hd hs s) c name k src mv ->
  exists (l : text) (tk : token) (steps : list token),
    nth_error (cargs c) k = Some l /\
    In (TMovement l false tk steps) (tops p) /\
    (forall (g' : bool) (tk' : token) (steps' : list token), In (TMovement l g' tk' steps') (tops p) -> g' = false /\ tk' = tk /\ steps' = steps) /\
    Datatypes.length (filter (Hoisting.is_mov_named l) (tops p)) = 1 /\
    map tlit steps = map tlit (ListsParse.expand src) /\
    (forall (optimize : bool) (mp : option text) (out : list instr),
     emit_program_instrs optimize mp p = Ok out ->
     exists x y : list instr, out = x ++ (marker mp (tline tk) ++ ILabel l false :: emit_steps mp steps) ++ y) /\
    (forall (optimize : bool) (out : list instr),
     emit_program_instrs optimize None p = Ok out ->
     exists x y : list instr, out = x ++ (ILabel l false :: map (fun s0 : list N => ILine (tab ++ s0)) (steps_out (ListsParse.expand src))) ++ y) /\
    (Forall ListsParse.not_end (ListsParse.expand src) -> steps_out (ListsParse.expand src) = map tlit (ListsParse.expand src) ++ [t "step_end"]) /\
    (forall (b : list token) (e : token) (post : list token),
     ListsParse.expand src = b ++ e :: post ->
     Forall ListsParse.not_end b -> tlit e = t "step_end" -> steps_out (ListsParse.expand src) = map tlit b ++ [t "step_end"]).
Proof. exact MovesProgram.compiled_moves_argument. Qed.
Print Assumptions compiled_moves_argument.

Theorem compiled_moves_arguments_share :
  forall (hl hd hs : N -> bool) (autovars : list (text * autovar)) (switches : list (text * text)) (fc : Format.fontcfg) 
    (cli_font : text) (cli_maxlen : Z) (s : text) (p : program),
  parse_program autovars switches true (Format.parse_format fc cli_font cli_maxlen true) (lex hl hd hs s) = Parser.Ok p ->
  forall (s1 : text) (c1 : cmd) (s2 : text) (c2 : cmd),
  In (s1, c1) (HoistProgram.named_cmds (tops p)) ->
  In (s2, c2) (HoistProgram.named_cmds (tops p)) ->
  forall (n1 : token) (k1 : nat) (src1 mv1 : list token) (n2 : token) (k2 : nat) (src2 mv2 : list token),
  MovesProgram.written_moves switches (Format.parse_format fc cli_font cli_maxlen true) (lex hl hd hs s) c1 n1 k1 src1 mv1 ->
  MovesProgram.written_moves switches (Format.parse_format fc cli_font cli_maxlen true) (lex hl hd hs s) c2 n2 k2 src2 mv2 ->
  nth_error (cargs c1) k1 = nth_error (cargs c2) k2 <-> map tlit (ListsParse.expand src1) = map tlit (ListsParse.expand src2).
Proof. exact MovesProgram.compiled_moves_arguments_share. Qed.
Print Assumptions compiled_moves_arguments_share.

Theorem compiled_every_moves_argument :
  forall (hl hd hs : N -> bool) (autovars : list (text * autovar)) (switches : list (text * text)) (fc : Format.fontcfg) 
    (cli_font : text) (cli_maxlen : Z) (s : text) (p : program),
  parse_program autovars switches true (Format.parse_format fc cli_font cli_maxlen true) (lex hl hd hs s) = Parser.Ok p ->
  forall (script : text) (c : cmd),
  In (script, c) (HoistProgram.named_cmds (tops p)) ->
  cargs c = [] \/
  (exists (pre : list token) (name lp : token) (a : CmdArgs.arglist) (rp : token) (rest : list token),
     lex hl hd hs s = pre ++ name :: lp :: CmdArgs.arg_tokens a ++ rp :: rest /\
     Ast.cid c = Datatypes.length (name :: lp :: CmdArgs.arg_tokens a ++ rp :: rest) /\
     ttype lp = LPAREN /\
     ttype rp = RPAREN /\
     CmdConverse.wf_args_at switches true (Format.parse_format fc cli_font cli_maxlen true) a (rp :: rest) /\
     CmdArgs.balanced (CmdArgs.flat a) /\
     cname c = tlit name /\
     ctok c = name /\
     Datatypes.length (cargs c) = Datatypes.length (CmdArgs.strip_last_empty (CmdArgs.groups_of a)) /\
     (forall (k : nat) (g1 : list CmdArgs.piece) (lt : list token) (clo : token) (mv : list token) (g2 : list CmdArgs.piece),
      nth_error (CmdArgs.groups_of a) k = Some (g1 ++ CmdArgs.PMoves lt clo mv :: g2) ->
      Forall (fun q : CmdArgs.piece => MovesProgram.is_moves q = false) g2 ->
      MovesProgram.moves_block_compiled switches (lex hl hd hs s) p c k lt clo mv)).
Proof. exact MovesProgram.compiled_every_moves_argument. Qed.
Print Assumptions compiled_every_moves_argument.

