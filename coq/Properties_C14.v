(* C14 - Movement and mart lists are expanded, ordered and terminated exactly once. *)
From Coq Require Import List String ZArith NArith.
Open Scope string_scope.
From Pory Require Import Lexer Ast Parser Emitter Props1 C14Proofs TopProps Tables TablesOK.
Import ListNotations.

Theorem steps_out_spec : forall steps,
  steps_out steps = let '(l, found) := take_through steps in if found then l else l ++ [t "step_end"].
Proof. exact Props1.steps_out_spec. Qed.
Print Assumptions steps_out_spec.

Theorem steps_out_one_terminator : forall steps,
  exists pre, steps_out steps = pre ++ [t "step_end"] /\ Forall (fun x => x <> t "step_end") pre.
Proof. exact Props1.steps_out_one_terminator. Qed.
Print Assumptions steps_out_one_terminator.

Theorem emit_steps_lines : forall steps,
  emit_steps None steps = map (fun x => ILine (tab ++ x)) (steps_out steps).
Proof. intros. apply Props1.emit_steps_lines. reflexivity. Qed.
Print Assumptions emit_steps_lines.

Theorem repeat_tok_spec : forall n tk, repeat_tok n tk = repeat tk n.
Proof. exact Props1.repeat_tok_spec. Qed.
Print Assumptions repeat_tok_spec.

(* 'step * N': accepted exactly for 1 <= N <= 9999 (N read as by strconv.ParseInt(.,0,64)) and expanded in place *)
Theorem multiplier_accepted :
  forall switches env_errors f c multi ts acc n,
    at_multiplier c ts -> go_parse_int (tlit (cur (adv (adv ts)))) = Some n -> (1 <= n <= 9999)%Z ->
    list_value switches env_errors (S f) (LMov c) multi ts acc =
      (if multi then list_value switches env_errors f (LMov c) multi (adv (adv (adv ts))) (acc ++ repeat (cur ts) (Z.to_nat n))
       else Parser.Ok (acc ++ repeat (cur ts) (Z.to_nat n), adv (adv (adv ts)))).
Proof. exact C14Proofs.multiplier_accepted. Qed.
Print Assumptions multiplier_accepted.

Theorem multiplier_rejected :
  forall switches env_errors f c multi ts acc,
    at_multiplier c ts ->
    (match go_parse_int (tlit (cur (adv (adv ts)))) with Some n => (n <= 0 \/ 9999 < n)%Z | None => True end) ->
    exists e, list_value switches env_errors (S f) (LMov c) multi ts acc = Err e /\ els e = tline (cur (adv (adv ts))).
Proof. exact C14Proofs.multiplier_rejected. Qed.
Print Assumptions multiplier_rejected.

(* a mart block: .align 2, the label, the items, one ITEM_NONE *)
Theorem mart_shape : forall name glob tk items itoks,
  emit_mart None name glob tk items itoks =
    ILine (tab ++ t ".align 2") :: ILabel name glob :: emit_items None items itoks ++ [ILine (tab ++ t ".2byte ITEM_NONE")].
Proof. exact TopProps.emit_mart_shape. Qed.
Print Assumptions mart_shape.

(* the bounds are those written in parser/parser.go (regenerated from /repo on every run) *)
Theorem multiplier_bounds_are_the_go_constants : go_multiplier_min_rejected = 0%Z /\ go_multiplier_max = 9999%Z.
Proof. exact multiplier_bounds_agree. Qed.
Print Assumptions multiplier_bounds_are_the_go_constants.
