(* C20 / C01: every script body (script statements and inline map scripts) of an accepted program is well scoped. *)
From Coq Require Import List String Ascii ZArith NArith Lia Bool.
From Pory Require Import Lexer Ast Parser Emitter Sem2 Tr ParseWf.
Import ListNotations.
Open Scope list_scope.

Definition bodies_of_top (tp : top) : list (list stmt) :=
  match tp with
  | TScript _ _ b => [b]
  | TMapScripts _ _ plain tables =>
      flat_map (fun m => match msScript m with Some b => [b] | None => [] end) plain ++
      flat_map (fun tb => flat_map (fun e => match teScript e with Some b => [b] | None => [] end) (tmEntries tb)) tables
  | _ => []
  end.
Definition bodies_of (l : list top) : list (list stmt) := flat_map bodies_of_top l.
Definition all_scoped (l : list (list stmt)) : Prop := Forall (scoped None None) l.

Scheme scoped_m := Minimality for scoped Sort Prop
  with scoped1_m := Minimality for scoped1 Sort Prop
  with scoped_conds_m := Minimality for scoped_conds Sort Prop
  with scoped_opt_m := Minimality for scoped_opt Sort Prop
  with scoped_cases_m := Minimality for scoped_cases Sort Prop.
Combined Scheme scoped_mutind_all from scoped_m, scoped1_m, scoped_conds_m, scoped_opt_m, scoped_cases_m.

(* patching hoisted labels into command arguments does not touch the control structure *)
Lemma scoped_pstmt ps :
  (forall bt lt ss, scoped bt lt ss -> scoped bt lt (map (pstmt ps) ss)) /\
  (forall bt lt s, scoped1 bt lt s -> scoped1 bt lt (pstmt ps s)) /\
  (forall bt lt l, scoped_conds bt lt l -> scoped_conds bt lt (map (fun cb => (pbexp ps (fst cb), map (pstmt ps) (snd cb))) l)) /\
  (forall bt lt o, scoped_opt bt lt o -> scoped_opt bt lt (match o with Some b => Some (map (pstmt ps) b) | None => None end)) /\
  (forall bt lt l, scoped_cases bt lt l ->
     scoped_cases bt lt (map (fun c : Parser.scase => (fst (fst (fst c)), snd (fst (fst c)), snd (fst c), map (pstmt ps) (snd c))) l)).
Proof.
  apply scoped_mutind_all; intros; cbn [map pstmt fst snd]; try (constructor; auto; fail).
Qed.

Lemma all_scoped_app a b : all_scoped a -> all_scoped b -> all_scoped (a ++ b).
Proof. intros. apply Forall_app. split; assumption. Qed.

Lemma bodies_of_app a b : bodies_of (a ++ b) = bodies_of a ++ bodies_of b.
Proof. apply flat_map_app. Qed.

Section P.
Variable autovars : list (text * autovar).
Variable switches : list (text * text).
Variable env_errors : bool.
Variable parse_format : toks -> Parser.res (token * text * text * toks).

Notation parse_block c := (parse_block autovars switches env_errors parse_format c).
Notation ms_table c := (ms_table autovars switches env_errors parse_format c).
Notation ms_entries c := (ms_entries autovars switches env_errors parse_format c).
Notation parse_tops := (parse_tops autovars switches env_errors parse_format).
Notation parse_program := (parse_program autovars switches env_errors parse_format).

Tactic Notation "bind" hyp(H) "as" simple_intropattern(p) :=
  let E := fresh "E" in apply bind_inv in H; destruct H as (p & E & H); cbn beta iota in H.

Definition entries_ok (es : list tableentry) : Prop :=
  all_scoped (flat_map (fun e => match teScript e with Some b => [b] | None => [] end) es).

Lemma ms_table_scoped c f : forall mapname tyname ts i acc imp es imp' ts',
  ms_table c f mapname tyname ts i acc imp = Parser.Ok (es, imp', ts') -> entries_ok acc -> entries_ok es.
Proof.
  induction f as [|f IH]; intros mapname tyname ts i acc imp es imp' ts' H Hacc; [discriminate|].
  cbn [Parser.ms_table] in H. destruct (curis RBRACKET ts); [inversion H; subst; exact Hacc|]. cbn zeta in H.
  destruct (ms_collect c f (is COMMA) ts []) as [[cond ts1]|]; [|discriminate].
  destruct cond as [|c0 cond]; [discriminate|].
  destruct (ms_collect c f _ (adv ts1) []) as [[cmp ts3]|]; [|discriminate].
  destruct cmp as [|c1 cmp]; [discriminate|].
  destruct (curis COLON ts3).
  - destruct (expect_peek IDENT ts3) as [ts4|]; [|discriminate].
    eapply IH; [exact H|]. unfold entries_ok. rewrite flat_map_app. apply all_scoped_app; [exact Hacc|]. cbn. constructor.
  - bind H as [[b imp1] ts4]. eapply IH; [exact H|]. unfold entries_ok. rewrite flat_map_app. apply all_scoped_app; [exact Hacc|].
    cbn. constructor; [|constructor]. eapply parse_block_scoped; eauto.
Qed.

Definition ms_ok (plain : list mapscript) (tables : list tablems) : Prop :=
  all_scoped (bodies_of_top (TMapScripts [] false plain tables)).

Lemma ms_entries_scoped c f : forall mapname ts plain tables imp plain' tables' imp' ts',
  ms_entries c f mapname ts plain tables imp = Parser.Ok (plain', tables', imp', ts') -> ms_ok plain tables -> ms_ok plain' tables'.
Proof.
  induction f as [|f IH]; intros mapname ts plain tables imp plain' tables' imp' ts' H Hacc; [discriminate|].
  cbn [Parser.ms_entries] in H. destruct (curis RBRACE ts); [inversion H; subst; exact Hacc|].
  destruct (negb (curis IDENT ts)); [discriminate|]. cbn zeta in H.
  unfold ms_ok, bodies_of_top in *. apply Forall_app in Hacc. destruct Hacc as [Hp Ht].
  destruct (curis COLON (adv ts)).
  - destruct (expect_peek IDENT (adv ts)) as [ts2|]; [|discriminate]. eapply IH; [exact H|].
    unfold ms_ok, bodies_of_top. rewrite flat_map_app. apply all_scoped_app; [apply all_scoped_app; [exact Hp|constructor]|exact Ht].
  - destruct (curis LBRACE (adv ts)).
    + bind H as [[b imp1] ts2]. eapply IH; [exact H|].
      unfold ms_ok, bodies_of_top. rewrite flat_map_app. apply all_scoped_app; [apply all_scoped_app; [exact Hp|]|exact Ht].
      cbn. constructor; [|constructor]. eapply parse_block_scoped; eauto.
    + destruct (curis LBRACKET (adv ts)); [|discriminate]. bind H as [[es imp1] ts2]. eapply IH; [exact H|].
      unfold ms_ok, bodies_of_top. rewrite flat_map_app. apply all_scoped_app; [exact Hp|]. apply all_scoped_app; [exact Ht|].
      cbn. rewrite app_nil_r. eapply ms_table_scoped; eauto. constructor.
Qed.

Lemma parse_tops_scoped f : forall st ts st',
  parse_tops f st ts = Parser.Ok st' -> all_scoped (bodies_of (ptops st)) -> all_scoped (bodies_of (ptops st')).
Proof.
  induction f as [|f IH]; intros st ts st' H Hacc; [discriminate|].
  cbn [Parser.parse_tops] in H. destruct (curis EOF ts); [inversion H; subst; exact Hacc|]. cbn zeta in H.
  destruct (ttype (cur ts)); try discriminate.
  - (* script *)
    bind H as [[[[name g] b] imp] ts1]. destruct (add_implicit imp (ph st)) as [h' ps].
    eapply IH; [exact H|]. cbn [ptops]. rewrite bodies_of_app. apply all_scoped_app; [exact Hacc|].
    cbn. constructor; [|constructor]. apply (proj1 (scoped_pstmt ps)).
    unfold Parser.parse_script in E. cbn zeta in E. bind E as [g0 ts0].
    destruct (expect_peek IDENT ts0) as [ts2|]; [|discriminate].
    destruct (expect_peek LBRACE ts2) as [ts3|]; [|discriminate]. bind E as [[b0 imp1] ts4]. inversion E; subst.
    eapply parse_block_scoped; eauto.
  - (* raw *)
    bind H as [tp ts1]. eapply IH; [exact H|]. cbn [ptops]. rewrite bodies_of_app. apply all_scoped_app; [exact Hacc|].
    unfold parse_raw in E. destruct (expect_peek RAWSTRING ts); [|discriminate]. inversion E; subst. constructor.
  - (* text *)
    bind H as [td ts1]. eapply IH; [exact H|]. cbn [ptops]. rewrite bodies_of_app. apply all_scoped_app; [exact Hacc|]. constructor.
  - (* movement *)
    bind H as [tp ts1]. eapply IH; [exact H|]. cbn [ptops]. rewrite bodies_of_app. apply all_scoped_app; [exact Hacc|].
    unfold parse_movement in E. bind E as [g0 ts0].
    destruct (expect_peek IDENT ts0) as [ts2|]; [|discriminate].
    destruct (expect_peek LBRACE ts2) as [ts3|]; [|discriminate]. bind E as [steps ts4]. inversion E; subst. constructor.
  - (* mart *)
    bind H as [tp ts1]. eapply IH; [exact H|]. cbn [ptops]. rewrite bodies_of_app. apply all_scoped_app; [exact Hacc|].
    unfold parse_mart in E. bind E as [g0 ts0].
    destruct (expect_peek IDENT ts0) as [ts2|]; [|discriminate].
    destruct (expect_peek LBRACE ts2) as [ts3|]; [|discriminate]. bind E as [items ts4]. inversion E; subst. constructor.
  - (* mapscripts *)
    bind H as [[tp imp] ts1]. destruct (add_implicit imp (ph st)) as [h' ps].
    eapply IH; [exact H|]. cbn [ptops]. rewrite bodies_of_app. apply all_scoped_app; [exact Hacc|].
    unfold Parser.parse_mapscripts in E. bind E as [g0 ts0]. cbn zeta in E.
    destruct (expect_peek IDENT ts0) as [ts2|]; [|discriminate].
    destruct (expect_peek LBRACE ts2) as [ts3|]; [|discriminate]. bind E as [[[plain tables] imp1] ts4]. inversion E; subst.
    pose proof (ms_entries_scoped _ _ _ _ _ _ _ _ _ _ _ E1 (Forall_nil _)) as M.
    unfold ms_ok, bodies_of_top in M. apply Forall_app in M. destruct M as [Mp Mt].
    cbn. rewrite app_nil_r. apply all_scoped_app.
    + clear - Mp. induction plain as [|m r IHr]; [constructor|]. cbn in *. destruct (msScript m); cbn in *.
      * inversion Mp; subst. constructor; [apply (proj1 (scoped_pstmt ps)); assumption|apply IHr; assumption].
      * apply IHr; assumption.
    + clear - Mt. induction tables as [|tb r IHr]; [constructor|]. cbn in *. apply Forall_app in Mt. destruct Mt as [M1 M2].
      apply all_scoped_app; [|apply IHr; assumption]. clear - M1. induction (tmEntries tb) as [|e r IHr]; [constructor|]. cbn in *.
      destruct (teScript e); cbn in *.
      * inversion M1; subst. constructor; [apply (proj1 (scoped_pstmt ps)); assumption|apply IHr; assumption].
      * apply IHr; assumption.
  - (* const *)
    bind H as [c' ts1]. eapply IH; [exact H|]. exact Hacc.
Qed.

(* hoisted movements carry no script body *)
Definition movs_only (h : hst) : Prop := bodies_of (hmovs h) = [].
Lemma add_texts_hmovs its : forall h ps, hmovs (fst (add_texts its h ps)) = hmovs h.
Proof.
  induction its as [|it r IH]; intros h ps; [reflexivity|]. cbn [add_texts].
  destruct (find_text (hset h) _ _); [apply IH|]. rewrite IH. reflexivity.
Qed.
Lemma add_movs_only ims : forall h ps, movs_only h -> movs_only (fst (add_movs ims h ps)).
Proof.
  induction ims as [|im r IH]; intros h ps H; [exact H|]. cbn [add_movs].
  destruct (assoc (hmset h) _); [apply IH; exact H|]. apply IH. unfold movs_only in *. cbn [hmovs].
  rewrite bodies_of_app, H. reflexivity.
Qed.
Lemma add_implicit_only imp h : movs_only h -> movs_only (fst (add_implicit imp h)).
Proof.
  intros H. unfold add_implicit. pose proof (add_texts_hmovs (idT imp) h []) as T.
  destruct (add_texts (idT imp) h []) as [h1 ps1]. cbn [fst] in T. apply add_movs_only. unfold movs_only in *. now rewrite T.
Qed.

Lemma parse_tops_movs f : forall st ts st', parse_tops f st ts = Parser.Ok st' -> movs_only (ph st) -> movs_only (ph st').
Proof.
  induction f as [|f IH]; intros st ts st' H Hacc; [discriminate|].
  cbn [Parser.parse_tops] in H. destruct (curis EOF ts); [inversion H; subst; exact Hacc|]. cbn zeta in H.
  destruct (ttype (cur ts)); try discriminate.
  - bind H as [[[[name g] b] imp] ts1]. pose proof (add_implicit_only imp (ph st) Hacc) as A.
    destruct (add_implicit imp (ph st)) as [h' ps]. eapply IH; [exact H|]. exact A.
  - bind H as [tp ts1]. eapply IH; [exact H|]. exact Hacc.
  - bind H as [tp ts1]. eapply IH; [exact H|]. exact Hacc.
  - bind H as [tp ts1]. eapply IH; [exact H|]. exact Hacc.
  - bind H as [tp ts1]. eapply IH; [exact H|]. exact Hacc.
  - bind H as [[tp imp] ts1]. pose proof (add_implicit_only imp (ph st) Hacc) as A.
    destruct (add_implicit imp (ph st)) as [h' ps]. eapply IH; [exact H|]. exact A.
  - bind H as [c' ts1]. eapply IH; [exact H|]. exact Hacc.
Qed.

(* THE THEOREM: every script body of an accepted program is well scoped *)
Theorem parse_program_scoped ts p :
  parse_program ts = Parser.Ok p -> all_scoped (bodies_of (tops p)).
Proof.
  unfold Parser.parse_program. intros H. bind H as st. cbn zeta in H.
  destruct (dup_text [] _); [discriminate|]. destruct (dup_mov [] _); [discriminate|]. inversion H; subst. cbn [tops].
  rewrite bodies_of_app. apply all_scoped_app.
  - eapply parse_tops_scoped; [eassumption|]. constructor.
  - assert (M : movs_only (ph st)) by (eapply parse_tops_movs; [eassumption|reflexivity]). unfold movs_only in M. rewrite M. constructor.
Qed.
End P.
