(* C06: hoisting of inline texts: every occurrence is patched with a label that denotes exactly its content and type. *)
From Coq Require Import List String Ascii ZArith NArith Lia Bool.
From Pory Require Import Lexer Ast Parser.
Import ListNotations.
Open Scope list_scope.

Lemma text_eqb_refl x : text_eqb x x = true.
Proof. unfold text_eqb. destruct (list_eq_dec N.eq_dec x x); [reflexivity|congruence]. Qed.
Lemma text_eqb_true a b : text_eqb a b = true -> a = b.
Proof. unfold text_eqb. destruct (list_eq_dec N.eq_dec a b); [auto|discriminate]. Qed.

(* the table maps a (content, type) pair to at most one label: lookups are stable when other keys are added in front *)
Lemma find_text_cons_same l v ty lbl : find_text ((v, ty, lbl) :: l) v ty = Some lbl.
Proof. cbn. now rewrite !text_eqb_refl. Qed.
Lemma find_text_cons_other l v ty v' ty' lbl :
  find_text l v' ty' = None \/ (v, ty) <> (v', ty') -> find_text l v ty <> None \/ True ->
  forall k, find_text l v ty = Some k -> (text_eqb v v' && text_eqb ty ty' = false) -> find_text ((v', ty', lbl) :: l) v ty = Some k.
Proof. intros _ _ k H E. cbn. now rewrite E. Qed.

(* every defined table entry has its text definition: same label, same content, same type, local *)
Definition table_ok (h : hst) : Prop :=
  forall v ty lbl, In (v, ty, lbl) (hset h) ->
    exists x, In x (htexts h) /\ xname x = lbl /\ xvalue x = v /\ xtype x = ty /\ xglob x = false.

Lemma find_text_in l v ty lbl : find_text l v ty = Some lbl -> In (v, ty, lbl) l.
Proof.
  induction l as [|[[v' ty'] l'] r IH]; cbn; [discriminate|].
  destruct (text_eqb v v' && text_eqb ty ty') eqn:E.
  - intros H; inversion H; subst. apply andb_prop in E. destruct E as [E1 E2].
    apply text_eqb_true in E1, E2. subst. now left.
  - intros H. right. auto.
Qed.

(* one patch per occurrence, in order, addressed to the command and argument position of the occurrence *)
Definition patch_for (it : imptext) (lbl : text) : patch := (itCid it, itArg it, lbl).

Theorem add_texts_spec : forall its h ps h' ps',
  add_texts its h ps = (h', ps') -> table_ok h ->
  table_ok h' /\
  (forall v ty l, find_text (hset h) v ty = Some l -> find_text (hset h') v ty = Some l) /\
  exists labels, ps' = ps ++ map (fun p => patch_for (fst p) (snd p)) (combine its labels) /\ List.length labels = List.length its /\
    Forall2 (fun it l => find_text (hset h') (tlit (itTok it)) (itType it) = Some l) its labels.
Proof.
  induction its as [|it r IH]; intros h ps h' ps' H OK.
  - inversion H; subst. split; [exact OK|]. split; [auto|]. exists []. cbn. rewrite app_nil_r. repeat split. constructor.
  - cbn [add_texts] in H. destruct (find_text (hset h) (tlit (itTok it)) (itType it)) as [lbl|] eqn:F.
    + destruct (IH _ _ _ _ H OK) as (OK' & Mono & labels & Hps & Hlen & Hall).
      split; [exact OK'|]. split; [exact Mono|]. exists (lbl :: labels). cbn. rewrite Hps, <- app_assoc. cbn.
      repeat split; [now rewrite Hlen|]. constructor; [apply Mono; exact F|exact Hall].
    + set (lbl := itScript it ++ t "_Text_" ++ nat_text (count_of (hcnt h) (itScript it))) in *.
      match type of H with add_texts r ?hh _ = _ => set (h1 := hh) in * end.
      assert (OK1 : table_ok h1).
      { intros v ty l [X|X].
        - inversion X; subst. eexists. split; [apply in_or_app; right; left; reflexivity|]. cbn. auto.
        - destruct (OK _ _ _ X) as (x & Hx & P). exists x. split; [apply in_or_app; now left|exact P]. }
      destruct (IH _ _ _ _ H OK1) as (OK' & Mono & labels & Hps & Hlen & Hall).
      split; [exact OK'|]. split.
      * intros v ty l Hf. apply Mono. cbn [hset h1].
        cbn. destruct (text_eqb v (tlit (itTok it)) && text_eqb ty (itType it)) eqn:E; [|exact Hf].
        apply andb_prop in E. destruct E as [E1 E2]. apply text_eqb_true in E1, E2. subst. congruence.
      * exists (lbl :: labels). cbn. rewrite Hps, <- app_assoc. cbn. repeat split; [now rewrite Hlen|].
        constructor; [|exact Hall]. apply Mono. apply find_text_cons_same.
Qed.

(* two occurrences with the same content and string type receive the same label *)
Corollary same_content_same_label its h ps h' ps' :
  add_texts its h ps = (h', ps') -> table_ok h ->
  exists labels, List.length labels = List.length its /\
    forall i j a b (la lb : text), nth_error its i = Some a -> nth_error its j = Some b ->
      nth_error labels i = Some la -> nth_error labels j = Some lb ->
      tlit (itTok a) = tlit (itTok b) -> itType a = itType b -> la = lb.
Proof.
  intros H OK. destruct (add_texts_spec _ _ _ _ _ H OK) as (_ & _ & labels & _ & Hlen & Hall).
  exists labels. split; [exact Hlen|]. intros i j a b la lb Ha Hb Hla Hlb Ev Et.
  assert (G : forall k x l, nth_error its k = Some x -> nth_error labels k = Some l ->
              find_text (hset h') (tlit (itTok x)) (itType x) = Some l).
  { clear - Hall. induction Hall as [|x0 l0 its0 labels0 H0 HA IHA]; intros k x l Hx Hl; destruct k; cbn in *; try discriminate.
    - inversion Hx; inversion Hl; subst. exact H0.
    - eapply IHA; eauto. }
  pose proof (G _ _ _ Ha Hla) as G1. pose proof (G _ _ _ Hb Hlb) as G2. rewrite Ev, Et in G1. congruence.
Qed.

Lemma Forall2_imp {A B} (P Q : A -> B -> Prop) l1 l2 : (forall a b, P a b -> Q a b) -> Forall2 P l1 l2 -> Forall2 Q l1 l2.
Proof. intros I H. induction H; constructor; auto. Qed.

(* the label denotes exactly that content: the final table entry has a text definition with the occurrence's value and type *)
Corollary label_denotes_content its h ps h' ps' :
  add_texts its h ps = (h', ps') -> table_ok h ->
  exists labels, List.length labels = List.length its /\
    Forall2 (fun it l => exists x, In x (htexts h') /\ xname x = l /\ xvalue x = tlit (itTok it) /\ xtype x = itType it /\ xglob x = false) its labels.
Proof.
  intros H OK. destruct (add_texts_spec _ _ _ _ _ H OK) as (OK' & _ & labels & _ & Hlen & Hall).
  exists labels. split; [exact Hlen|]. eapply Forall2_imp; [|exact Hall]. intros a b H0.
  apply find_text_in in H0. destruct (OK' _ _ _ H0) as (x & Hx & P). exists x. tauto.
Qed.

Lemma table_ok_empty : table_ok hst0.
Proof. intros v ty l []. Qed.
