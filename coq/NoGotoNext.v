(* C05 (c2) and (d): "In either form no compiler-generated goto targets the label on the very next line and no generated
   sub-label is emitted that nothing refers to" - for the script bodies the parser produces, BOTH settings of -optimize.

   What was open: for -optimize off OptimSame.v had only goto_to_next_label_partial (a goto followed - blank lines and markers
   aside - by its own label can only happen across an empty chunk that nothing jumps to) and the counterexample
   EXAMPLES.ascending_order_needs_scoping for a body that is not well scoped.  Here the statement is proved in full for
   well-scoped bodies (Tr.scoped None None body, true of every body of every accepted program).

   MAIN STATEMENTS, in words
   (graph)  forward_tail_crosses_a_solid_chunk: in the chunk graph (emit_graph) of a body that passes the source check and is
            well scoped, every chunk c whose fall-through successor tail_of c has a larger, non-adjacent id (so that the
            ascending order renders `goto name_<tail>` at the end of c) has, strictly between its id and that id, a SOLID chunk:
            one that has a statement, or tests a condition / a switch, or whose own successor is not the next id - i.e. a chunk
            whose block is not empty in the ascending order.  Proof: a new invariant FInv of the worklist (over Worklist.wstep).
            The only chunks that are not solid are headers of `while` without condition and one-statement chunks `while ...` /
            `switch ...` processed while they carry the newest id; well-scopedness is needed for `break` / `continue` (their
            destination is never a later chunk: OptimSame.EXAMPLES.ascending_order_needs_scoping shows what happens otherwise).
   (c2)     no_goto_to_next_label_unoptimized: -optimize off, one script: code = pre ++ IGoto l :: mid ++ ILabel l g :: post with
            mid made of IBlank / IMarker only is impossible.
            no_goto_to_next_label: the same for either setting (-optimize on: OptimSame.no_goto_to_a_later_label_optimized).
            no_goto_to_next_label_from_source: for every script body (ProgWf.bodies_of) of every program accepted by
            parse_program, both settings, any name / scope / marker path / text labels.
   (d)      script_label_lines / script_label_lines_from_source: every label line of the code of a script is the label of the
            script, a label statement the author wrote in the body (at any depth, OptimSame.slabs), or a generated sub-label
            name_i with i > 0 that a jump line of the same code targets (label_lines_accounted).  (The multiset form, with
            multiplicities, is OptimSame.script_labels_both.)
   (program) program_segments_ok: the final code of every accepted program, both settings, is the concatenation of the segments
            of OptimSame.program_pieces; data segments are emitted as they are; every script segment is the emit_script code of a
            body of the program, has no goto followed by its own label (c2) and has all its label lines accounted for (d).
            data_pieces_have_no_goto: the data pieces contain no goto line (every goto of the output lies in a script segment).
            program_label_lines: (d) for the final code: the referring jump is a line of the same segment, hence of the program.
            program_no_goto_to_next_label: (c2) for the final code as ONE instruction list, under the premise that the label
            names the output defines are pairwise distinct (NoDup (lnames code)).  The premise is needed:
            NGEXAMPLES.flat_statement_needs_distinct_labels - a script named A_1 placed after a script A whose last line is
            `goto A_1` (a name clash the compiler does not detect, NameClash.v part 4; an assembler rejects the duplicate label).
   Premise kept from OptimSame.v: Z.of_nat (length (finals w)) <= 10 ^ 40 - the model prints chunk ids with 40 decimal digits.
   NGEXAMPLES: the hypotheses hold on concrete sources (nested `while` without condition: a chain of three empty fall-through
   chunks; a program with data pieces and three scripts, both settings; a script whose unoptimized output has forward gotos). *)
From Coq Require Import List String Ascii ZArith NArith Lia Bool Permutation.
From Pory Require Import Lexer Ast Emitter EmitProps RenderSim RenderCheck C17Proofs Worklist WorkRefs WorkLabels WorkShape
  OrderPerm LabelsUnique LabelSim Tr NameClash RenderFromSource OptimSame.
Import ListNotations.
Open Scope list_scope.

(* ================================================================================================================== *)
(* Part 1: solid chunks                                                                                                *)
(* ================================================================================================================== *)
Definition condbr (c : chunk) : Prop :=
  match cbr c with Some (BrLeaf _ _ _) | Some (BrSwitch _ _ _ _ _) => True | _ => False end.
(* a chunk whose block is not empty in the ascending order: it has a statement, or tests a condition / a switch, or its
   fall-through successor is not the chunk with the next id *)
Definition solidF (c : chunk) : Prop := cstmts c <> [] \/ condbr c \/ tail_of c <> (cid c + 1)%Z.

Lemma split_bexp_solid : forall e cn su fa fi cs en f2 c2,
  split_bexp e cn su fa fi = (cs, en, f2, c2) -> (0 <= cn)%Z -> Forall solidF cs.
Proof.
  induction e as [l|o a IHa b IHb]; intros cn su fa fi cs en f2 c2 H Hc.
  - cbn in H. inversion H; subst. constructor; [|constructor]. right. left. exact Logic.I.
  - destruct o; cbn [split_bexp] in H.
    + destruct (split_bexp a (cn + 1) (cn + 1) fa fi) as [[[ra la] f1] c1] eqn:Ea.
      destruct (split_bexp b c1 su fa f1) as [[[rb lb] f2x] c2x] eqn:Eb. inversion H; subst.
      destruct (split_bexp_ids _ _ _ _ _ _ _ _ _ Ea ltac:(lia)) as (A1 & _).
      destruct (split_bexp_ids _ _ _ _ _ _ _ _ _ Eb ltac:(lia)) as (B1 & _).
      apply Forall_app. split; [eapply IHa; [exact Ea|lia]|]. apply Forall_app. split; [eapply IHb; [exact Eb|lia]|].
      constructor; [|constructor]. right. right. unfold tail_of. cbn. lia.
    + destruct (split_bexp a (cn + 1) su (cn + 1) fi) as [[[ra la] f1] c1] eqn:Ea.
      destruct (split_bexp b c1 su fa f1) as [[[rb lb] f2x] c2x] eqn:Eb. inversion H; subst.
      destruct (split_bexp_ids _ _ _ _ _ _ _ _ _ Ea ltac:(lia)) as (A1 & _).
      destruct (split_bexp_ids _ _ _ _ _ _ _ _ _ Eb ltac:(lia)) as (B1 & _).
      apply Forall_app. split; [eapply IHa; [exact Ea|lia]|]. apply Forall_app. split; [eapply IHb; [exact Eb|lia]|].
      constructor; [|constructor]. right. right. unfold tail_of. cbn. lia.
Qed.

Lemma stitch_solid : forall rl cn fail cs entry c',
  stitch_elifs rl cn fail = (cs, entry, c') -> (0 <= cn)%Z -> Forall solidF cs.
Proof.
  induction rl as [|[e id] r IH]; intros cn fail cs entry c' H Hc; cbn in H.
  - inversion H; subst. constructor.
  - destruct (split_bexp e cn id fail (-1)) as [[[cs0 x] first] c1] eqn:E0.
    destruct (stitch_elifs r c1 first) as [[cs2 entry2] c2] eqn:E2. inversion H; subst.
    destruct (split_bexp_ids _ _ _ _ _ _ _ _ _ E0 Hc) as (A1 & _).
    apply Forall_app. split; [eapply split_bexp_solid; eassumption|eapply IH; [exact E2|lia]].
Qed.

(* ---------- scoping of pending chunks against the break / continue maps ---------- *)
Definition okt (m : tagmap) (o : option nat) (k : Z) : Prop :=
  forall t, o = Some t -> exists d, tm_get m t = Some d /\ (d <= k)%Z.
Definition scok (B O : tagmap) (c : chunk) : Prop :=
  exists bt lt, scoped bt lt (cstmts c) /\ okt B bt (cid c) /\ okt O lt (cid c).

Lemma okt_none m k : okt m None k. Proof. intros t E. discriminate E. Qed.
Lemma okt_mono m M o k k' : ext m M -> (k <= k')%Z -> okt m o k -> okt M o k'.
Proof. intros E L H t Ht. destruct (H t Ht) as (d & G & D). exists d. split; [apply E; exact G|lia]. Qed.
Lemma okt_head m tg v k : (v <= k)%Z -> okt ((tg, v) :: m) (Some tg) k.
Proof. intros L t E. inversion E; subst. exists v. split; [apply tm_get_head|exact L]. Qed.
Lemma scok_nil B O c : cstmts c = [] -> scok B O c.
Proof. intros E. exists None, None. rewrite E. split; [constructor|split; apply okt_none]. Qed.
Lemma scok_ext B O B' O' c : ext B B' -> ext O O' -> scok B O c -> scok B' O' c.
Proof.
  intros EB EO (bt & lt & S & KB & KO). exists bt, lt. split; [exact S|].
  split; [eapply okt_mono; [exact EB| |exact KB]; lia|eapply okt_mono; [exact EO| |exact KO]; lia].
Qed.

Lemma scoped_app_inv bt lt a : forall b, scoped bt lt (a ++ b) -> scoped bt lt a /\ scoped bt lt b.
Proof.
  induction a as [|x a IH]; intros b H; cbn [app] in H.
  - split; [constructor|exact H].
  - inversion H; subst. destruct (IH _ H5) as [S1 S2]. split; [constructor; assumption|exact S2].
Qed.
Lemma scoped_conds_in bt lt conds : scoped_conds bt lt conds -> forall b, In b (map snd conds) -> scoped bt lt b.
Proof.
  induction 1 as [| bt lt e b0 r S _ IH]; intros b Hb; [destruct Hb|]. cbn in Hb. destruct Hb as [<-|Hb]; [exact S|apply IH; exact Hb].
Qed.
Lemma scoped_cases_in bt lt cases : scoped_cases bt lt cases -> forall c, In c cases -> scoped bt lt (sc_body c).
Proof.
  induction 1 as [| bt lt c0 r S _ IH]; intros c Hc; [destruct Hc|]. destruct Hc as [<-|Hc]; [exact S|apply IH; exact Hc].
Qed.

(* ---------- what a step must establish about the chunks it creates ---------- *)
(* the one new pre-branched chunk that is not solid: the header of a `while` without condition, which is the target of
   the jump of the chunk being processed *)
Definition exc (news : list chunk) (obr : option brancher) (c' : Z) (c : chunk) : Prop :=
  (cid c < c')%Z /\ obr = Some (BrJump (cid c)) /\ forall c2, In c2 news -> prebranched c2 -> c2 = c.
Definition newok0 (B O : tagmap) (c : chunk) : Prop :=
  (cbr c = None -> (cret c < cid c)%Z) /\ (prebranched c -> solidF c) /\ scok B O c.
Definition newok (B O : tagmap) (news : list chunk) (obr : option brancher) (c' : Z) (c : chunk) : Prop :=
  (cbr c = None -> (cret c < cid c)%Z) /\ (prebranched c -> solidF c \/ exc news obr c' c) /\ scok B O c.

Lemma newok0_newok B O news obr c' c : newok0 B O c -> newok B O news obr c' c.
Proof. intros (A1 & A2 & A3). split; [exact A1|]. split; [intros P; left; exact (A2 P)|exact A3]. Qed.
Lemma newok0_ext B O B' O' c : ext B B' -> ext O O' -> newok0 B O c -> newok0 B' O' c.
Proof. intros EB EO (A1 & A2 & A3). split; [exact A1|]. split; [exact A2|eapply scok_ext; eassumption]. Qed.
Lemma prebr_ok B O c : prebranched c -> solidF c -> newok0 B O c.
Proof.
  intros P S. split; [|split; [intros _; exact S|apply scok_nil; exact (proj1 P)]].
  intros E. destruct P as (_ & _ & b & Q). congruence.
Qed.
Lemma prebr_all_ok B O cs : Forall prebranched cs -> Forall solidF cs -> Forall (newok0 B O) cs.
Proof.
  intros P S. rewrite Forall_forall in *. intros c Hc. apply prebr_ok; auto.
Qed.
Lemma plain_mk_ok B O i r ss bt lt :
  (r < i)%Z -> scoped bt lt ss -> okt B bt i -> okt O lt i -> newok0 B O (mk i r ss None).
Proof.
  intros L S KB KO. split; [intros _; exact L|]. split; [intros (_ & _ & b & Q); discriminate Q|].
  exists bt, lt. split; [exact S|split; assumption].
Qed.

Lemma post_ok cur pre s rest' cn post ret c0 B O bt lt :
  cstmts cur = pre ++ s :: rest' -> split_for_branch cur (List.length pre) cn = (post, ret, c0) ->
  (cid cur <= cn)%Z -> (cret cur < cid cur)%Z -> scoped bt lt rest' -> okt B bt (cid cur) -> okt O lt (cid cur) ->
  Forall (newok0 B O) post /\ Forall plainchunk post /\ (ret <= c0)%Z /\ (cn <= c0 <= cn + 1)%Z /\ ((ret < cid cur)%Z \/ ret = (cn + 1)%Z).
Proof.
  intros E H L1 L2 S KB KO. destruct (sfb_spec _ _ _ _ _ _ _ _ E H) as [(-> & -> & -> & ->)|(N & -> & -> & ->)].
  - split; [constructor|]. split; [constructor|]. lia.
  - split; [|split; [repeat constructor|lia]]. constructor; [|constructor].
    apply (plain_mk_ok B O _ _ _ bt lt); [lia|exact S| |]; (eapply okt_mono; [apply ext_refl| |eassumption]); lia.
Qed.

Lemma bodies_ok B O bt lt : forall bodies cn ret cs c',
  mk_body_chunks bodies cn ret = (cs, c') -> (ret <= cn)%Z -> (forall b, In b bodies -> scoped bt lt b) ->
  (forall k, (cn <= k)%Z -> okt B bt k) -> (forall k, (cn <= k)%Z -> okt O lt k) ->
  Forall (newok0 B O) cs /\ (cn <= c')%Z.
Proof.
  induction bodies as [|b r IH]; intros cn ret cs c' H L S KB KO; cbn in H.
  - inversion H; subst. split; [constructor|lia].
  - destruct (mk_body_chunks r (cn + 1) ret) as [cs1 c1] eqn:E. inversion H; subst.
    destruct (IH _ _ _ _ E) as [I1 I2]; [lia|intros b0 Hb0; apply S; right; exact Hb0|intros k Hk; apply KB; lia|intros k Hk; apply KO; lia|].
    split; [|lia]. constructor; [|exact I1].
    apply (plain_mk_ok B O _ _ _ bt lt); [lia|apply S; left; reflexivity|apply KB; lia|apply KO; lia].
Qed.

(* ---------- if ---------- *)
Lemma create_if_fwd e b more els cur pre rest' cn news br ret c' B O bt lt :
  cstmts cur = pre ++ SIf ((e, b) :: more) els :: rest' ->
  create_if ((e, b) :: more) els cur (List.length pre) cn = (news, br, ret, c') -> (0 <= cn)%Z ->
  (cid cur <= cn)%Z -> (cret cur < cid cur)%Z ->
  scoped bt lt (cstmts cur) -> okt B bt (cid cur) -> okt O lt (cid cur) ->
  Forall (newok0 B O) news /\ exists X, br = BrJump X /\ (cn < X <= c')%Z.
Proof.
  intros E H Hc L1 L2 SC KB KO. rewrite E in SC. apply scoped_app_inv in SC. destruct SC as [_ SC].
  inversion SC as [|? ? ? ? S1 SR]; subst. inversion S1 as [| | | |? ? ? ? SCO SEL| | |]; subst.
  rewrite create_if_unfold in H.
  destruct (split_for_branch cur (List.length pre) cn) as [[post ret0] c0] eqn:ES.
  destruct (mk_body_chunks (b :: map snd more) c0 ret0) as [bodychunks c1] eqn:EB.
  destruct (post_ok _ _ _ _ _ _ _ _ B O bt lt E ES L1 L2 SR KB KO) as (PO & PP & R0 & C0 & RR).
  assert (KB' : forall k, (c0 <= k)%Z -> okt B bt k) by (intros k Hk; eapply okt_mono; [apply ext_refl| |exact KB]; lia).
  assert (KO' : forall k, (c0 <= k)%Z -> okt O lt k) by (intros k Hk; eapply okt_mono; [apply ext_refl| |exact KO]; lia).
  destruct (bodies_ok B O bt lt _ _ _ _ _ EB R0) as [BO C1]; [|exact KB'|exact KO'|].
  { intros b0 Hb0. apply (scoped_conds_in _ _ _ SCO). exact Hb0. }
  set (EL := match els with Some eb => let c := (c1 + 1)%Z in ([mk c ret0 eb None], c, c) | None => ([], c1, ret0) end) in H.
  assert (NE : (c1 <= snd (fst EL))%Z /\ Forall (newok0 B O) (fst (fst EL))).
  { subst EL. destruct els as [eb|]; cbn; (split; [lia|]); [|constructor]. constructor; [|constructor].
    inversion SEL; subst. apply (plain_mk_ok B O _ _ _ bt lt); [lia|assumption|apply KB'; lia|apply KO'; lia]. }
  destruct EL as [[elsechunk c2] finalfail]. cbn [fst snd] in NE. destruct NE as (C2 & EO).
  destruct (stitch_elifs (rev (combine (map fst more) (tl (map cid bodychunks)))) c2 finalfail) as [[cs entryfail] c3] eqn:EST.
  destruct (stitch_news _ _ _ _ _ _ EST ltac:(lia)) as [S1' S2']. assert (C3 : (c2 <= c3)%Z) by (destruct S1'; assumption).
  pose proof (stitch_solid _ _ _ _ _ _ EST ltac:(lia)) as SS.
  destruct (split_bexp e c3 (hd 0%Z (map cid bodychunks)) entryfail (-1)) as [[[cs1 x] entry] c4] eqn:EX.
  destruct (split_bexp_ids _ _ _ _ _ _ _ _ _ EX ltac:(lia)) as (X1 & _ & _ & X4 & X5). cbn in X5. subst entry.
  pose proof (split_bexp_solid _ _ _ _ _ _ _ _ _ EX ltac:(lia)) as SX.
  inversion H; subst. clear H. split; [|exists x; split; [reflexivity|lia]].
  apply Forall_app. split; [exact PO|]. apply Forall_app. split; [exact BO|]. apply Forall_app. split; [exact EO|].
  apply Forall_app. split; apply prebr_all_ok; assumption.
Qed.

(* ---------- loops ---------- *)
Lemma not_prebranched_plain c : plainchunk c -> ~ prebranched c.
Proof. intros [_ P] (_ & _ & b & Q). congruence. Qed.

Lemma create_while_fwd tg c body cur pre rest' cn news br ret c' B O bt lt :
  cstmts cur = pre ++ SWhile tg c body :: rest' ->
  create_while c body cur (List.length pre) cn = (news, br, ret, c') -> (0 <= cn)%Z ->
  (cid cur <= cn)%Z -> (cret cur < cid cur)%Z ->
  scoped bt lt (cstmts cur) -> okt B bt (cid cur) -> okt O lt (cid cur) ->
  ~ In tg (map fst B) -> ~ In tg (map fst O) ->
  exists X, br = BrJump X /\ (cn < X <= c')%Z /\
    Forall (newok ((tg, ret) :: B) ((tg, X) :: O) news (Some br) c') news.
Proof.
  intros E H Hc L1 L2 SC KB KO NB NO. rewrite E in SC. apply scoped_app_inv in SC. destruct SC as [_ SC].
  inversion SC as [|? ? ? ? S1 SR]; subst. inversion S1 as [| | | | |? ? ? ? ? SBD| |]; subst.
  unfold create_while in H.
  destruct (split_for_branch cur (List.length pre) cn) as [[post ret0] c0] eqn:ES.
  destruct (post_ok _ _ _ _ _ _ _ _ B O bt lt E ES L1 L2 SR KB KO) as (PO & PP & R0 & C0 & RR).
  assert (XB : forall v, ext B ((tg, v) :: B)) by (intros v; apply ext_cons; exact NB).
  assert (XO : forall v, ext O ((tg, v) :: O)) by (intros v; apply ext_cons; exact NO).
  assert (BODY : forall r d, (r <= c0)%Z -> (d <= c0 + 2)%Z -> newok0 ((tg, r) :: B) ((tg, d) :: O) (mk (c0 + 2) (c0 + 1) body None)).
  { intros r d Hr Hd. apply (plain_mk_ok _ _ _ _ _ (Some tg) (Some tg)); [lia|exact SBD|apply okt_head; lia|apply okt_head; lia]. }
  destruct c as [e|].
  - destruct (split_bexp e (c0 + 2) (c0 + 2) ret0 (-1)) as [[[cs x] entry] c1] eqn:EX.
    destruct (split_bexp_ids _ _ _ _ _ _ _ _ _ EX ltac:(lia)) as (X1 & _ & _ & X4 & X5). cbn in X5. subst entry.
    pose proof (split_bexp_solid _ _ _ _ _ _ _ _ _ EX ltac:(lia)) as SX.
    inversion H; subst. clear H. exists (c0 + 1)%Z. split; [reflexivity|]. split; [lia|].
    eapply Forall_impl; [intros a Ha; apply newok0_newok; exact Ha|].
    apply Forall_app. split; [eapply Forall_impl; [|exact PO]; intros a Ha; eapply newok0_ext; [apply XB|apply XO|exact Ha]|].
    apply Forall_app. split; [apply prebr_all_ok; assumption|].
    constructor; [apply BODY; lia|]. constructor; [|constructor].
    apply prebr_ok; [split; [reflexivity|split; [reflexivity|eexists; reflexivity]]|]. right. right. unfold tail_of. cbn. lia.
  - inversion H; subst. clear H. exists (c0 + 1)%Z. split; [reflexivity|]. split; [lia|].
    apply Forall_app. split; [eapply Forall_impl; [|exact PO]; intros a Ha; apply newok0_newok; eapply newok0_ext; [apply XB|apply XO|exact Ha]|].
    constructor; [apply newok0_newok; apply BODY; lia|]. constructor; [|constructor].
    split; [intros Q; discriminate Q|]. split; [|apply scok_nil; reflexivity].
    intros _. right. split; [cbn; lia|]. split; [reflexivity|].
    intros c2 Hc2 P2. apply in_app_or in Hc2. destruct Hc2 as [Hc2|[<-|[<-|[]]]].
    + exfalso. rewrite Forall_forall in PP. exact (not_prebranched_plain _ (PP c2 Hc2) P2).
    + exfalso. destruct P2 as (_ & _ & b0 & Q). discriminate Q.
    + reflexivity.
Qed.

Lemma create_dowhile_fwd tg body e cur pre rest' cn news br ret c' B O bt lt :
  cstmts cur = pre ++ SDoWhile tg body e :: rest' ->
  create_dowhile body e cur (List.length pre) cn = (news, br, ret, c') -> (0 <= cn)%Z ->
  (cid cur <= cn)%Z -> (cret cur < cid cur)%Z ->
  scoped bt lt (cstmts cur) -> okt B bt (cid cur) -> okt O lt (cid cur) ->
  ~ In tg (map fst B) -> ~ In tg (map fst O) ->
  exists X, br = BrJump X /\ (cn < X <= c')%Z /\
    Forall (newok0 ((tg, ret) :: B) ((tg, X) :: O)) news.
Proof.
  intros E H Hc L1 L2 SC KB KO NB NO. rewrite E in SC. apply scoped_app_inv in SC. destruct SC as [_ SC].
  inversion SC as [|? ? ? ? S1 SR]; subst. inversion S1 as [| | | | | |? ? ? ? ? SBD|]; subst.
  unfold create_dowhile in H.
  destruct (split_for_branch cur (List.length pre) cn) as [[post ret0] c0] eqn:ES.
  destruct (post_ok _ _ _ _ _ _ _ _ B O bt lt E ES L1 L2 SR KB KO) as (PO & PP & R0 & C0 & RR).
  assert (XB : forall v, ext B ((tg, v) :: B)) by (intros v; apply ext_cons; exact NB).
  assert (XO : forall v, ext O ((tg, v) :: O)) by (intros v; apply ext_cons; exact NO).
  destruct (split_bexp e (c0 + 2) (c0 + 2) ret0 (-1)) as [[[cs x] entry] c1] eqn:EX.
  destruct (split_bexp_ids _ _ _ _ _ _ _ _ _ EX ltac:(lia)) as (X1 & _ & _ & X4 & X5). cbn in X5. subst entry.
  pose proof (split_bexp_solid _ _ _ _ _ _ _ _ _ EX ltac:(lia)) as SX.
  inversion H; subst. clear H. exists (c0 + 2)%Z. split; [reflexivity|]. split; [lia|].
  apply Forall_app. split; [eapply Forall_impl; [|exact PO]; intros a Ha; eapply newok0_ext; [apply XB|apply XO|exact Ha]|].
  apply Forall_app. split; [apply prebr_all_ok; assumption|].
  constructor; [|constructor; [|constructor]].
  - apply (plain_mk_ok _ _ _ _ _ (Some tg) (Some tg)); [lia|exact SBD|apply okt_head; lia|apply okt_head; lia].
  - apply prebr_ok; [split; [reflexivity|split; [reflexivity|eexists; reflexivity]]|]. right. right. unfold tail_of. cbn. lia.
Qed.

(* ---------- switch ---------- *)
Lemma create_switch_fwd tg op ol cases cur pre rest' cn news br ret c' B O bt lt :
  cstmts cur = pre ++ SSwitch tg op ol cases :: rest' ->
  create_switch op ol cases cur (List.length pre) cn = (news, br, ret, c') -> (0 <= cn)%Z ->
  (cid cur <= cn)%Z -> (cret cur < cid cur)%Z ->
  scoped bt lt (cstmts cur) -> okt B bt (cid cur) -> okt O lt (cid cur) ->
  ~ In tg (map fst B) -> ~ In tg (map fst O) ->
  exists X, br = BrJump X /\ (cn < X <= c')%Z /\
    Forall (newok0 ((tg, ret) :: B) ((tg, X) :: O)) news.
Proof.
  intros E H Hc L1 L2 SC KB KO NB NO. rewrite E in SC. apply scoped_app_inv in SC. destruct SC as [_ SC].
  inversion SC as [|? ? ? ? S1 SR]; subst. inversion S1 as [| | | | | | |? ? ? ? ? ? SCS]; subst.
  unfold create_switch in H.
  destruct (split_for_branch cur (List.length pre) cn) as [[post ret0] c0] eqn:ES.
  destruct (post_ok _ _ _ _ _ _ _ _ B O bt lt E ES L1 L2 SR KB KO) as (PO & PP & R0 & C0 & RR).
  assert (XB : forall v, ext B ((tg, v) :: B)) by (intros v; apply ext_cons; exact NB).
  assert (XO : forall v, ext O ((tg, v) :: O)) by (intros v; apply ext_cons; exact NO).
  cbv zeta in H. rewrite sw_loop_suf in H. change (skipn 0 cases) with cases in H.
  match type of H with context[sw_suf ?a ?b ?c ?d] => destruct (sw_suf a b c d) as [st el] eqn:SW end.
  assert (LL : (List.length cases < S (List.length cases))%nat) by lia.
  destruct (sw_suf_news _ _ _ _ _ _ SW LL) as (ex & A1 & A2 & A3 & A4 & A5 & _). cbn in A1, A2, A3. subst ex.
  destruct (sw_suf_from _ _ _ _ _ _ SW LL) as (ex & B1 & B2). cbn in B1. subst ex.
  assert (J0 : swJ ret0 {| sw_new := []; sw_cases := []; sw_def := None; sw_counter := (c0 + 1)%Z |}).
  { unfold swJ. cbn. split; [intros x []|split; [discriminate|apply refs_nil]]. }
  destruct (sw_suf_refs ret0 _ _ _ _ _ SW J0) as (_ & _ & J3). inversion H; subst. clear H.
  exists (c0 + 1)%Z. split; [reflexivity|]. split; [lia|].
  apply Forall_app. split; [eapply Forall_impl; [|exact PO]; intros a Ha; eapply newok0_ext; [apply XB|apply XO|exact Ha]|].
  cbn [app]. constructor.
  - destruct el.
    + split; [intros _; cbn; lia|]. split; [intros (_ & _ & b0 & Q); discriminate Q|apply scok_nil; reflexivity].
    + apply prebr_ok; [split; [reflexivity|split; [reflexivity|eexists; reflexivity]]|]. right. left. exact Logic.I.
  - rewrite Forall_forall. intros c Hc'. rewrite Forall_forall in A5, B2. destruct (A5 c Hc') as [PE PB].
    assert (ID : (c0 + 1 < cid c)%Z). { unfold ids_in in A3. rewrite Forall_forall in A3. specialize (A3 c Hc'). cbn in A3. lia. }
    assert (CR : cret c = ret). { apply (J3 c Hc'). unfold targets. rewrite PB. left. reflexivity. }
    split; [intros _; lia|]. split; [intros P; exfalso; exact (not_prebranched_plain c (conj PE PB) P)|].
    destruct (B2 c Hc') as [E0|IN]; [apply scok_nil; exact E0|].
    apply in_map_iff in IN. destruct IN as (cj & EJ & HJ). exists (Some tg), lt. rewrite <- EJ.
    split; [apply (scoped_cases_in _ _ _ SCS); exact HJ|]. split; [apply okt_head; lia|].
    eapply okt_mono; [apply XO| |exact KO]. lia.
Qed.

(* ---------- break / continue ---------- *)
Lemma post_only_fwd cur pre s rest' cn post ret c0 B O bt lt :
  cstmts cur = pre ++ s :: rest' -> split_for_branch cur (List.length pre) cn = (post, ret, c0) ->
  (cid cur <= cn)%Z -> (cret cur < cid cur)%Z -> scoped bt lt (cstmts cur) -> okt B bt (cid cur) -> okt O lt (cid cur) ->
  Forall (newok0 B O) post.
Proof.
  intros E H L1 L2 SC KB KO. rewrite E in SC. apply scoped_app_inv in SC. destruct SC as [_ SC]. inversion SC; subst.
  destruct (post_ok _ _ _ _ _ _ _ _ B O bt lt E H L1 L2) as (PO & _); assumption.
Qed.

(* ---------- one step of the worklist ---------- *)
Lemma wstep_fwd w cur rest fin news c' nt :
  Worklist.Inv w -> remaining w = cur :: rest -> wstep w = SNext fin news c' nt ->
  plainchunk cur -> (cret cur < cid cur)%Z -> scok (brk w) (org w) cur ->
  Forall (newok (brk (wnext w fin news c' nt)) (org (wnext w fin news c' nt)) news (cbr fin) c') news /\
  (cbr fin = None -> (cret fin < cid fin)%Z) /\
  match cbr fin with
  | Some (BrJump X) => (counter w < X <= c')%Z
  | Some (BrBreak d) => (d <= cid cur)%Z
  | Some _ => False
  | None => True
  end.
Proof.
  intros I R H [PE PB] L2 (bt & lt & SC & KB & KO).
  destruct (wstep_inv _ _ _ _ _ _ _ I R H) as (_ & _ & _ & NT).
  pose proof (inv_keys w I) as KEYS. pose proof (inv_cnt w I) as CN.
  assert (L1 : (0 <= cid cur <= counter w)%Z).
  { pose proof (inv_range w I) as RG. rewrite R in RG. cbn [app] in RG. inversion RG; subst. assumption. }
  unfold wstep in H. rewrite R in H.
  assert (OK : okb (cstmts cur) = true) by (pose proof (inv_ok w I) as F; rewrite R in F; inversion F; assumption).
  pose proof (scan_ok (cstmts cur) 0 (List.length (cstmts cur)) eq_refl) as SCN.
  destruct (scan (cstmts cur) 0 (List.length (cstmts cur))) as [i er]. inversion SCN as [pre c e E F ER Q1|F Q1|pre s rest' E F NS Q1]; subst.
  - cbn [Nat.add] in H. inversion H; subst. clear H. cbn [cbr cret cid]. split; [constructor|]. split; [intros _; lia|exact Logic.I].
  - cbn [Nat.add] in H. rewrite Nat.eqb_refl in H. inversion H; subst. clear H. rewrite PB. split; [constructor|]. split; [intros _; exact L2|exact Logic.I].
  - cbn [Nat.add] in H.
    assert (NE : Nat.eqb (List.length pre) (List.length (cstmts cur)) = false) by (apply Nat.eqb_neq; rewrite E, app_length; cbn; lia).
    rewrite NE in H. rewrite E in H at 1. rewrite nth_error_app_here in H.
    assert (FN : firstn (List.length pre) (cstmts cur) = pre) by (rewrite E; apply firstn_app_here). rewrite FN in H.
    rewrite E in OK. apply okb_app in OK. destruct OK as [_ OK]. apply okb_cons in OK. destruct OK as (W1 & W2 & _).
    assert (S1 : scoped1 bt lt s).
    { rewrite E in SC. apply scoped_app_inv in SC. destruct SC as [_ SC]. inversion SC; subst. assumption. }
    destruct s as [c|nm g tk|conds els|tag c body|tag body c|tag|tag|tag op ol cases]; try discriminate NS.
    + destruct conds as [|[e b] more]; [apply ifok1_if in W2; congruence|].
      destruct (create_if ((e, b) :: more) els cur (List.length pre) (counter w)) as [[[news0 br] ret] c0] eqn:CR0. inversion H; subst. clear H.
      destruct (create_if_fwd _ _ _ _ _ _ _ _ _ _ _ _ (brk w) (org w) bt lt E CR0 CN ltac:(lia) L2 SC KB KO) as (NW & X & -> & XR).
      cbn [cbr wnext brk org]. split; [eapply Forall_impl; [|exact NW]; intros a Ha; apply newok0_newok; exact Ha|]. split; [intros Q; discriminate Q|exact XR].
    + destruct (create_while c body cur (List.length pre) (counter w)) as [[[news0 br] ret] c0] eqn:CR0. inversion H; subst. clear H.
      assert (NB : ~ In tag (map fst (brk w))) by (apply NT; left; reflexivity).
      assert (NO : ~ In tag (map fst (org w))) by (rewrite KEYS; exact NB).
      destruct (create_while_fwd _ _ _ _ _ _ _ _ _ _ _ (brk w) (org w) bt lt E CR0 CN ltac:(lia) L2 SC KB KO NB NO) as (X & -> & XR & NW).
      cbn [cbr wnext brk org]. split; [exact NW|]. split; [intros Q; discriminate Q|exact XR].
    + destruct (create_dowhile body c cur (List.length pre) (counter w)) as [[[news0 br] ret] c0] eqn:CR0. inversion H; subst. clear H.
      assert (NB : ~ In tag (map fst (brk w))) by (apply NT; left; reflexivity).
      assert (NO : ~ In tag (map fst (org w))) by (rewrite KEYS; exact NB).
      destruct (create_dowhile_fwd _ _ _ _ _ _ _ _ _ _ _ (brk w) (org w) bt lt E CR0 CN ltac:(lia) L2 SC KB KO NB NO) as (X & -> & XR & NW).
      cbn [cbr wnext brk org]. split; [eapply Forall_impl; [|exact NW]; intros a Ha; apply newok0_newok; exact Ha|]. split; [intros Q; discriminate Q|exact XR].
    + destruct (tm_get (brk w) tag) as [d|] eqn:TB; [|discriminate].
      destruct (split_for_branch cur (List.length pre) (counter w)) as [[post ret] c0] eqn:ES. inversion H; subst. clear H.
      pose proof (post_only_fwd _ _ _ _ _ _ _ _ (brk w) (org w) bt lt E ES ltac:(lia) L2 SC KB KO) as NW.
      cbn [cbr wnext brk org]. split; [eapply Forall_impl; [|exact NW]; intros a Ha; apply newok0_newok; exact Ha|]. split; [intros Q; discriminate Q|].
      inversion S1; subst. destruct (KB tag eq_refl) as (d' & G & D). congruence.
    + destruct (tm_get (org w) tag) as [d|] eqn:TB; [|discriminate].
      destruct (split_for_branch cur (List.length pre) (counter w)) as [[post ret] c0] eqn:ES. inversion H; subst. clear H.
      pose proof (post_only_fwd _ _ _ _ _ _ _ _ (brk w) (org w) bt lt E ES ltac:(lia) L2 SC KB KO) as NW.
      cbn [cbr wnext brk org]. split; [eapply Forall_impl; [|exact NW]; intros a Ha; apply newok0_newok; exact Ha|]. split; [intros Q; discriminate Q|].
      inversion S1; subst. destruct (KO tag eq_refl) as (d' & G & D). congruence.
    + destruct (create_switch op ol cases cur (List.length pre) (counter w)) as [[[news0 br] ret] c0] eqn:CR0. inversion H; subst. clear H.
      assert (NB : ~ In tag (map fst (brk w))) by (apply NT; left; reflexivity).
      assert (NO : ~ In tag (map fst (org w))) by (rewrite KEYS; exact NB).
      destruct (create_switch_fwd _ _ _ _ _ _ _ _ _ _ _ _ (brk w) (org w) bt lt E CR0 CN ltac:(lia) L2 SC KB KO NB NO) as (X & -> & XR & NW).
      cbn [cbr wnext brk org]. split; [eapply Forall_impl; [|exact NW]; intros a Ha; apply newok0_newok; exact Ha|]. split; [intros Q; discriminate Q|exact XR].
Qed.
(* ---------- pigeonhole: ids are dense ---------- *)
Lemma pigeon (l : list Z) lo hi :
  NoDup l -> (forall x, In x l -> (lo < x <= hi)%Z) -> Z.of_nat (List.length l) = (hi - lo)%Z ->
  forall x, (lo < x <= hi)%Z -> In x l.
Proof.
  intros ND B L x Hx.
  assert (I : incl (range (List.length l) (lo + 1)%Z) l).
  { apply NoDup_length_incl; [exact ND|rewrite range_length; lia|].
    intros y Hy. apply range_in. specialize (B y Hy). lia. }
  apply I, range_in. lia.
Qed.

Lemma news_dense cn c' news : news_ok cn c' news -> WorkShape.cnt cn c' news ->
  forall i, (cn < i <= c')%Z -> exists W, In W news /\ cid W = i.
Proof.
  intros (N1 & N2 & N3 & N4) C i Hi.
  assert (Q : In i (ids news)).
  { apply (pigeon (ids news) cn c'); [exact N3| |unfold ids; rewrite map_length; exact C|exact Hi].
    intros x Hx. exact (ids_in_In _ _ _ _ N2 Hx). }
  apply in_map_iff in Q. destruct Q as (W & E & HW). exists W. auto.
Qed.

Lemma all_dense w : Worklist.Inv w -> DInv w ->
  forall i, (0 <= i <= counter w)%Z -> exists T, In T (remaining w ++ finals w) /\ cid T = i.
Proof.
  intros I (D1 & _) i Hi.
  assert (Q : In i (ids (remaining w ++ finals w))).
  { apply (pigeon _ (-1) (counter w)); [exact (inv_nodup w I)| |unfold ids; rewrite map_length; lia|lia].
    intros x Hx. apply in_map_iff in Hx. destruct Hx as (c & <- & Hc). pose proof (inv_range w I) as RG. rewrite Forall_forall in RG.
    specialize (RG c Hc). cbn in RG. lia. }
  apply in_map_iff in Q. destruct Q as (W & E & HW). exists W. auto.
Qed.

(* ---------- the invariant ---------- *)
Definition Sol (w : wst) (W : chunk) : Prop :=
  (solidF W /\ (In W (finals w) \/ (In W (remaining w) /\ prebranched W))) \/
  (In W (remaining w) /\ plainchunk W /\ (cid W < counter w)%Z).
Definition fwdok (w : wst) (c : chunk) : Prop :=
  (tail_of c <= cid c + 1)%Z \/ exists W, Sol w W /\ (cid c < cid W < tail_of c)%Z.
Record FInv (w : wst) : Prop := {
  f_cret : forall c, In c (remaining w ++ finals w) -> cbr c = None -> (cret c < cid c)%Z;
  f_fwd : forall c, In c (remaining w ++ finals w) -> cbr c <> None -> fwdok w c;
  f_sc : Forall (scok (brk w) (org w)) (remaining w);
  f_pre : forall c, In c (remaining w) -> prebranched c -> solidF c \/ (cid c < counter w)%Z;
  f_top : forall T, In T (finals w) -> cid T = counter w -> solidF T }.

Lemma tail_plain c : cbr c = None -> tail_of c = cret c.
Proof. intros E. unfold tail_of. rewrite E. reflexivity. Qed.

Lemma wstep_finv w cur rest fin news c' nt :
  Worklist.Inv w -> RInv w -> DInv w -> FInv w -> remaining w = cur :: rest -> wstep w = SNext fin news c' nt ->
  FInv (wnext w fin news c' nt).
Proof.
  intros I (R1 & R2 & R3) DI FI R H.
  destruct (wstep_inv _ _ _ _ _ _ _ I R H) as (I1 & SF & NF & NT).
  pose proof (wstep_facts _ _ _ _ _ _ _ I R H) as [SC NOK _ _ _].
  destruct (wstep_shape _ _ _ _ _ _ _ I R H) as (CNT & _ & _).
  destruct (wstep_prov _ _ _ _ _ _ _ I R H) as [PR _].
  pose proof NOK as (N1 & N2 & N3 & N4).
  pose proof (inv_cnt w I) as CN. pose proof (inv_keys w I) as KEYS.
  pose proof (inv_range w I) as RG. rewrite Forall_forall in RG.
  set (all := remaining w ++ finals w) in *.
  assert (CURIN : In cur all) by (unfold all; rewrite R; left; reflexivity).
  assert (L1 : (0 <= cid cur <= counter w)%Z) by (specialize (RG cur CURIN); cbn in RG; lia).
  assert (FR : fresh cur) by (pose proof (inv_fresh w I) as F; rewrite R in F; inversion F; assumption).
  assert (FRR : forall c, In c rest -> fresh c).
  { pose proof (inv_fresh w I) as F; rewrite R in F; inversion F as [|? ? _ F2]; subst. rewrite Forall_forall in F2. exact F2. }
  assert (RESTIN : forall c, In c rest -> In c (remaining w)) by (intros c Hc; rewrite R; right; exact Hc).
  assert (NOTCUR : forall c, In c rest \/ In c (finals w) -> cid c <> cid cur).
  { pose proof (inv_nodup w I) as ND. rewrite R in ND. cbn [app ids map] in ND. inversion ND as [|? ? NI _]; subst.
    intros c Hc E. apply NI. rewrite <- E. apply in_map. apply in_or_app. exact Hc. }
  assert (EXB : ext (brk w) (brk (wnext w fin news c' nt))).
  { unfold wnext. cbn [brk]. destruct nt as [[[tg r] d]|]; [|apply ext_refl]. apply ext_cons. apply NT. left. reflexivity. }
  assert (EXO : ext (org w) (org (wnext w fin news c' nt))).
  { unfold wnext. cbn [org]. destruct nt as [[[tg r] d]|]; [|apply ext_refl]. apply ext_cons. rewrite KEYS. apply NT. left. reflexivity. }
  set (w' := wnext w fin news c' nt) in *.
  assert (RW : remaining w' = rest ++ news) by (unfold w', wnext; cbn [remaining]; rewrite R; reflexivity).
  assert (FW : finals w' = fin :: finals w) by exact SF.
  assert (CW : counter w' = c') by reflexivity.
  assert (OKLE : forall d, okid all d -> (d <= counter w)%Z).
  { intros d [->|Q]; [lia|]. unfold ids in Q. apply in_map_iff in Q. destruct Q as (c & <- & Hc). specialize (RG c Hc). cbn in RG. lia. }
  (* tails of the chunks of this step stay below the new counter *)
  assert (TLE : forall c, In c (fin :: news) -> (tail_of c <= c')%Z).
  { intros c Hc. destruct (PR c Hc _ (tail_in_targets c)) as [Q|[Q|[Q|[(tg & Q)|(tg & Q)]]]].
    - pose proof (ids_in_In _ _ _ _ N2 Q). lia.
    - pose proof (OKLE _ (R1 cur CURIN _ Q)). lia.
    - lia.
    - pose proof (OKLE _ (R2 _ _ Q)). lia.
    - pose proof (OKLE _ (R3 _ _ Q)). lia. }
  (* the processed chunk *)
  assert (PRE : prebranched cur -> fin = cur /\ news = [] /\ c' = counter w).
  { intros P. destruct (wstep_prebranched _ _ _ _ _ _ _ R H (proj1 P)) as (-> & -> & _). split; [reflexivity|]. split; [reflexivity|].
    unfold WorkShape.cnt in CNT. cbn in CNT. lia. }
  assert (PLAIN : plainchunk cur ->
    Forall (newok (brk w') (org w') news (cbr fin) c') news /\ (cbr fin = None -> (cret fin < cid fin)%Z) /\
    match cbr fin with Some (BrJump X) => (counter w < X <= c')%Z | Some (BrBreak d) => (d <= cid cur)%Z | Some _ => False | None => True end).
  { intros P. apply (wstep_fwd w cur rest fin news c' nt I R H P).
    - apply (f_cret w FI cur CURIN). exact (proj2 P).
    - pose proof (f_sc w FI) as F. rewrite R in F. inversion F; assumption. }
  assert (NEWOK : Forall (newok (brk w') (org w') news (cbr fin) c') news).
  { destruct FR as [P|P]; [destruct (PRE P) as (_ & -> & _); constructor|exact (proj1 (PLAIN P))]. }
  assert (FINSOL : plainchunk cur -> (cid cur < counter w \/ c' = counter w)%Z -> solidF fin).
  { intros P Q. destruct (PLAIN P) as (_ & K2 & K3). right. right. unfold tail_of. destruct (cbr fin) as [[X|d| |]|] eqn:BF; try contradiction.
    - rewrite SC. lia.
    - rewrite SC. lia.
    - specialize (K2 eq_refl). lia. }
  (* solid witnesses survive the step *)
  assert (SOLSTEP : forall W, Sol w W -> exists W', cid W' = cid W /\ Sol w' W').
  { intros W [[S [Q|[Q P]]]|(Q & P & L)].
    - exists W. split; [reflexivity|]. left. split; [exact S|]. left. rewrite FW. right. exact Q.
    - rewrite R in Q. destruct Q as [<-|Q].
      + destruct (PRE P) as (-> & _). exists cur. split; [reflexivity|]. left. split; [exact S|]. left. rewrite FW. left. reflexivity.
      + exists W. split; [reflexivity|]. left. split; [exact S|]. right. split; [rewrite RW; apply in_or_app; left; exact Q|exact P].
    - rewrite R in Q. destruct Q as [<-|Q].
      + exists fin. split; [exact SC|]. left. split; [apply FINSOL; [exact P|left; exact L]|]. left. rewrite FW. left. reflexivity.
      + exists W. split; [reflexivity|]. right. split; [rewrite RW; apply in_or_app; left; exact Q|]. split; [exact P|rewrite CW; lia]. }
  assert (FWDSTEP : forall c, fwdok w c -> fwdok w' c).
  { intros c [Q|(W & S & L)]; [left; exact Q|]. destruct (SOLSTEP W S) as (W' & E & S'). right. exists W'. split; [exact S'|]. rewrite E. exact L. }
  (* a new chunk that is plain or solid is a witness *)
  assert (NEWSOL : forall W, In W news -> (cid W < c')%Z -> (prebranched W -> cbr fin <> Some (BrJump (cid W)) \/ exists c, In c news /\ prebranched c /\ c <> W) -> Sol w' W).
  { intros W HW L EX. rewrite Forall_forall in N4, NEWOK. destruct (N4 W HW) as [P|P].
    - destruct (NEWOK W HW) as (_ & A2 & _). destruct (A2 P) as [S|(_ & E1 & E2)].
      + left. split; [exact S|]. right. split; [rewrite RW; apply in_or_app; right; exact HW|exact P].
      + exfalso. destruct (EX P) as [Q|(c & Hc & Pc & Q)]; [exact (Q E1)|exact (Q (E2 c Hc Pc))].
    - right. split; [rewrite RW; apply in_or_app; right; exact HW|]. split; [exact P|rewrite CW; exact L]. }
  constructor.
  - (* f_cret *)
    intros c Hc PB. rewrite RW, FW in Hc. rewrite <- app_assoc in Hc. apply in_app_or in Hc. destruct Hc as [Hc|Hc].
    + apply (f_cret w FI c); [unfold all; rewrite R; right; apply in_or_app; left; exact Hc|exact PB].
    + apply in_app_or in Hc. destruct Hc as [Hc|[<-|Hc]].
      * rewrite Forall_forall in NEWOK. exact (proj1 (NEWOK c Hc) PB).
      * destruct FR as [P|P]; [destruct (PRE P) as (-> & _); destruct P as (_ & _ & b & Q); congruence|exact (proj1 (proj2 (PLAIN P)) PB)].
      * apply (f_cret w FI c); [unfold all; apply in_or_app; right; exact Hc|exact PB].
  - (* f_fwd *)
    intros c Hc PB. rewrite RW, FW in Hc. rewrite <- app_assoc in Hc. apply in_app_or in Hc. destruct Hc as [Hc|Hc].
    + apply FWDSTEP. apply (f_fwd w FI c); [unfold all; rewrite R; right; apply in_or_app; left; exact Hc|exact PB].
    + apply in_app_or in Hc. destruct Hc as [Hc|[<-|Hc]].
      * (* a new pre-branched chunk *)
        assert (P : prebranched c). { rewrite Forall_forall in N4. destruct (N4 c Hc) as [P|[_ P]]; [exact P|congruence]. }
        pose proof (TLE c (or_intror Hc)) as TL. pose proof (ids_in_In _ _ _ _ N2 (in_map cid _ _ Hc)) as IC.
        destruct (Z_le_gt_dec (tail_of c) (cid c + 1)) as [Q|Q]; [left; exact Q|]. right.
        destruct (news_dense _ _ _ NOK CNT (cid c + 1)%Z ltac:(lia)) as (W & HW & EW).
        exists W. split; [|lia]. apply NEWSOL; [exact HW|lia|]. intros _. right. exists c. split; [exact Hc|]. split; [exact P|]. intros ->. lia.
      * (* the processed chunk *)
        destruct FR as [P|P].
        -- destruct (PRE P) as (-> & _). apply FWDSTEP. apply (f_fwd w FI cur CURIN PB).
        -- destruct (PLAIN P) as (_ & _ & K3). unfold fwdok. unfold tail_of. destruct (cbr fin) as [[X|d| |]|] eqn:BF; try contradiction; try congruence.
           2:{ left. rewrite SC. lia. }
           rewrite SC. destruct (Z_le_gt_dec X (cid cur + 1)) as [Q|Q]; [left; exact Q|]. right.
           destruct (Z.eq_dec X (counter w + 1)) as [EX|NX].
           ++ (* the jump goes to the first new chunk: the newest old chunk lies in between *)
              destruct (all_dense w I DI (counter w) ltac:(lia)) as (T & HT & ET). fold all in HT.
              unfold all in HT. rewrite R in HT. destruct HT as [<-|HT]; [lia|].
              apply in_app_or in HT. destruct HT as [HT|HT].
              ** exists T. split; [|lia]. destruct (FRR T HT) as [PT|PT].
                 --- destruct (f_pre w FI T (RESTIN T HT) PT) as [S|S]; [|lia]. left. split; [exact S|]. right. split; [rewrite RW; apply in_or_app; left; exact HT|exact PT].
                 --- right. split; [rewrite RW; apply in_or_app; left; exact HT|]. split; [exact PT|rewrite CW; lia].
              ** exists T. split; [|lia]. left. split; [exact (f_top w FI T HT ET)|]. left. rewrite FW. right. exact HT.
           ++ (* otherwise the first new chunk does *)
              destruct (news_dense _ _ _ NOK CNT (counter w + 1)%Z ltac:(lia)) as (W & HW & EW).
              exists W. split; [|lia]. apply NEWSOL; [exact HW|lia|]. intros _. left. intros Q'. inversion Q'. lia.
      * apply FWDSTEP. apply (f_fwd w FI c); [unfold all; apply in_or_app; right; exact Hc|exact PB].
  - (* f_sc *)
    rewrite RW. apply Forall_app. split.
    + pose proof (f_sc w FI) as F. rewrite R in F. apply Forall_inv_tail in F. eapply Forall_impl; [|exact F].
      intros c Sc. eapply scok_ext; [exact EXB|exact EXO|exact Sc].
    + eapply Forall_impl; [|exact NEWOK]. intros c (_ & _ & S). exact S.
  - (* f_pre *)
    intros c Hc P. rewrite RW in Hc. apply in_app_or in Hc. destruct Hc as [Hc|Hc].
    + destruct (f_pre w FI c (RESTIN c Hc) P) as [S|S]; [left; exact S|right; rewrite CW; lia].
    + rewrite Forall_forall in NEWOK. destruct (NEWOK c Hc) as (_ & A2 & _). destruct (A2 P) as [S|(L & _)]; [left; exact S|right; rewrite CW; exact L].
  - (* f_top *)
    intros T HT ET. rewrite FW in HT. rewrite CW in ET. destruct HT as [<-|HT].
    + rewrite SC in ET. destruct FR as [P|P].
      * destruct (PRE P) as (-> & _ & EC). destruct (f_pre w FI cur ltac:(rewrite R; left; reflexivity) P) as [S|S]; [exact S|lia].
      * apply FINSOL; [exact P|]. right. lia.
    + apply (f_top w FI T HT). specialize (RG T ltac:(unfold all; apply in_or_app; right; exact HT)). cbn in RG. lia.
Qed.

Theorem work_finv : forall f w w', Worklist.Inv w -> RInv w -> DInv w -> FInv w -> work f w = Ok w' -> FInv w'.
Proof.
  induction f as [|f IH]; intros w w' I RI DI FI H; [discriminate|]. rewrite work_S in H.
  destruct (wstep w) as [|fin news c' nt| |] eqn:WS; try discriminate.
  - inversion H; subst. exact FI.
  - destruct (remaining w) as [|cur rest] eqn:R; [unfold wstep in WS; rewrite R in WS; discriminate|].
    destruct (wstep_inv _ _ _ _ _ _ _ I R WS) as (I1 & _).
    eapply IH; [exact I1| | | |exact H]; [eapply wstep_rinv; eassumption|eapply wstep_dinv; eassumption|eapply wstep_finv; eassumption].
Qed.

(* THE GRAPH LEMMA: in the chunk graph of a well-scoped body, between a chunk and a fall-through successor with a larger,
   non-adjacent id there is a solid chunk *)
Local Opaque work_fuel work.
Theorem forward_tail_crosses_a_solid_chunk body w :
  emit_graph body = Ok w -> src_ok body -> scoped None None body ->
  forall c, In c (finals w) ->
    (tail_of c <= cid c + 1)%Z \/ exists W, In W (finals w) /\ solidF W /\ (cid c < cid W < tail_of c)%Z.
Proof.
  intros H [OK ND] SCP c Hc. unfold emit_graph in H.
  set (w0 := {| remaining := [mk 0 (-1) body None]; finals := []; counter := 0; brk := []; org := [] |}) in H.
  assert (I0 : Worklist.Inv w0).
  { constructor; cbn.
    - lia.
    - repeat constructor. intros [].
    - repeat constructor; cbn; lia.
    - constructor; [right; split; reflexivity|constructor].
    - constructor; [exact OK|constructor].
    - unfold tags_rem. cbn. rewrite !app_nil_r. exact ND.
    - reflexivity. }
  assert (R0 : RInv w0).
  { unfold RInv. cbn. split; [|split; intros tg x Hx; discriminate]. apply refs_cons; [|apply refs_nil]. cbn. intros x [<-|[]]. left. reflexivity. }
  assert (D0 : DInv w0). { unfold DInv. cbn. split; [reflexivity|]. intros c0 [<-|[]] d []. }
  assert (F0 : FInv w0).
  { constructor; cbn.
    - intros c0 [<-|[]] _. cbn. lia.
    - intros c0 [<-|[]] Q. cbn in Q. congruence.
    - constructor; [|constructor]. exists None, None. split; [exact SCP|split; apply okt_none].
    - intros c0 [<-|[]] (_ & _ & b & Q). discriminate Q.
    - intros T []. }
  destruct (work_establishes_obligations _ _ _ I0 H) as (I' & RE & _).
  pose proof (work_finv _ _ _ I0 R0 D0 F0 H) as FI.
  assert (Hc' : In c (remaining w ++ finals w)) by (rewrite RE; exact Hc).
  destruct (cbr c) as [b|] eqn:PB.
  - destruct (f_fwd w FI c Hc' ltac:(congruence)) as [Q|(W & S & L)]; [left; exact Q|]. right. exists W.
    destruct S as [[S [Q|[Q _]]]|(Q & _)]; [|rewrite RE in Q; destruct Q|rewrite RE in Q; destruct Q]. auto.
  - left. rewrite (tail_plain c PB). pose proof (f_cret w FI c Hc' PB). lia.
Qed.
(* ================================================================================================================== *)
(* Part 3: the rendered code in ascending order                                                                        *)
(* ================================================================================================================== *)
Lemma not_skip_in x l : In x l -> ~ skip x -> ~ Forall skip l.
Proof. intros I N F. rewrite Forall_forall in F. exact (N (F x I)). Qed.

Lemma skip_dec i : skip i \/ ~ skip i.
Proof.
  destruct i; try (right; intros [Q|(k & Q)]; discriminate Q).
  - left. right. eexists. reflexivity.
  - left. left. reflexivity.
Qed.

Lemma skip_split (l : list instr) : Forall skip l \/ exists s x r, l = s ++ x :: r /\ Forall skip s /\ ~ skip x.
Proof.
  induction l as [|i l IH]; [left; constructor|].
  destruct (skip_dec i) as [S|N].
  - destruct IH as [F|(s & x & r & -> & F & N)]; [left; constructor; assumption|].
    right. exists (i :: s), x, r. split; [reflexivity|]. split; [constructor; assumption|exact N].
  - right. exists [], i, l. split; [reflexivity|]. split; [constructor|exact N].
Qed.

Lemma skip_prefix (a : list instr) : forall rest mid y post,
  Forall skip a -> ~ skip y -> a ++ rest = mid ++ y :: post -> exists mid', mid = a ++ mid' /\ rest = mid' ++ y :: post.
Proof.
  induction a as [|a0 a IH]; intros rest mid y post F N E; cbn [app] in E.
  - exists mid. split; [reflexivity|exact E].
  - inversion F as [|? ? F1 F2]; subst. destruct mid as [|m0 mid]; cbn [app] in E.
    + inversion E; subst. contradiction.
    + inversion E as [[E0 E1]]. destruct (IH _ _ _ _ F2 N E1) as (mid' & -> & R). exists mid'. split; [reflexivity|exact R].
Qed.

Section ASC.
Variable mp : option text.
Variable name : text.
Variable glob : bool.
Variable G : list chunk.
Variable regs : list Z.
Notation blocks := (blocks mp name glob G regs).
Notation block_of := (block_of mp name glob G regs).

(* the first label line of a run of blocks in ascending order: the blocks before its block consist of blank lines and markers *)
Lemma first_label_ascending L g : forall k a nx mid post,
  blocks (range k a) nx = mid ++ ILabel L g :: post -> Forall skip mid ->
  exists j nx', (a <= j < a + Z.of_nat k)%Z /\ (forall i, (a <= i < j)%Z -> Forall skip (block_of i (i + 1))) /\
    In (ILabel L g) (block_of j nx').
Proof.
  assert (NL : ~ skip (ILabel L g)) by (intros [Q|(n & Q)]; discriminate Q).
  induction k as [|k IH]; intros a nx mid post E SK.
  - cbn in E. destruct mid; discriminate E.
  - cbn [range RenderSim.blocks] in E. set (B := block_of a (hd nx (range k (a + 1)))) in *.
    destruct (skip_split B) as [F|(s & x & r & EB & F & N)].
    + destruct (skip_prefix _ _ _ _ _ F NL E) as (mid' & -> & E').
      apply Forall_app in SK. destruct SK as [_ SK'].
      destruct (IH _ _ _ _ E' SK') as (j & nx' & J1 & J2 & J3).
      exists j, nx'. split; [lia|]. split; [|exact J3].
      intros i Hi. destruct (Z.eq_dec i a) as [->|NE]; [|apply J2; lia].
      destruct k as [|k']; [cbn in E'; destruct mid'; discriminate E'|]. exact F.
    + rewrite EB, <- app_assoc in E. cbn [app] in E.
      destruct (first_nonskip _ _ _ _ _ _ F SK N NL E) as (_ & -> & _).
      exists a, (hd nx (range k (a + 1))). split; [lia|]. split; [intros i Hi; lia|]. fold B. rewrite EB. apply in_or_app. right. left. reflexivity.
Qed.

Lemma range_split_at : forall n a l1 d l2, range n a = l1 ++ d :: l2 ->
  d = (a + Z.of_nat (List.length l1))%Z /\ l2 = range (List.length l2) (d + 1).
Proof.
  induction n as [|n IH]; intros a l1 d l2 E; cbn [range] in E.
  - destruct l1; discriminate E.
  - destruct l1 as [|x l1]; cbn [app] in E.
    + inversion E; subst. split; [cbn; lia|]. rewrite range_length. reflexivity.
    + inversion E as [[E0 E1]]. destruct (IH _ _ _ _ E1) as [-> Q]. split; [cbn [List.length]; lia|exact Q].
Qed.

(* the block of a solid chunk is not made of blank lines and markers only *)
Lemma solid_block W : get_chunk G (cid W) = Some W -> Forall simple (cstmts W) -> solidF W ->
  ~ Forall skip (block_of (cid W) (cid W + 1)).
Proof.
  intros GC SM S F. unfold RenderSim.block_of in F. rewrite GC in F. apply Forall_app in F. destruct F as [_ F].
  unfold RenderSim.body_of in F. destruct (render_branch mp name W (cid W + 1)) as [[b rg] fall] eqn:EB.
  apply Forall_app in F. destruct F as [F1 F2]. apply Forall_app in F2. destruct F2 as [F2 _].
  assert (NC : forall c, ~ skip (ICmd c)) by (intros c [Q|(k & Q)]; discriminate Q).
  assert (NLB : forall n g, ~ skip (ILabel n g)) by (intros n g [Q|(k & Q)]; discriminate Q).
  destruct (cstmts W) as [|s ss] eqn:CS.
  - (* no statements: the branch part *)
    assert (NB : ~ Forall skip b); [|exact (NB F2)]. clear F1 F2.
    unfold render_branch in EB. unfold solidF, condbr, tail_of in S. rewrite CS in S.
    destruct (cbr W) as [[d|d|l tr fa|op ol cases def dest]|].
    + unfold goto_or_fall in EB. cbn [andb] in EB. destruct (Z.eqb_spec d (cid W + 1)) as [Q|Q]; [destruct S as [S|[[]|S]]; congruence|].
      inversion EB; subst. apply (not_skip_in (IGoto (lbl name d))); [left; reflexivity|intros [K|(k & K)]; discriminate K].
    + unfold goto_or_fall in EB. cbn [andb] in EB. destruct (Z.eqb_spec d (-1)) as [Q1|Q1].
      { inversion EB; subst. apply (not_skip_in IReturn); [left; reflexivity|intros [K|(k & K)]; discriminate K]. }
      destruct (Z.eqb_spec d (cid W + 1)) as [Q|Q]; [destruct S as [S|[[]|S]]; congruence|].
      inversion EB; subst. apply (not_skip_in (IGoto (lbl name d))); [left; reflexivity|intros [K|(k & K)]; discriminate K].
    + destruct (goto_or_fall name fa (cid W + 1) true) as [[x rg'] fall']. inversion EB; subst.
      unfold render_leaf_cmp. destruct (lk l).
      * eapply not_skip_in; [apply in_or_app; right; apply in_or_app; right; left; reflexivity|]. destruct (flag_truthy l); intros [K|(k & K)]; discriminate K.
      * eapply not_skip_in; [apply in_or_app; right; apply in_or_app; right; left; reflexivity|]. intros [K|(k & K)]; discriminate K.
      * eapply not_skip_in; [apply in_or_app; right; apply in_or_app; right; left; reflexivity|]. intros [K|(k & K)]; discriminate K.
    + assert (IS : forall r, In (ISwitch op) ((marker mp ol ++ [ISwitch op]) ++ r)).
      { intros r. apply in_or_app. left. apply in_or_app. right. left. reflexivity. }
      assert (NS : ~ skip (ISwitch op)) by (intros [K|(k & K)]; discriminate K).
      destruct def as [dd|].
      * destruct (Z.eqb dd (cid W + 1)); inversion EB; subst; (eapply not_skip_in; [apply IS|exact NS]).
      * destruct (Z.eqb dest (cid W + 1)); [inversion EB; subst; eapply not_skip_in; [apply IS|exact NS]|].
        destruct (Z.eqb dest (-1)); inversion EB; subst; (eapply not_skip_in; [apply IS|exact NS]).
    + destruct (Z.eqb_spec (cret W) (-1)) as [Q1|Q1].
      { inversion EB; subst. eapply not_skip_in; [left; reflexivity|]. destruct (cend W); intros [K|(k & K)]; discriminate K. }
      destruct (Z.eqb_spec (cret W) (cid W + 1)) as [Q|Q]; [destruct S as [S|[[]|S]]; congruence|].
      inversion EB; subst. apply (not_skip_in (IGoto (lbl name (cret W)))); [left; reflexivity|intros [K|(k & K)]; discriminate K].
  - (* a statement *)
    inversion SM as [|? ? S1 _]; subst. cbn [flat_map] in F1. apply Forall_app in F1. destruct F1 as [F1 _].
    destruct s as [c0|n0 g0 tk0| | | | | | ]; try discriminate S1; cbn [render_stmt] in F1; apply Forall_app in F1; destruct F1 as [_ F1]; inversion F1; subst.
    + eapply NC; eassumption.
    + eapply NLB; eassumption.
Qed.
End ASC.

Section NOGOTO.
Variable mp : option text.
Variable tl : list text.
Variable name : text.
Variable glob : bool.
Variable body : list stmt.
Variable w : wst.
Hypothesis HW : emit_graph body = Ok w.
Hypothesis HS : src_ok body.
Hypothesis HSC : scoped None None body.
Hypothesis SZ : (Z.of_nat (List.length (finals w)) <= 10 ^ 40)%Z.
Let G := finals w.

Theorem no_goto_to_next_label_unoptimized_sec code :
  emit_script mp tl name glob false body = Ok code ->
  forall pre l mid g post, code = pre ++ IGoto l :: mid ++ ILabel l g :: post -> Forall skip mid -> False.
Proof.
  intros H pre l mid g post E SK. destruct (script_code mp tl name glob body w HW false code H) as (RC & C & _). fold G in RC, C.
  set (regs := all_regs mp name G (order_of false G) (-1)) in *.
  rewrite C in E.
  destruct (blocks_split _ _ _ _ _ _ _ _ _ _ E) as (l1 & d & l2 & bpre & bpost & ORD & B & _ & E2). symmetry in E2.
  assert (Hd : In d (order_of false G)) by (rewrite ORD; apply in_or_app; right; left; reflexivity).
  destruct (G_order_chunk body w HW HS false d Hd) as (c & GC & Hc & CID & _). fold G in GC, Hc.
  destruct (goto_in_block _ _ _ _ _ _ _ _ _ _ _ GC B) as (-> & -> & NX & RE).
  destruct (goto_target_real body w HW HS c Hc RE) as [XP XI]. fold G in XI. set (X := tail_of c) in *.
  assert (NSL : forall n gg, ~ skip (ILabel n gg)) by (intros n gg [Q|(k & Q)]; discriminate Q).
  (* the chunks rendered after d are d+1, d+2, ... *)
  unfold order_of in ORD. destruct (range_split_at _ _ _ _ _ ORD) as [_ L2].
  destruct mid as [|m0 mid']; cbn [app] in E2; [discriminate E2|]. inversion E2 as [[E0 E3]]. subst m0.
  apply Forall_inv_tail in SK. rename SK into SK'. rewrite L2 in E3.
  destruct (first_label_ascending mp name glob G regs _ _ _ _ _ _ _ E3 SK') as (j & nx' & J1 & J2 & J3).
  assert (Hj : In j (order_of false G)).
  { unfold order_of. rewrite ORD. apply in_or_app. right. right. rewrite L2. apply range_in. exact J1. }
  destruct (G_order_chunk body w HW HS false j Hj) as (cj & GJ & Hcj & CIDJ & _). fold G in GJ, Hcj.
  (* the label line is the header of chunk X *)
  assert (JX : j = X).
  { unfold RenderSim.block_of in J3. rewrite GJ in J3. apply in_app_or in J3. destruct J3 as [J3|J3].
    - unfold RenderSim.labelpart in J3. destruct (Z.eqb_spec j 0) as [Z0|Z0].
      + destruct J3 as [J3|[]]. inversion J3 as [[Q1 Q2]]. exfalso. symmetry in Q1. exact (lbl_ne_name _ _ Q1).
      + destruct (zmem j regs); [|destruct J3]. destruct J3 as [J3|[]]. inversion J3 as [[Q1]].
        apply (lbl_inj name); [apply (id_bound body w HW HS SZ); rewrite <- CIDJ; apply in_map; exact Hcj|apply (id_bound body w HW HS SZ); exact XI|exact Q1].
    - exfalso. assert (UL : In (lbl name X, g) (user_labels (cstmts cj))).
      { rewrite <- (labels_body_of mp name cj nx'). unfold labels_of. apply in_flat_map. exists (ILabel (lbl name X) g). split; [exact J3|left; reflexivity]. }
      apply (user_label_not_chunk_label mp tl name glob body w HW HS false code cj (lbl name X) RC Hcj).
      + apply in_map_iff. exists (lbl name X, g). split; [reflexivity|exact UL].
      + destruct (G_id_chunk body w HW HS X XI) as (cx & _ & HX & CX). fold G in HX.
        apply in_map_iff. exists cx. split; [|exact HX]. unfold chunk_label. rewrite CX. destruct (Z.eqb_spec X 0); [lia|reflexivity]. }
  (* so every block between d and X is made of blank lines and markers, but one of these chunks is solid *)
  assert (HDL : hd (-1)%Z l2 = (d + 1)%Z).
  { destruct l2 as [|x l2']; [cbn in J1; lia|]. cbn [List.length range] in L2. inversion L2 as [[Q1 Q2]]. reflexivity. }
  rewrite HDL in NX.
  destruct (forward_tail_crosses_a_solid_chunk body w HW HS HSC c Hc) as [Q|(W & HWi & SW & LW)].
  - rewrite CID in Q. lia.
  - rewrite CID in LW. fold G in HWi.
    assert (GW : get_chunk G (cid W) = Some W) by (apply get_chunk_nodup; [exact (G_nodup body w HW HS)|exact HWi]).
    pose proof (proj2 (graph_scoped_labels_are_source_labels body w HW HS)) as SF. fold G in SF. rewrite Forall_forall in SF.
    apply (solid_block mp name glob G regs W GW (SF W HWi) SW). apply J2. lia.
Qed.
End NOGOTO.

(* THEOREM (c2), -optimize off: in the code of a script with a well-scoped body no generated goto is followed - blank lines
   and line markers aside - by the definition of its own label *)
Theorem no_goto_to_next_label_unoptimized mp tl name glob body w code :
  emit_graph body = Ok w -> src_ok body -> scoped None None body ->
  (Z.of_nat (List.length (finals w)) <= 10 ^ 40)%Z ->         (* decimal printing of chunk ids in the model has 40 digits *)
  emit_script mp tl name glob false body = Ok code ->
  forall pre l mid g post, code = pre ++ IGoto l :: mid ++ ILabel l g :: post -> Forall skip mid -> False.
Proof. intros HW HS HSC SZ. exact (no_goto_to_next_label_unoptimized_sec mp tl name glob body w HW HS HSC SZ code). Qed.

(* THEOREM (c2), either setting *)
Theorem no_goto_to_next_label mp tl name glob body w opt code :
  emit_graph body = Ok w -> src_ok body -> scoped None None body ->
  (Z.of_nat (List.length (finals w)) <= 10 ^ 40)%Z ->
  emit_script mp tl name glob opt body = Ok code ->
  forall pre l mid g post, code = pre ++ IGoto l :: mid ++ ILabel l g :: post -> Forall skip mid -> False.
Proof.
  intros HW HS HSC SZ H pre l mid g post E SK. destruct opt.
  - exact (no_goto_to_a_later_label_optimized mp tl name glob body w code HW HS SZ H pre l mid g post E).
  - exact (no_goto_to_next_label_unoptimized mp tl name glob body w code HW HS HSC SZ H pre l mid g post E SK).
Qed.
(* ================================================================================================================== *)
(* Part 4: the label lines of a script; accepted programs                                                              *)
(* ================================================================================================================== *)
Lemma in_labels_of n g is : In (ILabel n g) is <-> In (n, g) (labels_of is).
Proof.
  unfold labels_of. rewrite in_flat_map. split.
  - intros H. exists (ILabel n g). split; [exact H|left; reflexivity].
  - intros (x & Hx & Q). destruct x; try (destruct Q; fail). destruct Q as [Q|[]]. inversion Q; subst. exact Hx.
Qed.

(* what a script segment must satisfy: (c2) no generated goto is followed - blank lines and line markers aside - by the
   definition of its own label; (d) every label line is the label of the script, a label statement the author wrote in the
   body, or a generated sub-label name_i (i > 0) that a jump line of the same segment targets *)
Definition label_lines_accounted (name : text) (glob : bool) (body : list stmt) (seg : list instr) : Prop :=
  forall n' g', In (ILabel n' g') seg ->
    (n', g') = (name, glob) \/ In (n', g') (slabs body) \/
    exists i, (0 < i)%Z /\ n' = lbl name i /\ g' = false /\ In n' (targets_of seg).
Definition no_goto_to_next (seg : list instr) : Prop :=
  forall pre l mid g post, seg = pre ++ IGoto l :: mid ++ ILabel l g :: post -> Forall skip mid -> False.

(* THEOREM (d), one script, either setting *)
Theorem script_label_lines mp tl name glob body w opt code :
  emit_graph body = Ok w -> src_ok body ->
  emit_script mp tl name glob opt body = Ok code -> label_lines_accounted name glob body code.
Proof.
  intros HW HS H n' g' IN. destruct (script_labels mp tl name glob body w HW HS opt code H) as (gen & P & _ & GT).
  apply in_labels_of in IN. apply (Permutation_in _ P) in IN. destruct IN as [Q|IN]; [left; symmetry; exact Q|].
  apply in_app_or in IN. destruct IN as [IN|IN]; [right; left; exact IN|]. right. right.
  apply in_map_iff in IN. destruct IN as (i & Q & Hi). inversion Q; subst. destruct (GT i Hi) as [R T].
  exists i. split; [lia|]. split; [reflexivity|]. split; [reflexivity|exact T].
Qed.

(* ---------- every accepted program ---------- *)
From Pory Require Import Parser Format ProgWf ProgSrc.

Lemma Forall2_strengthen {A B} (R Q : A -> B -> Prop) l l' :
  Forall2 R l l' -> (forall x y, In x l -> R x y -> Q x y) -> Forall2 Q l l'.
Proof.
  induction 1 as [|x y l l' HR _ IH]; intros HQ; [constructor|].
  constructor; [apply HQ; [left; reflexivity|exact HR]|]. apply IH. intros a b Ha. apply HQ. right. exact Ha.
Qed.

(* a piece of the layout of a program and the code segment emitted for it *)
Definition segment_ok (mp : option text) (tl : list text) (opt : bool) (pc : piece) (seg : list instr) : Prop :=
  match pc with
  | PData is => seg = is
  | PScript n g b => emit_script mp tl n g opt b = Emitter.Ok seg /\ no_goto_to_next seg /\ label_lines_accounted n g b seg
  end.

Section FROM_SOURCE.
Variables (hl hd hs : N -> bool) (autovars : list (text * autovar)) (switches : list (text * text)) (ee : bool)
          (fc : fontcfg) (cli_font : text) (cli_maxlen : Z) (src : text) (p : program).
Hypothesis HP : parse_program autovars switches ee (parse_format fc cli_font cli_maxlen ee) (lex hl hd hs src) = Parser.Ok p.

Lemma accepted_body body : In body (bodies_of (tops p)) -> src_ok body /\ scoped None None body.
Proof.
  intros HB. pose proof (accepted_bodies_are_src_ok hl hd hs autovars switches ee fc cli_font cli_maxlen src p HP) as A.
  rewrite Forall_forall in A. exact (A body HB).
Qed.

(* THEOREM (c2), every script body of every accepted program, BOTH settings *)
Theorem no_goto_to_next_label_from_source body mp tl name glob w opt code :
  In body (bodies_of (tops p)) -> emit_graph body = Emitter.Ok w ->
  (Z.of_nat (List.length (finals w)) <= 10 ^ 40)%Z ->
  emit_script mp tl name glob opt body = Emitter.Ok code ->
  forall pre l mid g post, code = pre ++ IGoto l :: mid ++ ILabel l g :: post -> Forall skip mid -> False.
Proof.
  intros HB HW SZ. destruct (accepted_body body HB) as [HS HSC].
  exact (no_goto_to_next_label mp tl name glob body w opt code HW HS HSC SZ).
Qed.

(* THEOREM (d), every script body of every accepted program, both settings *)
Theorem script_label_lines_from_source body mp tl name glob opt code :
  In body (bodies_of (tops p)) ->
  emit_script mp tl name glob opt body = Emitter.Ok code -> label_lines_accounted name glob body code.
Proof.
  intros HB H. destruct (accepted_body body HB) as [HS _].
  destruct (emit_graph body) as [w| | | |] eqn:HW; try (rewrite emit_script_eq, HW in H; discriminate H).
  exact (script_label_lines mp tl name glob body w opt code HW HS H).
Qed.

(* THEOREM (c2) + (d), the final code of every accepted program, both settings: the code is the concatenation of the segments
   of the pieces of the layout (OptimSame.program_pieces; data pieces are emitted as they are and contain no goto - see
   data_pieces_have_no_goto); in every script segment no generated goto is followed by its own label and every label line is
   accounted for (the script label, an author's label, or a sub-label targeted by a jump of the same segment, hence of the
   program) *)
Theorem program_segments_ok opt mp code :
  (forall body w, In body (bodies_of (tops p)) -> emit_graph body = Emitter.Ok w -> (Z.of_nat (List.length (finals w)) <= 10 ^ 40)%Z) ->
  emit_program_instrs opt mp p = Emitter.Ok code ->
  exists segs : list (list instr),
    Forall2 (segment_ok mp (map xname (texts p)) opt) (program_pieces mp p) segs /\ code = List.concat segs.
Proof.
  intros SZ H. apply program_layout in H. destruct H as (codes & F & ->). exists codes. split; [|reflexivity].
  apply (Forall2_strengthen _ (segment_ok mp (map xname (texts p)) opt) _ _ F).
  intros pc seg Hpc RZ. destruct pc as [is|n g b]; unfold realizes in RZ; unfold segment_ok; [exact RZ|].
  destruct (script_pieces_are_program_bodies mp p n g b Hpc) as [_ HB]. split; [exact RZ|]. split.
  - destruct (emit_graph b) as [w| | | |] eqn:HW; try (rewrite emit_script_eq, HW in RZ; discriminate RZ).
      intros pre l mid g0 post. exact (no_goto_to_next_label_from_source b mp _ n g w opt seg HB HW (SZ b w HB HW) RZ pre l mid g0 post).
  - exact (script_label_lines_from_source b mp _ n g opt seg HB RZ).
Qed.
End FROM_SOURCE.

(* ---------- the data pieces of the layout contain no goto line ---------- *)
Lemma nog_flat_map {A} (f : A -> list instr) l : (forall x, nog (f x)) -> nog (flat_map f l).
Proof. intros H. induction l as [|x r IH]; [reflexivity|]. cbn [flat_map]. apply nog_app. split; [apply H|exact IH]. Qed.
Lemma nog_cons i l : isgoto i = false -> nog l -> nog (i :: l).
Proof. intros E N. unfold nog in *. cbn [forallb]. rewrite E, N. reflexivity. Qed.
Lemma nog_map {A} (f : A -> instr) l : (forall x, isgoto (f x) = false) -> nog (map f l).
Proof. intros H. induction l as [|x r IH]; [reflexivity|]. cbn [map]. apply nog_cons; [apply H|exact IH]. Qed.

Definition data_nog (ps : list piece) : Prop := forall is, In (PData is) ps -> nog is.
Lemma data_nog_app a b : data_nog a -> data_nog b -> data_nog (a ++ b).
Proof. intros A B is I. apply in_app_or in I. destruct I; auto. Qed.
Lemma data_nog_scripts l : data_nog (scripts_pieces l).
Proof.
  intros is I. unfold scripts_pieces in I. apply in_flat_map in I. destruct I as (nb & _ & I). destruct (snd nb); [destruct I as [Q|[]]; discriminate Q|destruct I].
Qed.
Lemma data_nog_one is : nog is -> data_nog [PData is].
Proof. intros N is' [Q|[]]. inversion Q; subst. exact N. Qed.

Lemma nog_emit_steps mp : forall steps, nog (emit_steps mp steps).
Proof.
  induction steps as [|s r IH]; cbn [emit_steps]; [reflexivity|].
  apply nog_app. split; [apply nog_marker|]. apply nog_app. split; [reflexivity|]. destruct (text_eqb (tlit s) (t "step_end")); [reflexivity|exact IH].
Qed.
Lemma nog_emit_items mp : forall items itoks, nog (emit_items mp items itoks).
Proof.
  induction items as [|i r IH]; intros [|tk rt]; cbn [emit_items]; try reflexivity.
  destruct (text_eqb i (t "ITEM_NONE")); [reflexivity|]. apply nog_app. split; [apply nog_marker|]. apply nog_app. split; [reflexivity|apply IH].
Qed.
Lemma nog_emit_raw_lines mp : forall lines line, nog (emit_raw_lines mp lines line).
Proof.
  induction lines as [|l r IH]; intros line; cbn [emit_raw_lines]; [reflexivity|].
  apply nog_app. split; [apply nog_marker|]. apply nog_app. split; [reflexivity|apply IH].
Qed.
Lemma nog_emit_texts mp : forall l k, nog (emit_texts mp l k).
Proof.
  induction l as [|x r IH]; intros k; cbn [emit_texts]; [reflexivity|].
  apply nog_app. split; [destruct k; reflexivity|]. apply nog_app. split; [|apply IH].
  unfold emit_text. apply nog_app. split; [reflexivity|]. apply nog_app. split; [apply nog_marker|]. apply nog_map. reflexivity.
Qed.

Lemma data_nog_top mp tp ps : top_pieces mp tp = Some ps -> data_nog ps.
Proof.
  destruct tp as [n g b|v ln| |n g tk steps|n g tk items itoks|n g plain tables]; cbn [top_pieces]; intros H; inversion H; subst; clear H.
  - intros is [Q|[]]. discriminate Q.
  - apply data_nog_one. apply nog_emit_raw_lines.
  - apply data_nog_one. unfold emit_movement. apply nog_app. split; [apply nog_marker|]. apply nog_app. split; [reflexivity|apply nog_emit_steps].
  - apply data_nog_one. unfold emit_mart. apply nog_app. split; [reflexivity|]. apply nog_app. split; [apply nog_marker|].
    apply nog_app. split; [reflexivity|]. apply nog_app. split; [apply nog_emit_items|reflexivity].
  - change (PData (mapscripts_head mp n g plain tables) :: scripts_pieces (map (fun m => (msName m, msScript m)) plain) ++ tables_pieces mp tables)
      with ([PData (mapscripts_head mp n g plain tables)] ++ scripts_pieces (map (fun m => (msName m, msScript m)) plain) ++ tables_pieces mp tables).
    apply data_nog_app; [|apply data_nog_app; [apply data_nog_scripts|]].
    + apply data_nog_one. unfold mapscripts_head. apply nog_app. split; [reflexivity|].
      apply nog_app. split; [apply nog_flat_map; intros m; apply nog_app; split; [apply nog_marker|reflexivity]|].
      apply nog_app. split; [apply nog_flat_map; intros m; apply nog_app; split; [apply nog_marker|reflexivity]|reflexivity].
    + intros is I. unfold tables_pieces in I. apply in_flat_map in I. destruct I as (tb & _ & [Q|I]); [|exact (data_nog_scripts _ is I)].
      inversion Q; subst. unfold table_head. apply nog_app. split; [reflexivity|].
      apply nog_app. split; [apply nog_flat_map; intros m; apply nog_app; split; [apply nog_marker|reflexivity]|reflexivity].
Qed.

Lemma data_nog_tops mp : forall l i, data_nog (Datatypes.fst (tops_pieces mp l i)).
Proof.
  induction l as [|tp r IH]; intros i; cbn [tops_pieces]; [intros is []|].
  destruct (top_pieces mp tp) as [ps|] eqn:TP; [|apply IH].
  pose proof (IH (S i)) as Q. destruct (tops_pieces mp r (S i)) as [rest n]. cbn [Datatypes.fst] in *.
  apply data_nog_app; [destruct i; [intros is []|apply data_nog_one; reflexivity]|].
  apply data_nog_app; [eapply data_nog_top; exact TP|exact Q].
Qed.

(* THEOREM: the data pieces of the layout of a program (raw text, movements, marts, mapscripts headers and tables, blank
   separators, the texts) contain no goto line: every goto of the output lies in a script segment *)
Theorem data_pieces_have_no_goto mp p is : In (PData is) (program_pieces mp p) -> forall l, ~ In (IGoto l) is.
Proof.
  intros I l J. assert (N : nog is).
  { unfold program_pieces in I. pose proof (data_nog_tops mp (tops p) 0) as Q. destruct (tops_pieces mp (tops p) 0) as [ps n]. cbn [Datatypes.fst] in Q.
    apply in_app_or in I. destruct I as [I|[I|[]]]; [exact (Q is I)|]. inversion I; subst. apply nog_emit_texts. }
  unfold nog in N. rewrite forallb_forall in N. specialize (N _ J). discriminate N.
Qed.

(* ---------- the flat statement for the whole output, under distinct label names ---------- *)
Section TARGETDEF.
Variable mp : option text.
Variable tl : list text.
Variable name : text.
Variable glob : bool.
Variable body : list stmt.
Variable w : wst.
Hypothesis HW : emit_graph body = Emitter.Ok w.
Hypothesis HS : src_ok body.
Hypothesis SZ : (Z.of_nat (List.length (finals w)) <= 10 ^ 40)%Z.
Let G := finals w.

(* the label a generated goto names is defined in the code of the same script *)
Lemma script_goto_target_defined opt code :
  emit_script mp tl name glob opt body = Emitter.Ok code ->
  forall a l b, code = a ++ IGoto l :: b -> In l (lnames code).
Proof.
  intros H a l b E. destruct (script_code mp tl name glob body w HW opt code H) as (_ & C & T). fold G in C, T.
  set (regs := all_regs mp name G (order_of opt G) (-1)) in *.
  assert (TL : In l (targets_of code)).
  { rewrite E. unfold targets_of. apply in_flat_map. exists (IGoto l). split; [apply in_or_app; right; left; reflexivity|left; reflexivity]. }
  rewrite C in E.
  destruct (blocks_split _ _ _ _ _ _ _ _ _ _ E) as (l1 & d & l2 & bpre & bpost & ORD & B & _ & _).
  assert (Hd : In d (order_of opt G)) by (rewrite ORD; apply in_or_app; right; left; reflexivity).
  destruct (G_order_chunk body w HW HS opt d Hd) as (c & GC & Hc & CID & _). fold G in GC, Hc.
  destruct (goto_in_block _ _ _ _ _ _ _ _ _ _ _ GC B) as (-> & _ & _ & RE).
  destruct (goto_target_real body w HW HS c Hc RE) as [XP XI]. fold G in XI. set (X := tail_of c) in *.
  (* X is registered *)
  assert (XR : zmem X regs = true).
  { rewrite T in TL. apply in_map_iff in TL. destruct TL as (r & Q & Hr).
    destruct (all_regs_targets mp name G _ _ _ Hr) as (cr & Hcr & Ht).
    destruct (final_graph_shape body w HW HS) as (_ & _ & _ & TG & _). fold G in TG.
    assert (r = X).
    { destruct (TG cr Hcr r Ht) as [->|[_ RI]].
      - exfalso. exact (lbl_m1_ne name X ltac:(lia) Q).
      - apply (lbl_inj name); [apply (id_bound body w HW HS SZ); exact RI|apply (id_bound body w HW HS SZ); exact XI|exact Q]. }
    subst r. unfold zmem. apply existsb_exists. exists X. split; [exact Hr|apply Z.eqb_refl]. }
  (* its header is rendered *)
  assert (XO : In X (order_of opt G)) by (apply (Permutation_in _ (Permutation_sym (G_order_perm body w HW HS opt))); exact XI).
  destruct (in_split _ _ XO) as (o1 & o2 & EO).
  destruct (G_id_chunk body w HW HS X XI) as (cx & GX & _ & _). fold G in GX.
  rewrite C, EO, blocks_app. cbn [RenderSim.blocks]. rewrite !lnames_app. apply in_or_app. right. apply in_or_app. left.
  unfold RenderSim.block_of. rewrite GX. rewrite lnames_app. apply in_or_app. left.
  unfold RenderSim.labelpart. destruct (Z.eqb_spec X 0) as [Z0|_]; [lia|]. fold regs. rewrite XR. left. reflexivity.
Qed.
End TARGETDEF.

Lemma concat_split {A} (ls : list (list A)) : forall pre x post, List.concat ls = pre ++ x :: post ->
  exists c1 seg c2 a b, ls = c1 ++ seg :: c2 /\ seg = a ++ x :: b /\ pre = List.concat c1 ++ a /\ post = b ++ List.concat c2.
Proof.
  induction ls as [|s r IH]; intros pre x post E; [destruct pre; discriminate|]. cbn [List.concat] in E.
  destruct (app_split_mid _ _ _ _ _ E) as [(m & E1 & ->)|(m & -> & E2)].
  - exists [], s, r, pre, m. split; [reflexivity|]. split; [exact E1|]. split; reflexivity.
  - destruct (IH _ _ _ E2) as (c1 & seg & c2 & a & b & -> & -> & -> & ->).
    exists (s :: c1), (a ++ x :: b), c2, a, b. split; [reflexivity|]. split; [reflexivity|]. split; [|reflexivity].
    cbn [List.concat]. rewrite app_assoc. reflexivity.
Qed.

Lemma Forall2_app_inv_l' {A B} (R : A -> B -> Prop) l2 : forall l1 x r, Forall2 R l1 (l2 ++ x :: r) ->
  exists p1 y p2, l1 = p1 ++ y :: p2 /\ R y x.
Proof.
  induction l2 as [|z l2 IH]; intros l1 x r F; cbn [app] in F.
  - inversion F; subst. exists [], x0, l. split; [reflexivity|assumption].
  - inversion F; subst. destruct (IH _ _ _ H3) as (p1 & y & p2 & -> & Q). exists (x0 :: p1), y, p2. split; [reflexivity|exact Q].
Qed.

Section FLAT.
Variables (hl hd hs : N -> bool) (autovars : list (text * autovar)) (switches : list (text * text)) (ee : bool)
          (fc : fontcfg) (cli_font : text) (cli_maxlen : Z) (src : text) (p : program).
Hypothesis HP : parse_program autovars switches ee (parse_format fc cli_font cli_maxlen ee) (lex hl hd hs src) = Parser.Ok p.

(* THEOREM (c2), the final code of every accepted program, both settings, as one instruction list: if the label names the
   output defines are pairwise distinct (what an assembler demands; the compiler does not check it across scripts, see
   EXAMPLES.flat_statement_needs_distinct_labels) no goto line is followed - blank lines and markers aside - by the
   definition of its own label *)
Theorem program_no_goto_to_next_label opt mp code :
  (forall body w, In body (bodies_of (tops p)) -> emit_graph body = Emitter.Ok w -> (Z.of_nat (List.length (finals w)) <= 10 ^ 40)%Z) ->
  emit_program_instrs opt mp p = Emitter.Ok code ->
  NoDup (lnames code) ->
  forall pre l mid g post, code = pre ++ IGoto l :: mid ++ ILabel l g :: post -> Forall skip mid -> False.
Proof.
  intros SZ H ND pre l mid g post E SK.
  destruct (program_segments_ok hl hd hs autovars switches ee fc cli_font cli_maxlen src p HP opt mp code SZ H) as (segs & F & C).
  rewrite C in E. destruct (concat_split _ _ _ _ E) as (c1 & seg & c2 & a & b & ES & EG & _ & EP).
  rewrite ES in F. destruct (Forall2_app_inv_l' _ _ _ _ _ F) as (p1 & pc & p2 & EPC & OKS).
  destruct pc as [is|n g0 bd]; unfold segment_ok in OKS.
  - (* a data piece has no goto *)
    subst is. apply (data_pieces_have_no_goto mp p seg ltac:(rewrite EPC; apply in_or_app; right; left; reflexivity) l).
    rewrite EG. apply in_or_app. right. left. reflexivity.
  - destruct OKS as (RZ & NG & _).
    assert (HB : In bd (bodies_of (tops p))).
    { apply (script_pieces_are_program_bodies mp p n g0 bd). rewrite EPC. apply in_or_app. right. left. reflexivity. }
    destruct (accepted_body hl hd hs autovars switches ee fc cli_font cli_maxlen src p HP bd HB) as [HS _].
    destruct (emit_graph bd) as [w| | | |] eqn:HW; try (rewrite emit_script_eq, HW in RZ; discriminate RZ).
    pose proof (script_goto_target_defined mp _ n g0 bd w HW HS (SZ bd w HB HW) opt seg RZ a l b EG) as DEF.
    symmetry in EP. destruct (app_split_mid _ _ _ _ _ EP) as [(m & E1 & _)|(m & E1 & E2)].
    + (* the label line lies in the same segment *)
      apply (NG a l mid g m); [rewrite EG, E1; reflexivity|exact SK].
    + (* the label line lies in a later segment: the name is defined twice *)
      rewrite C, ES, concat_app in ND. cbn [List.concat] in ND. rewrite !lnames_app in ND.
      apply nodup_app_r in ND. apply (nodup_app_disj _ _ l ND DEF).
      rewrite E2, lnames_app. apply in_or_app. right. left. reflexivity.
Qed.
End FLAT.

(* ---------- (d) for the final code of a program ---------- *)
Lemma Forall2_in_combine {A B} (R : A -> B -> Prop) l l' : Forall2 R l l' -> forall x y, In (x, y) (combine l l') -> R x y.
Proof.
  induction 1 as [|a b l l' HR _ IH]; intros x y I; [destruct I|]. cbn [combine] in I. destruct I as [Q|I]; [inversion Q; subst; exact HR|exact (IH x y I)].
Qed.
Lemma targets_concat (segs : list (list instr)) seg x : In seg segs -> In x (targets_of seg) -> In x (targets_of (List.concat segs)).
Proof.
  intros HS HX. unfold targets_of in *. apply in_flat_map in HX. destruct HX as (i & Hi & Q). apply in_flat_map. exists i. split; [|exact Q].
  apply in_concat. exists seg. split; assumption.
Qed.

Section PROGRAM_LABELS.
Variables (hl hd hs : N -> bool) (autovars : list (text * autovar)) (switches : list (text * text)) (ee : bool)
          (fc : fontcfg) (cli_font : text) (cli_maxlen : Z) (src : text) (p : program).
Hypothesis HP : parse_program autovars switches ee (parse_format fc cli_font cli_maxlen ee) (lex hl hd hs src) = Parser.Ok p.

(* THEOREM (d), the final code of every accepted program, both settings: every label line of the segment of a script is the
   label of that script, a label statement the author wrote in its body, or a generated sub-label name_i (i > 0) that a jump
   line of the same segment - hence of the program - targets *)
Theorem program_label_lines opt mp code :
  emit_program_instrs opt mp p = Emitter.Ok code ->
  exists segs : list (list instr),
    Forall2 (realizes mp (map xname (texts p)) opt) (program_pieces mp p) segs /\ code = List.concat segs /\
    forall n g b seg, In (PScript n g b, seg) (combine (program_pieces mp p) segs) ->
      forall n' g', In (ILabel n' g') seg ->
        (n', g') = (n, g) \/ In (n', g') (slabs b) \/
        exists i, (0 < i)%Z /\ n' = lbl n i /\ g' = false /\ In n' (targets_of seg) /\ In n' (targets_of code).
Proof.
  intros H. apply program_layout in H. destruct H as (segs & F & ->). exists segs. split; [exact F|]. split; [reflexivity|].
  intros n g b seg I n' g' IL. pose proof (Forall2_in_combine _ _ _ F _ _ I) as RZ. unfold realizes in RZ.
  assert (HB : In b (bodies_of (tops p))).
  { apply (script_pieces_are_program_bodies mp p n g b). exact (in_combine_l _ _ _ _ I). }
  destruct (script_label_lines_from_source hl hd hs autovars switches ee fc cli_font cli_maxlen src p HP b mp _ n g opt seg HB RZ n' g' IL)
    as [Q|[Q|(i & Q1 & Q2 & Q3 & Q4)]]; [left; exact Q|right; left; exact Q|].
  right. right. exists i. split; [exact Q1|]. split; [exact Q2|]. split; [exact Q3|]. split; [exact Q4|].
  exact (targets_concat segs seg n' (in_combine_r _ _ _ _ I) Q4).
Qed.
End PROGRAM_LABELS.
(* ================================================================================================================== *)
(* Part 5: the hypotheses are satisfiable; what the statements do not say                                              *)
(* ================================================================================================================== *)
Local Transparent work_fuel work.
Module NGEXAMPLES.
Local Open Scope string_scope.

Fixpoint ndb (l : list text) : bool := match l with [] => true | x :: r => negb (existsb (text_eqb x) r) && ndb r end.
Lemma ndb_sound l : ndb l = true -> NoDup l.
Proof.
  induction l as [|x r IH]; intros H; [constructor|]. cbn [ndb] in H. apply andb_prop in H. destruct H as [A B].
  constructor; [apply existsb_teq_false; apply negb_true_iff; exact A|apply IH; exact B].
Qed.

Notation PARSE s := (parse_program [] [] true (parse_format fc0 [] 0%Z true) (lex nf nf nf (t s))).
Definition prog_of (s : string) : program :=
  match PARSE s with Parser.Ok p => p | _ => {| tops := []; texts := [] |} end.
Definition code_of (s : string) (o : bool) : list instr :=
  match emit_program_instrs o None (prog_of s) with Emitter.Ok c => c | _ => [] end.
Definition text_of (s : string) (o : bool) : string :=
  match emit_program o None (prog_of s) with Emitter.Ok x => show x | _ => "error" end.

(* (1) nested loops without condition: chunks 0, 1, 2 of the graph are empty and fall through to the next id, nothing jumps to
   chunks 1 and 2 - a chain of the chunks that goto_to_next_label_partial could not exclude; the body chunk 3 jumps back *)
Definition src1 : string := "script A { while { while { lock } } }".
Definition body1 : list stmt := NameClash.body_of src1.
Definition w1 : wst := match emit_graph body1 with Emitter.Ok w => w | _ => {| remaining := []; finals := []; counter := 0; brk := []; org := [] |} end.

Example ex1_hyps :
  PARSE src1 = Parser.Ok (prog_of src1) /\ In body1 (bodies_of (tops (prog_of src1))) /\
  emit_graph body1 = Emitter.Ok w1 /\ src_ok body1 /\ scoped None None body1 /\
  (Z.of_nat (List.length (finals w1)) <= 10 ^ 40)%Z /\
  map (fun c => (cid c, List.length (cstmts c), tail_of c)) (finals w1) = [(3, 0%nat, 4); (4, 1%nat, 3); (1, 0%nat, 2); (2, 0%nat, 3); (0, 0%nat, 1)]%Z /\
  text_of src1 false = "A::
A_3:
	lock
	goto A_3

".
Proof.
  assert (P : PARSE src1 = Parser.Ok (prog_of src1)) by (vm_compute; reflexivity).
  assert (B : In body1 (bodies_of (tops (prog_of src1)))) by (vm_compute; left; reflexivity).
  split; [exact P|]. split; [exact B|]. split; [vm_compute; reflexivity|].
  destruct (accepted_body nf nf nf [] [] true fc0 [] 0%Z (t src1) (prog_of src1) P body1 B) as [S1 S2].
  split; [exact S1|]. split; [exact S2|]. split; [apply Z.leb_le; vm_compute; reflexivity|]. split; vm_compute; reflexivity.
Qed.

Example ex1_no_goto_to_next : no_goto_to_next (code_of src1 false) /\ no_goto_to_next (code_of src1 true).
Proof.
  destruct ex1_hyps as (P & B & HW & _ & _ & SZ & _).
  split; intros pre l mid g post.
  - apply (no_goto_to_next_label_from_source nf nf nf [] [] true fc0 [] 0%Z (t src1) (prog_of src1) P body1 None [] (t "A") true w1 false); [exact B|exact HW|exact SZ|vm_compute; reflexivity].
  - apply (no_goto_to_next_label_from_source nf nf nf [] [] true fc0 [] 0%Z (t src1) (prog_of src1) P body1 None [] (t "A") true w1 true); [exact B|exact HW|exact SZ|vm_compute; reflexivity].
Qed.

(* (2) a program with data pieces and three scripts (OptimSame.EXAMPLES.ex_src): all hypotheses of program_segments_ok and of
   program_no_goto_to_next_label hold, for both settings *)
Definition p2 : program := prog_of OptimSame.EXAMPLES.ex_src.
Lemma sizes_check (bs : list (list stmt)) :
  forallb (fun b => match emit_graph b with Emitter.Ok w => Z.leb (Z.of_nat (List.length (finals w))) (10 ^ 40) | _ => true end) bs = true ->
  forall body w, In body bs -> emit_graph body = Emitter.Ok w -> (Z.of_nat (List.length (finals w)) <= 10 ^ 40)%Z.
Proof. intros F body w HB HW. rewrite forallb_forall in F. specialize (F body HB). rewrite HW in F. apply Z.leb_le. exact F. Qed.
Lemma p2_sizes : forall body w, In body (bodies_of (tops p2)) -> emit_graph body = Emitter.Ok w -> (Z.of_nat (List.length (finals w)) <= 10 ^ 40)%Z.
Proof. apply sizes_check. vm_compute. reflexivity. Qed.
Example ex2_program :
  PARSE OptimSame.EXAMPLES.ex_src = Parser.Ok p2 /\
  forall opt, exists code, emit_program_instrs opt None p2 = Emitter.Ok code /\ NoDup (lnames code) /\
    (forall pre l mid g post, code = (pre ++ IGoto l :: mid ++ ILabel l g :: post)%list -> Forall skip mid -> False) /\
    exists segs, Forall2 (segment_ok None (map xname (texts p2)) opt) (program_pieces None p2) segs /\ code = List.concat segs.
Proof.
  assert (P : PARSE OptimSame.EXAMPLES.ex_src = Parser.Ok p2) by (vm_compute; reflexivity).
  split; [exact P|]. intros opt.
  assert (E : exists code, emit_program_instrs opt None p2 = Emitter.Ok code /\ ndb (lnames code) = true).
  { destruct opt; eexists; (split; [vm_compute; reflexivity|vm_compute; reflexivity]). }
  destruct E as (code & H & N). exists code. split; [exact H|]. apply ndb_sound in N. split; [exact N|]. split.
  - exact (program_no_goto_to_next_label nf nf nf [] [] true fc0 [] 0%Z (t OptimSame.EXAMPLES.ex_src) p2 P opt None code p2_sizes H N).
  - exact (program_segments_ok nf nf nf [] [] true fc0 [] 0%Z (t OptimSame.EXAMPLES.ex_src) p2 P opt None code p2_sizes H).
Qed.

(* (3) the flat statement about the whole output needs the distinctness of the label names: a script named like a generated
   sub-label of the script before it (a name clash the compiler does not detect, see NameClash.v part 4; an assembler rejects
   the duplicate label) puts `A_1::` right after the last line `goto A_1` of script A.  Inside each script segment the
   statement holds (program_segments_ok applies). *)
Definition src3 : string := "script A { while (flag(F)) { lock } release }" ++ NameClash.nl ++ "script A_1 { end }".
Example flat_statement_needs_distinct_labels :
  PARSE src3 = Parser.Ok (prog_of src3) /\
  exists code pre l g post,
    emit_program_instrs false None (prog_of src3) = Emitter.Ok code /\
    code = (pre ++ IGoto l :: [IBlank; IBlank] ++ ILabel l g :: post)%list /\ show l = "A_1" /\ ~ NoDup (lnames code).
Proof.
  split; [vm_compute; reflexivity|].
  exists (code_of src3 false), (firstn 16 (code_of src3 false)), (t "A_1"), true, (skipn 20 (code_of src3 false)).
  split; [vm_compute; reflexivity|]. split; [vm_compute; reflexivity|]. split; [vm_compute; reflexivity|].
  intros ND. assert (Q : lnames (code_of src3 false) = [t "A"; t "A_1"; t "A_2"; t "A_3"; t "A_4"; t "A_1"]) by (vm_compute; reflexivity).
  rewrite Q in ND. inversion ND as [|? ? _ ND1]; subst. inversion ND1 as [|? ? NI _]; subst. apply NI. do 3 right. left. reflexivity.
Qed.
(* (4) forward gotos do occur in the unoptimized output (`goto A_3` in the first block, across chunks 1 and 2; `goto A_4`
   across the condition chunk 3): the theorem says that the label they name is never the next label line *)
Definition src4 : string := "script A { if (flag(X)) { while { lock } } release }".
Example ex4_forward_gotos :
  PARSE src4 = Parser.Ok (prog_of src4) /\
  text_of src4 false = "A::
	goto A_3

A_1:
	release
	return

A_2:
	goto A_4

A_3:
	goto_if_set X, A_2
	goto A_1

A_4:
	lock
	goto A_4

" /\ no_goto_to_next (code_of src4 false) /\ no_goto_to_next (code_of src4 true).
Proof.
  assert (P : PARSE src4 = Parser.Ok (prog_of src4)) by (vm_compute; reflexivity).
  split; [exact P|]. split; [vm_compute; reflexivity|].
  assert (B : In (NameClash.body_of src4) (bodies_of (tops (prog_of src4)))) by (vm_compute; left; reflexivity).
  assert (SZ : forall body w, In body (bodies_of (tops (prog_of src4))) -> emit_graph body = Emitter.Ok w -> (Z.of_nat (List.length (finals w)) <= 10 ^ 40)%Z)
    by (apply sizes_check; vm_compute; reflexivity).
  destruct (emit_graph (NameClash.body_of src4)) as [w| | | |] eqn:HW; try (vm_compute in HW; discriminate HW).
  split; intros pre l mid g post.
  - apply (no_goto_to_next_label_from_source nf nf nf [] [] true fc0 [] 0%Z (t src4) (prog_of src4) P (NameClash.body_of src4) None [] (t "A") true w false); [exact B|exact HW|exact (SZ _ _ B HW)|vm_compute; reflexivity].
  - apply (no_goto_to_next_label_from_source nf nf nf [] [] true fc0 [] 0%Z (t src4) (prog_of src4) P (NameClash.body_of src4) None [] (t "A") true w true); [exact B|exact HW|exact (SZ _ _ B HW)|vm_compute; reflexivity].
Qed.
End NGEXAMPLES.
