(* C18: the parser model never takes one of its Panic exits (the places where the Go code would index out of range or
   dereference nil): no input makes parse_program return Panic. *)
From Coq Require Import List String Ascii ZArith NArith Lia Bool.
From Pory Require Import Lexer Ast Parser Format.
Import ListNotations.
Open Scope list_scope.

Create HintDb np.
Ltac np_done :=
  match goal with
  | |- Ok _ <> Panic => discriminate
  | |- Err _ <> Panic => discriminate
  | |- Fuel <> Panic => discriminate
  | |- err_tok _ _ <> Panic => unfold err_tok; discriminate
  | |- err_range _ _ _ <> Panic => unfold err_range; discriminate
  | E : ?t = Panic |- Panic <> Panic => first [discriminate E | unfold err_tok, err_range in E; discriminate E | exfalso; solve [eauto with np]]
  | |- ?t <> Panic => let E := fresh in intro E; solve [eauto with np]
  end.
Ltac np_step :=
  first
  [ match goal with
    | E : (if ?c then _ else _) = Panic |- Panic <> Panic => destruct c
    | E : (match ?y with _ => _ end) = Panic |- Panic <> Panic => destruct y eqn:?
    end
  | np_done
  | match goal with
    | |- (if ?c then _ else _) <> Panic => destruct c
    | |- (match ?x with _ => _ end) <> Panic =>
        lazymatch x with
        | (if ?c then _ else _) => destruct c; cbv iota
        | (match ?y with _ => _ end) => destruct y eqn:?; cbv iota
        | _ => destruct x eqn:?
        end
    | |- (let '(_, _) := ?x in _) <> Panic => destruct x
    end ].
Ltac np := repeat np_step.

Section NP.
Variable autovars : list (text * autovar).
Variable switches : list (text * text).
Variable env_errors : bool.
Variable parse_format : toks -> res (token * text * text * toks).
Variable consts : list (text * text).
Hypothesis parse_format_np : forall ts, parse_format ts = Panic -> False.
Hint Resolve parse_format_np : np.

Notation poryswitch_header := (poryswitch_header switches env_errors).
Notation list_value := (list_value switches env_errors).
Notation list_cases := (list_cases switches env_errors).

Lemma poryswitch_header_np ts : poryswitch_header ts = Panic -> False.
Proof. change (poryswitch_header ts <> Panic). unfold Parser.poryswitch_header. np. Qed.
Hint Resolve poryswitch_header_np : np.

Lemma list_np : forall f,
  (forall k multi ts acc, list_value f k multi ts acc = Panic -> False) /\
  (forall k start ts acc, list_cases f k start ts acc = Panic -> False).
Proof.
  induction f as [|f [IH1 IH2]]; [split; intros; discriminate|]. split.
  - intros k multi ts acc. change (list_value (S f) k multi ts acc <> Panic). rewrite list_value_unfold. cbv zeta. np.
  - intros k start ts acc. change (list_cases (S f) k start ts acc <> Panic). rewrite list_cases_unfold. cbv zeta. np.
Qed.

Lemma list_value_np f k multi ts acc : list_value f k multi ts acc = Panic -> False. Proof. apply (list_np f). Qed.
Hint Resolve list_value_np : np.

Notation moves_operator := (moves_operator switches env_errors).
Notation command_args := (command_args switches env_errors parse_format consts).
Notation command_stmt := (command_stmt switches env_errors parse_format consts).
Notation var_or_autovar := (var_or_autovar autovars switches env_errors parse_format consts).
Notation value_parts := (value_parts consts).
Notation cond_var_operator := (cond_var_operator consts).
Notation leaf_expr := (leaf_expr autovars switches env_errors parse_format consts).
Notation bool_expr := (bool_expr autovars switches env_errors parse_format consts).
Notation right_side := (right_side autovars switches env_errors parse_format consts).

Lemma moves_operator_np f ts : moves_operator f ts = Panic -> False.
Proof. change (moves_operator f ts <> Panic). unfold Parser.moves_operator, movement_value. np. Qed.
Hint Resolve moves_operator_np : np.

Lemma command_args_np : forall f script cmdtok cidv ts depth parts args imp,
  command_args f script cmdtok cidv ts depth parts args imp = Panic -> False.
Proof.
  induction f as [|f IH]; intros script cmdtok cidv ts depth parts args imp; [discriminate|].
  change (command_args (S f) script cmdtok cidv ts depth parts args imp <> Panic). cbn [Parser.command_args]. cbv zeta. np.
Qed.
Hint Resolve command_args_np : np.

Lemma command_stmt_np f script ts : command_stmt f script ts = Panic -> False.
Proof. change (command_stmt f script ts <> Panic). unfold Parser.command_stmt. cbv zeta. np. Qed.
Hint Resolve command_stmt_np : np.

Lemma var_or_autovar_np f script ts : var_or_autovar f script ts = Panic -> False.
Proof. change (var_or_autovar f script ts <> Panic). unfold Parser.var_or_autovar. cbv zeta. np. Qed.
Hint Resolve var_or_autovar_np : np.

Lemma value_parts_np : forall f vtok ts depth parts, value_parts f vtok ts depth parts = Panic -> False.
Proof.
  induction f as [|f IH]; intros vtok ts depth parts; [discriminate|].
  change (value_parts (S f) vtok ts depth parts <> Panic). cbn [Parser.value_parts]. cbv zeta. np.
Qed.
Hint Resolve value_parts_np : np.

Lemma cond_var_operator_np f ts : cond_var_operator f ts = Panic -> False.
Proof. change (cond_var_operator f ts <> Panic). unfold Parser.cond_var_operator. cbv zeta. np. Qed.
Hint Resolve cond_var_operator_np : np.
Lemma cond_flag_operator_np ts nm : cond_flag_operator ts nm = Panic -> False.
Proof. change (cond_flag_operator ts nm <> Panic). unfold cond_flag_operator. cbv zeta. np. Qed.
Hint Resolve cond_flag_operator_np : np.

Lemma is_ident_not_var tk : is IDENT tk = true -> is VAR tk = false.
Proof. unfold is, tt_eqb. destruct (toktype_eq_dec (ttype tk) IDENT) as [E|]; [|discriminate]. intros _. rewrite E. reflexivity. Qed.

Lemma var_or_autovar_some f script ts : peek_is_autovar autovars ts = true ->
  match var_or_autovar f script ts with Ok (None, _, _) => False | Panic => False | _ => True end.
Proof.
  unfold peek_is_autovar, Parser.var_or_autovar. intros H. apply andb_prop in H. destruct H as [H1 H2].
  unfold peekis in *. rewrite (is_ident_not_var _ H1). destruct (assoc autovars (tlit (pk 1 ts))) as [av|]; [|discriminate].
  cbv zeta. destruct (command_stmt f script (adv ts)) as [[[c imp] ts2]| | |] eqn:E; try exact I.
  - destruct (avPos av); [destruct ((z <? 0)%Z || _); exact I|exact I].
  - exact (command_stmt_np _ _ _ E).
Qed.

Lemma leaf_expr_np f script ts : leaf_expr f script ts = Panic -> False.
Proof.
  change (leaf_expr f script ts <> Panic). unfold Parser.leaf_expr. cbv zeta.
  destruct (if peekis NOT ts then (true, adv ts) else (false, ts)) as [un t0].
  destruct (negb (peekis VAR t0) && negb (peek_is_autovar autovars t0) && negb (peekis FLAG t0) && negb (peekis DEFEATED t0)); [np|].
  destruct (peek_is_autovar autovars t0) eqn:IA; cbn [negb].
  - pose proof (var_or_autovar_some f script t0 IA) as V.
    destruct (var_or_autovar f script t0) as [[[[[v c]|] imp] ts1]| | |]; try contradiction; np.
  - np.
Qed.
Hint Resolve leaf_expr_np : np.

Lemma bexp_np : forall f,
  (forall single negated script ts, bool_expr f single negated script ts = Panic -> False) /\
  (forall left single negated script ts, right_side f left single negated script ts = Panic -> False).
Proof.
  induction f as [|f [IH1 IH2]]; [split; intros; discriminate|]. split.
  - intros single negated script ts. change (bool_expr (S f) single negated script ts <> Panic). rewrite bool_expr_unfold. cbv zeta. np.
  - intros left single negated script ts. change (right_side (S f) left single negated script ts <> Panic). rewrite right_side_unfold. cbv zeta. np.
Qed.
Lemma bool_expr_np f single negated script ts : bool_expr f single negated script ts = Panic -> False. Proof. apply (bexp_np f). Qed.
Hint Resolve bool_expr_np : np.

Notation switch_operand := (switch_operand consts).
Lemma switch_operand_np : forall f orig ts parts, switch_operand f orig ts parts = Panic -> False.
Proof.
  induction f as [|f IH]; intros orig ts parts; [discriminate|].
  change (switch_operand (S f) orig ts parts <> Panic). cbn [Parser.switch_operand]. cbv zeta. np.
Qed.
Hint Resolve switch_operand_np : np.

Notation parse_stmt := (parse_stmt autovars switches env_errors parse_format consts).
Notation parse_block := (parse_block autovars switches env_errors parse_format consts).
Notation parse_switch_block := (parse_switch_block autovars switches env_errors parse_format consts).
Notation parse_cond := (parse_cond autovars switches env_errors parse_format consts).
Notation parse_if := (parse_if autovars switches env_errors parse_format consts).
Notation parse_elifs := (parse_elifs autovars switches env_errors parse_format consts).
Notation parse_switch := (parse_switch autovars switches env_errors parse_format consts).
Notation parse_cases := (parse_cases autovars switches env_errors parse_format consts).
Notation parse_pory := (parse_pory autovars switches env_errors parse_format consts).
Notation parse_pory_cases := (parse_pory_cases autovars switches env_errors parse_format consts).
Notation parse_pory_stmts := (parse_pory_stmts autovars switches env_errors parse_format consts).

(* a required condition always yields an expression *)
Definition cond_some (f : nat) : Prop :=
  forall script bs cs ts e b imp ts', parse_cond f true script bs cs ts = Ok (e, b, imp, ts') -> e <> None.

Definition NPS (f : nat) : Prop :=
  (forall script bs cs ts, parse_stmt f script bs cs ts = Panic -> False) /\
  (forall script bs cs start ts acc imp, parse_block f script bs cs start ts acc imp = Panic -> False) /\
  (forall script bs cs start ts acc imp, parse_switch_block f script bs cs start ts acc imp = Panic -> False) /\
  (forall req script bs cs ts, parse_cond f req script bs cs ts = Panic -> False) /\
  (forall script bs cs ts, parse_if f script bs cs ts = Panic -> False) /\
  (forall script bs cs ts acc imp, parse_elifs f script bs cs ts acc imp = Panic -> False) /\
  (forall script bs cs ts, parse_switch f script bs cs ts = Panic -> False) /\
  (forall script bs cs brace ts acc seen hasdef imp, parse_cases f script bs cs brace ts acc seen hasdef imp = Panic -> False) /\
  (forall script bs cs ts, parse_pory f script bs cs ts = Panic -> False) /\
  (forall script bs cs start ts acc, parse_pory_cases f script bs cs start ts acc = Panic -> False) /\
  (forall script bs cs multi ts acc imp, parse_pory_stmts f script bs cs multi ts acc imp = Panic -> False).

Lemma cond_some_all f : cond_some f.
Proof.
  destruct f as [|f]; intros script bs cs ts e b imp ts' H; [discriminate|]. rewrite parse_cond_unfold in H. cbn [orb] in H.
  destruct (expect_peek LPAREN ts) as [tsa|]; [|discriminate].
  destruct (bool_expr f false false script tsa) as [[[e0 imp0'] tsb]| | |]; try discriminate. cbn beta iota in H.
  destruct (expect_peek LBRACE tsb) as [ts2|]; [|discriminate].
  destruct (parse_block f script bs cs (cur ts2) (adv ts2) [] imp0) as [[[b0 imp'] ts3]| | |]; try discriminate. inversion H. discriminate.
Qed.

Lemma nps_all : forall f, NPS f.
Proof.
  induction f as [|f IH]; [unfold NPS; repeat split; intros; discriminate|].
  destruct IH as (Istmt & Iblock & Iswb & Icond & Iif & Ielifs & Iswitch & Icases & Ipory & Ipcases & Ipstmts).
  unfold NPS. repeat split.
  - intros script bs cs ts. change (parse_stmt (S f) script bs cs ts <> Panic). rewrite parse_stmt_unfold. cbv zeta. np.
  - intros script bs cs start ts acc imp. change (parse_block (S f) script bs cs start ts acc imp <> Panic). rewrite parse_block_unfold. cbv zeta. np.
  - intros script bs cs start ts acc imp. change (parse_switch_block (S f) script bs cs start ts acc imp <> Panic). rewrite parse_switch_block_unfold. cbv zeta. np.
  - intros req script bs cs ts. change (parse_cond (S f) req script bs cs ts <> Panic). rewrite parse_cond_unfold. cbv zeta. np.
  - intros script bs cs ts. change (parse_if (S f) script bs cs ts <> Panic). rewrite parse_if_unfold. cbv zeta.
    destruct (parse_cond f true script bs cs ts) as [[[[e b] imp] ts1]| | |] eqn:EC; try np_done.
    destruct e as [e1|]; [np|]. exfalso. exact (cond_some_all f _ _ _ _ _ _ _ _ EC eq_refl).
  - intros script bs cs ts acc imp. change (parse_elifs (S f) script bs cs ts acc imp <> Panic). rewrite parse_elifs_unfold. cbv zeta.
    destruct (peekis ELSEIF ts); [|np].
    destruct (parse_cond f true script bs cs (adv ts)) as [[[[e b] imp'] ts1]| | |] eqn:EC; try np_done.
    destruct e as [e1|]; [np|]. exfalso. exact (cond_some_all f _ _ _ _ _ _ _ _ EC eq_refl).
  - intros script bs cs ts. change (parse_switch (S f) script bs cs ts <> Panic). rewrite parse_switch_unfold. cbv zeta. np.
  - intros script bs cs brace ts acc seen hasdef imp. change (parse_cases (S f) script bs cs brace ts acc seen hasdef imp <> Panic). rewrite parse_cases_unfold. cbv zeta. np.
  - intros script bs cs ts. change (parse_pory (S f) script bs cs ts <> Panic). rewrite parse_pory_unfold. cbv zeta. np.
  - intros script bs cs start ts acc. change (parse_pory_cases (S f) script bs cs start ts acc <> Panic). rewrite parse_pory_cases_unfold. cbv zeta. np.
  - intros script bs cs multi ts acc imp. change (parse_pory_stmts (S f) script bs cs multi ts acc imp <> Panic). rewrite parse_pory_stmts_unfold. cbv zeta. np.
Qed.

Lemma parse_block_np f script bs cs start ts acc imp : parse_block f script bs cs start ts acc imp = Panic -> False.
Proof. apply (nps_all f). Qed.
Hint Resolve parse_block_np : np.

Notation parse_script := (parse_script autovars switches env_errors parse_format consts).
Notation text_value := (text_value parse_format).
Notation pory_text_cases := (pory_text_cases parse_format).
Notation pory_text := (pory_text switches env_errors parse_format).
Notation parse_text := (parse_text switches env_errors parse_format).
Notation parse_movement := (parse_movement switches env_errors).
Notation parse_mart := (parse_mart switches env_errors consts).
Notation ms_table := (ms_table autovars switches env_errors parse_format consts).
Notation ms_entries := (ms_entries autovars switches env_errors parse_format consts).
Notation parse_mapscripts := (parse_mapscripts autovars switches env_errors parse_format consts).

Lemma scope_modifier_np d ts : scope_modifier d ts = Panic -> False.
Proof. change (scope_modifier d ts <> Panic). unfold scope_modifier. cbv zeta. np. Qed.
Hint Resolve scope_modifier_np : np.
Lemma parse_script_np f ts : parse_script f ts = Panic -> False.
Proof. change (parse_script f ts <> Panic). unfold Parser.parse_script. cbv zeta. np. Qed.
Lemma text_value_np ts : text_value ts = Panic -> False.
Proof. change (text_value ts <> Panic). unfold Parser.text_value. cbv zeta. np. Qed.
Hint Resolve text_value_np : np.
Lemma pory_text_cases_np : forall f start ts acc, pory_text_cases f start ts acc = Panic -> False.
Proof.
  induction f as [|f IH]; intros start ts acc; [discriminate|].
  change (pory_text_cases (S f) start ts acc <> Panic). cbn [Parser.pory_text_cases]. cbv zeta. np.
Qed.
Hint Resolve pory_text_cases_np : np.
Lemma pory_text_np f ts : pory_text f ts = Panic -> False.
Proof. change (pory_text f ts <> Panic). unfold Parser.pory_text. cbv zeta. np. Qed.
Hint Resolve pory_text_np : np.
Lemma parse_text_np f ts : parse_text f ts = Panic -> False.
Proof. change (parse_text f ts <> Panic). unfold Parser.parse_text. cbv zeta. np. Qed.
Lemma parse_movement_np f ts : parse_movement f ts = Panic -> False.
Proof. change (parse_movement f ts <> Panic). unfold Parser.parse_movement, movement_value. cbv zeta. np. Qed.
Lemma parse_mart_np f ts : parse_mart f ts = Panic -> False.
Proof. change (parse_mart f ts <> Panic). unfold Parser.parse_mart, mart_value. cbv zeta. np. Qed.
Lemma parse_raw_np ts : parse_raw ts = Panic -> False.
Proof. change (parse_raw ts <> Panic). unfold parse_raw. np. Qed.
Lemma ms_table_np : forall f mapname tyname ts i acc imp, ms_table f mapname tyname ts i acc imp = Panic -> False.
Proof.
  induction f as [|f IH]; intros mapname tyname ts i acc imp; [discriminate|].
  change (ms_table (S f) mapname tyname ts i acc imp <> Panic). cbn [Parser.ms_table]. cbv zeta. np.
Qed.
Hint Resolve ms_table_np : np.
Lemma ms_entries_np : forall f mapname ts plain tables imp, ms_entries f mapname ts plain tables imp = Panic -> False.
Proof.
  induction f as [|f IH]; intros mapname ts plain tables imp; [discriminate|].
  change (ms_entries (S f) mapname ts plain tables imp <> Panic). cbn [Parser.ms_entries]. cbv zeta. np.
Qed.
Hint Resolve ms_entries_np : np.
Lemma parse_mapscripts_np f ts : parse_mapscripts f ts = Panic -> False.
Proof. change (parse_mapscripts f ts <> Panic). unfold Parser.parse_mapscripts. cbv zeta. np. Qed.
End NP.

Section NP2.
Variable autovars : list (text * autovar).
Variable switches : list (text * text).
Variable env_errors : bool.
Variable parse_format : toks -> res (token * text * text * toks).
Hypothesis parse_format_np : forall ts, parse_format ts = Panic -> False.

Lemma parse_const_np f c ts : parse_const f c ts = Panic -> False.
Proof. change (parse_const f c ts <> Panic). unfold parse_const. cbv zeta. np. Qed.

Lemma parse_tops_np : forall f st ts, parse_tops autovars switches env_errors parse_format f st ts = Panic -> False.
Proof.
  pose proof (parse_script_np autovars switches env_errors parse_format) as H1.
  pose proof (parse_text_np switches env_errors parse_format) as H2.
  pose proof (parse_movement_np switches env_errors) as H3.
  pose proof (parse_mart_np switches env_errors) as H4.
  pose proof (parse_mapscripts_np autovars switches env_errors parse_format) as H5.
  pose proof parse_raw_np as H6. pose proof parse_const_np as H7.
  induction f as [|f IH]; intros st ts; [discriminate|].
  change (parse_tops autovars switches env_errors parse_format (S f) st ts <> Panic). cbn [parse_tops]. cbv zeta. np.
Qed.

(* THE THEOREM (C18, no crash): the parser model never takes a Panic exit, for any token list, command configuration,
   compile-time switches and mode, provided the format() operator (its own function, see Format.v) does not *)
Theorem parse_program_never_panics ts : parse_program autovars switches env_errors parse_format ts <> Panic.
Proof.
  unfold parse_program. intros H.
  destruct (parse_tops autovars switches env_errors parse_format (5 * List.length ts + 4) _ ts) eqn:E; try discriminate.
  - cbn beta iota zeta in H. destruct (dup_text [] _); [discriminate|]. destruct (dup_mov [] _); discriminate.
  - exact (parse_tops_np _ _ _ E).
Qed.
End NP2.

(* ---------- the format() operator ---------- *)
Section NPF.
Variable fc : fontcfg.
Variable cli_font : text.
Variable cli_maxlen : Z.
Variable env_errors : bool.

Lemma named_loop_np : forall f ts p had, named_loop f ts p had = Panic -> False.
Proof.
  induction f as [|f IH]; intros ts p had; [discriminate|].
  change (named_loop (S f) ts p had <> Panic). cbn [named_loop]. cbv zeta. np.
Qed.
Hint Resolve named_loop_np : np.

Lemma parse_format_never_panics ts : parse_format fc cli_font cli_maxlen env_errors ts = Panic -> False.
Proof. change (parse_format fc cli_font cli_maxlen env_errors ts <> Panic). unfold parse_format. cbv zeta. np. Qed.
End NPF.

(* THE THEOREM (C18): with the real format() operator, for every font configuration and every option *)
Theorem parser_never_panics autovars switches env_errors fc cli_font cli_maxlen ts :
  parse_program autovars switches env_errors (parse_format fc cli_font cli_maxlen env_errors) ts <> Panic.
Proof. apply parse_program_never_panics. apply parse_format_never_panics. Qed.
