(* C11, whole programs: an AutoVar condition / switch runs its command once, in order, then compares its var.

   AutoVarParse.v proves what the parser puts into ONE leaf / in front of ONE switch, and for every leaf of one accepted
   condition; Properties_C11.v has the semantics of one leaf and the short-circuit equations.  This file lifts them to whole
   programs by induction over the statement parser: for every program [parse_program] accepts - any source text, any
   classification of non-ASCII code points, any command configuration [autovars], any switches, fonts, mode - and for every
   script body and every inline map-script body ([ProgWf.bodies_of]), at any nesting depth.

   Sites of a statement list (section 1): [block_in b' b] (b' is b or a block nested in b: if / elif / else / while /
   do-while bodies, switch cases), [cond_in e b] (e is the condition of an if / elif / while / do-while somewhere in b),
   [AutoVarParse.leaves e] (the leaves of e, left to right), and the decompositions  b' = l1 ++ SSwitch .. :: l2  of a block.

   The invariant (sections 2-4): a judgement [ok CO SO b] over the nested statement type that records, for every condition,
   [CO e] and for every switch [SO [SSwitch ..]] or, together with the command statement in front of it, [SO [SCmd c; SSwitch ..]].
   [pi_all] carries it through parse_stmt ... parse_pory_stmts with  CO = cond_origin (e is what [bool_expr] returned at a
   position of the program's token stream)  and  SO = switch_origin (the statements are what [parse_switch] returned at a
   position where 'switch' is written); [parse_tops_ok] / [parse_program_ok] carry it to the program ([ok_pstmt]: patching
   the labels of hoisted texts / movements into command arguments keeps it).  [ok_cond_in], [ok_switch_in] read it back for
   EVERY site.

   MAIN THEOREMS (on source texts; T = lex .. s is the program's token stream, positions are [advs T ts]):
     accepted_bodies_have_origins   every body of every accepted program is judged
     program_autovar_leaves         every leaf with a preamble [Some c'] in every condition of every body: c' = pcmd ps c where c
                                    is the command [command_stmt] returns at the position tsc with [cid c] remaining tokens,
                                    tsc starts with an identifier, [cname c] is that identifier and is configured in
                                    [autovars] (entry av); [parse_stmt] started on tsc returns exactly [SCmd c] with the
                                    same inline data and end (premise: the tokens after the name are not a label colon);
                                    the leaf is a KVar leaf at the command's line and compares [compared_var av c] -
                                    the configured name or the argument of c at the configured position (compared_var_spec)
     program_closed_conditions      every condition comes from a run of [bool_expr] ending on a token cur ts'; when that token is
                                    ')', all its leaves with a preamble carry the command of the statement parser, with NO
                                    premise on the tokens (closed_condition_no_labels: a leaf followed by '&&' '||' ')' is not
                                    followed by a label colon)
     program_plain_leaves           every leaf without preamble is (the negation of) a plain form of LeafForms.v - var( ) /
                                    flag( ) / defeated( ) with its comparison - consumed exactly at a position of the program
     program_switches               every switch of every block: its tag is the number of tokens remaining at its 'switch'
                                    keyword ts; written on var( ) it carries the written operand; written on a command (the
                                    token after "switch (" is not 'var') the statement just before it in its block is
                                    SCmd (pcmd ps c), c the command parsed after "switch (", configured in [autovars],
                                    the switch operand is [compared_var av c] and its line the command's line
     advs_length_inj                a number of remaining tokens names one position (so [cid c] / the tag name the site)
     autovar_leaf_is_command_then_plain_leaf, command_statement_step, command_then_switch_steps
                                    Sem2: evaluating a leaf with preamble p = the step of the command statement p (same event,
                                    same state change) followed by the plain comparison; the two statements of a switch on a
                                    command are stepped one after the other
     condition_events_are_preambles_in_order
                                    one evaluation of a condition performs a subsequence of the preambles of its leaves, in
                                    leaf order, each at most once (which: the short-circuit equations of Properties_C11.v)
     compiled_autovar_conditions    composition with C01 (C01Top.compiled_scripts_correct_from_source): the emitted code of a
                                    body performs the runs of Sem2 on that body - conditions are evaluated by [eval_bexp] once
                                    per test, hence again at every loop iteration - and in those runs every leaf with a
                                    preamble is a configured command followed by the comparison of its configured variable,
                                    every switch not written on var( ) is preceded by its command statement
   Generic versions (any [parse_format] that only advances, any token stream): parse_program_ok, autovar_leaf_sites,
   plain_leaf_sites, switch_sites, closed_condition_preambles_are_statements, parse_block_ok.

   NOT PROVED / LIMITS: (1) the command in the final program is [pcmd ps c] (labels of hoisted texts / movements patched in);
   that no patch fails ([pcmd] never yields the !PANIC! marker) and what the patched arguments are is C10 (CmdArgs.v
   inline_arguments_become_labels), per command, not lifted here; [pcmd_keeps]: token and id are unchanged.  (2) [consts],
   the script name and the fuel of a site are existentially quantified (the constants in force at that top-level statement).
   (3) "same command as the statement parser" needs  try_label tsc = None  or a condition closed by ')': see (a).

   OBSERVED IN THE MODEL AND IN THE GO COMPILER (module Examples):
   (a) unchecked_closing_token: the token that ends a top-level condition is not checked to be ')':
       'if (flag(A) foo {' and 'if (getpartysize : {' are accepted (parser.go parseConditionExpression: expectPeek(LBRACE) looks
       only at the token after it).  In the second text the statement parser on the leaf's tokens reads a label.
   (b) compared_var_at_an_inline_text_position: a configured argument position that names an inline text / moves( ) argument
       compares the EMPTY variable name (Go: 'foo S_Text_0' then 'compare , 0'): the var name is read from the arguments
       before the hoisted label is patched in.  The theorems state the compared var for the command as parsed. *)
From Coq Require Import List String Ascii ZArith NArith Lia Bool.
From Pory Require Import Lexer Ast Emitter Sem2 Tr Consume CmdArgs BexpParse AutoVarParse ProgWf.
From Pory Require ProgSrc LeafForms Format.
From Pory Require Import Parser.
Import ListNotations.
Open Scope list_scope.

(* ====================================================================================================== *)
(*  1. conditions, blocks and switches of a statement list (any depth)                                      *)
(* ====================================================================================================== *)
(* [child s b]: b is a block written directly inside statement s *)
Inductive child : stmt -> list stmt -> Prop :=
| ch_if conds els e b : In (e, b) conds -> child (SIf conds els) b
| ch_else conds b : child (SIf conds (Some b)) b
| ch_while tg c b : child (SWhile tg c b) b
| ch_do tg b e : child (SDoWhile tg b e) b
| ch_case tg v ol cases d cv l b : In (d, cv, l, b) cases -> child (SSwitch tg v ol cases) b.

(* [block_in b' b]: b' is b or a block nested in b at any depth *)
Inductive block_in : list stmt -> list stmt -> Prop :=
| bi_refl b : block_in b b
| bi_step b' b s b1 : In s b -> child s b1 -> block_in b' b1 -> block_in b' b.

(* [cond_of s e]: e is a condition of statement s (if / elif / while / do-while) *)
Inductive cond_of : stmt -> bexp -> Prop :=
| co_if conds els e b : In (e, b) conds -> cond_of (SIf conds els) e
| co_while tg e b : cond_of (SWhile tg (Some e) b) e
| co_do tg b e : cond_of (SDoWhile tg b e) e.

(* [cond_in e b]: e is a condition of some statement of b, at any depth *)
Definition cond_in (e : bexp) (b : list stmt) : Prop := exists b' s, block_in b' b /\ In s b' /\ cond_of s e.

Lemma block_in_trans a b c : block_in a b -> block_in b c -> block_in a c.
Proof. intros H1 H2. induction H2 as [|b' b s b1 Hs Hc _ IH]; [exact H1|]. eapply bi_step; eauto. Qed.

(* ====================================================================================================== *)
(*  2. the origin judgement, generic in what is recorded for a condition (CO) and for a switch (SO)          *)
(* ====================================================================================================== *)
Section JUDGE.
Variable CO : bexp -> Prop.
Variable SO : list stmt -> Prop.

Inductive ok : list stmt -> Prop :=
| ok_nil : ok []
| ok_cmd c r : ok r -> ok (SCmd c :: r)
| ok_label n g tk r : ok r -> ok (SLabel n g tk :: r)
| ok_if conds els r : ok_conds conds -> ok_opt els -> ok r -> ok (SIf conds els :: r)
| ok_while tg c b r : (forall e, c = Some e -> CO e) -> ok b -> ok r -> ok (SWhile tg c b :: r)
| ok_dowhile tg b e r : CO e -> ok b -> ok r -> ok (SDoWhile tg b e :: r)
| ok_break tg r : ok r -> ok (SBreak tg :: r)
| ok_continue tg r : ok r -> ok (SContinue tg :: r)
| ok_switch tg v ol cases r : SO [SSwitch tg v ol cases] -> ok_cases cases -> ok r -> ok (SSwitch tg v ol cases :: r)
| ok_cmdswitch c tg v ol cases r :
    SO [SCmd c; SSwitch tg v ol cases] -> ok_cases cases -> ok r -> ok (SCmd c :: SSwitch tg v ol cases :: r)
with ok_conds : list (bexp * list stmt) -> Prop :=
| okc_nil : ok_conds []
| okc_cons e b r : CO e -> ok b -> ok_conds r -> ok_conds ((e, b) :: r)
with ok_opt : option (list stmt) -> Prop :=
| oko_none : ok_opt None
| oko_some b : ok b -> ok_opt (Some b)
with ok_cases : list scase -> Prop :=
| okk_nil : ok_cases []
| okk_cons d v l b r : ok b -> ok_cases r -> ok_cases ((d, v, l, b) :: r).

Lemma ok_app a b : ok a -> ok b -> ok (a ++ b).
Proof. intros Ha Hb. induction Ha; cbn [app]; try (constructor; assumption). exact Hb. Qed.

Lemma ok_conds_app a b : ok_conds a -> ok_conds b -> ok_conds (a ++ b).
Proof. intros Ha Hb. induction Ha; cbn [app]; [exact Hb|constructor; assumption]. Qed.

Lemma ok_cases_app a b : ok_cases a -> ok_cases b -> ok_cases (a ++ b).
Proof. intros Ha Hb. induction Ha; cbn [app]; [exact Hb|constructor; assumption]. Qed.

Lemma ok_conds_in l e b : ok_conds l -> In (e, b) l -> CO e /\ ok b.
Proof.
  intros H. induction H as [|e0 b0 r He Hb _ IH]; intros HIn; [destruct HIn|].
  destruct HIn as [E|HIn]; [inversion E; subst; split; assumption|apply IH, HIn].
Qed.

Lemma ok_cases_in l d v ln b : ok_cases l -> In (d, v, ln, b) l -> ok b.
Proof.
  intros H. induction H as [|d0 v0 l0 b0 r Hb _ IH]; intros HIn; [destruct HIn|].
  destruct HIn as [E|HIn]; [inversion E; subst; assumption|apply IH, HIn].
Qed.

(* one level: the blocks and the conditions of a statement of an ok list *)
Lemma ok_in b s : ok b -> In s b -> (forall b1, child s b1 -> ok b1) /\ (forall e, cond_of s e -> CO e).
Proof.
  intros H. induction H as [|c r _ IH|n g tk r _ IH|conds els r HC HE _ IH|tg c b r HCo Hb _ _ IH|tg b e r HCo Hb _ _ IH
                           |tg r _ IH|tg r _ IH|tg v ol cases r _ HK _ IH|c tg v ol cases r _ HK _ IH]; intros HIn.
  - destruct HIn.
  - destruct HIn as [<-|HIn]; [split; intros ? X; inversion X|apply IH, HIn].
  - destruct HIn as [<-|HIn]; [split; intros ? X; inversion X|apply IH, HIn].
  - destruct HIn as [<-|HIn]; [|apply IH, HIn]. split.
    + intros b1 X. inversion X; subst; [eapply ok_conds_in; eassumption|]. inversion HE; assumption.
    + intros e X. inversion X; subst. eapply ok_conds_in; eassumption.
  - destruct HIn as [<-|HIn]; [|apply IH, HIn]. split.
    + intros b1 X. inversion X; subst. exact Hb.
    + intros e X. inversion X; subst. apply HCo. reflexivity.
  - destruct HIn as [<-|HIn]; [|apply IH, HIn]. split.
    + intros b1 X. inversion X; subst. exact Hb.
    + intros e0 X. inversion X; subst. exact HCo.
  - destruct HIn as [<-|HIn]; [split; intros ? X; inversion X|apply IH, HIn].
  - destruct HIn as [<-|HIn]; [split; intros ? X; inversion X|apply IH, HIn].
  - destruct HIn as [<-|HIn]; [|apply IH, HIn]. split.
    + intros b1 X. inversion X; subst. eapply ok_cases_in; eassumption.
    + intros e X. inversion X.
  - destruct HIn as [<-|[<-|HIn]]; [split; intros ? X; inversion X| |apply IH, HIn]. split.
    + intros b1 X. inversion X; subst. eapply ok_cases_in; eassumption.
    + intros e X. inversion X.
Qed.

Lemma ok_block_in b b' : ok b -> block_in b' b -> ok b'.
Proof.
  intros H HB. induction HB as [|b' b s b1 Hs Hc _ IH]; [exact H|]. apply IH. exact (proj1 (ok_in b s H Hs) b1 Hc).
Qed.

(* (A) every condition of an ok list, at any depth, has its origin *)
Theorem ok_cond_in b e : ok b -> cond_in e b -> CO e.
Proof.
  intros H (b' & s & HB & Hs & Hc). exact (proj2 (ok_in b' s (ok_block_in b b' H HB) Hs) e Hc).
Qed.

(* (B) every switch of an ok list has its origin: alone, or together with the command statement that precedes it *)
Lemma ok_switch_at b : ok b -> forall l1 tg v ol cases l2, b = l1 ++ SSwitch tg v ol cases :: l2 ->
  SO [SSwitch tg v ol cases] \/ exists l1' c, l1 = l1' ++ [SCmd c] /\ SO [SCmd c; SSwitch tg v ol cases].
Proof.
  intros H. induction H as [|c r _ IH|n g tk r _ IH|conds els r HC HE _ IH|tg0 c b r HCo Hb _ _ IH|tg0 b e r HCo Hb _ _ IH
                           |tg0 r _ IH|tg0 r _ IH|tg0 v0 ol0 cases0 r HS HK _ IH|c tg0 v0 ol0 cases0 r HS HK _ IH];
    intros l1 tg v ol cases l2 E.
  - destruct l1; discriminate.
  - destruct l1 as [|x l1]; [discriminate|]. injection E as <- E.
    destruct (IH _ _ _ _ _ _ E) as [L|(l1' & c' & -> & R)]; [left; exact L|right; exists (SCmd c :: l1'), c'; split; [reflexivity|exact R]].
  - destruct l1 as [|x l1]; [discriminate|]. injection E as <- E.
    destruct (IH _ _ _ _ _ _ E) as [L|(l1' & c' & -> & R)]; [left; exact L|right; exists (SLabel n g tk :: l1'), c'; split; [reflexivity|exact R]].
  - destruct l1 as [|x l1]; [discriminate|]. injection E as <- E.
    destruct (IH _ _ _ _ _ _ E) as [L|(l1' & c' & -> & R)]; [left; exact L|right; exists (SIf conds els :: l1'), c'; split; [reflexivity|exact R]].
  - destruct l1 as [|x l1]; [discriminate|]. injection E as <- E.
    destruct (IH _ _ _ _ _ _ E) as [L|(l1' & c' & -> & R)]; [left; exact L|right; exists (SWhile tg0 c b :: l1'), c'; split; [reflexivity|exact R]].
  - destruct l1 as [|x l1]; [discriminate|]. injection E as <- E.
    destruct (IH _ _ _ _ _ _ E) as [L|(l1' & c' & -> & R)]; [left; exact L|right; exists (SDoWhile tg0 b e :: l1'), c'; split; [reflexivity|exact R]].
  - destruct l1 as [|x l1]; [discriminate|]. injection E as <- E.
    destruct (IH _ _ _ _ _ _ E) as [L|(l1' & c' & -> & R)]; [left; exact L|right; exists (SBreak tg0 :: l1'), c'; split; [reflexivity|exact R]].
  - destruct l1 as [|x l1]; [discriminate|]. injection E as <- E.
    destruct (IH _ _ _ _ _ _ E) as [L|(l1' & c' & -> & R)]; [left; exact L|right; exists (SContinue tg0 :: l1'), c'; split; [reflexivity|exact R]].
  - destruct l1 as [|x l1].
    + injection E as <- <- <- <- _. left. exact HS.
    + injection E as <- E.
      destruct (IH _ _ _ _ _ _ E) as [L|(l1' & c' & -> & R)]; [left; exact L|right; exists (SSwitch tg0 v0 ol0 cases0 :: l1'), c'; split; [reflexivity|exact R]].
  - destruct l1 as [|x [|y l1]]; [discriminate| |].
    + injection E as <- <- <- <- <- _. right. exists [], c. split; [reflexivity|exact HS].
    + injection E as <- <- E.
      destruct (IH _ _ _ _ _ _ E) as [L|(l1' & c' & -> & R)]; [left; exact L|].
      right. exists (SCmd c :: SSwitch tg0 v0 ol0 cases0 :: l1'), c'. split; [reflexivity|exact R].
Qed.

Theorem ok_switch_in b b' l1 tg v ol cases l2 : ok b -> block_in b' b -> b' = l1 ++ SSwitch tg v ol cases :: l2 ->
  SO [SSwitch tg v ol cases] \/ exists l1' c, l1 = l1' ++ [SCmd c] /\ SO [SCmd c; SSwitch tg v ol cases].
Proof. intros H HB E. eapply ok_switch_at; [eapply ok_block_in; eassumption|exact E]. Qed.
End JUDGE.

(* the judgement is preserved when the labels of hoisted texts / movements are patched into the command arguments *)
Scheme ok_m := Minimality for ok Sort Prop
  with ok_conds_m := Minimality for ok_conds Sort Prop
  with ok_opt_m := Minimality for ok_opt Sort Prop
  with ok_cases_m := Minimality for ok_cases Sort Prop.
Combined Scheme ok_mutind from ok_m, ok_conds_m, ok_opt_m, ok_cases_m.

Lemma ok_pstmt (CO CO' : bexp -> Prop) (SO SO' : list stmt -> Prop) ps :
  (forall e, CO e -> CO' (pbexp ps e)) -> (forall ss, SO ss -> SO' (map (pstmt ps) ss)) ->
  (forall b, ok CO SO b -> ok CO' SO' (map (pstmt ps) b)) /\
  (forall l, ok_conds CO SO l -> ok_conds CO' SO' (map (fun cb => (pbexp ps (fst cb), map (pstmt ps) (snd cb))) l)) /\
  (forall o, ok_opt CO SO o -> ok_opt CO' SO' (match o with Some b => Some (map (pstmt ps) b) | None => None end)) /\
  (forall l, ok_cases CO SO l ->
     ok_cases CO' SO' (map (fun c : scase => (fst (fst (fst c)), snd (fst (fst c)), snd (fst c), map (pstmt ps) (snd c))) l)).
Proof.
  intros HCO HSO. apply ok_mutind; intros; cbn [map pstmt fst snd]; try (constructor; auto; fail).
  - (* while *) constructor; auto. intros e0 E. destruct c as [e1|]; [|discriminate]. injection E as <-. apply HCO. auto.
  - (* switch *) constructor; auto. apply (HSO [SSwitch tg v ol cases]). assumption.
  - (* command + switch *) apply ok_cmdswitch; auto. apply (HSO [SCmd c; SSwitch tg v ol cases]). assumption.
Qed.

(* ====================================================================================================== *)
(*  3. the statement parser: every condition and every switch of what it returns has its origin             *)
(* ====================================================================================================== *)
Lemma bind_inv {X Y} (m : res X) (k : X -> res Y) r :
  match m with Ok x => k x | Err e => Err e | Panic => Panic | Fuel => Fuel end = Ok r ->
  exists x, m = Ok x /\ k x = Ok r.
Proof. destruct m; try discriminate. eauto. Qed.
Tactic Notation "bind" hyp(H) "as" simple_intropattern(p) "eqn" ident(E) :=
  apply bind_inv in H; destruct H as (p & E & H); cbn beta iota in H.

Section PARSE.
Variable autovars : list (text * autovar).
Variable switches : list (text * text).
Variable ee : bool.
Variable parse_format : toks -> res (token * text * text * toks).
Hypothesis parse_format_advs : forall ts tk v sty ts', parse_format ts = Ok (tk, v, sty, ts') -> forall a, advs a ts -> advs a ts'.
(* the token stream of the whole program; every position below is reached from it by advancing *)
Variable T : toks.

(* the condition [e] is what the condition parser returned at a position of the program *)
Definition cond_origin (e : bexp) : Prop :=
  exists consts f script ts imp ts', advs T ts /\
    bool_expr autovars switches ee parse_format consts f false false script ts = Ok (e, imp, ts').
(* the statements [ss] are what the switch parser returned at a position of the program where 'switch' is written *)
Definition switch_origin (ss : list stmt) : Prop :=
  exists consts f script bs cs ts imp ts', advs T ts /\ ttype (cur ts) = SWITCH /\
    parse_switch autovars switches ee parse_format consts (S f) script bs cs ts = Ok (ss, imp, ts').
Notation OK := (ok cond_origin switch_origin).
Notation OKC := (ok_conds cond_origin switch_origin).
Notation OKK := (ok_cases cond_origin switch_origin).

Section WITHC.
Variable consts : list (text * text).
Notation parse_stmt := (parse_stmt autovars switches ee parse_format consts).
Notation parse_block := (parse_block autovars switches ee parse_format consts).
Notation parse_switch_block := (parse_switch_block autovars switches ee parse_format consts).
Notation parse_cond := (parse_cond autovars switches ee parse_format consts).
Notation parse_if := (parse_if autovars switches ee parse_format consts).
Notation parse_elifs := (parse_elifs autovars switches ee parse_format consts).
Notation parse_switch := (parse_switch autovars switches ee parse_format consts).
Notation parse_cases := (parse_cases autovars switches ee parse_format consts).
Notation parse_pory := (parse_pory autovars switches ee parse_format consts).
Notation parse_pory_cases := (parse_pory_cases autovars switches ee parse_format consts).
Notation parse_pory_stmts := (parse_pory_stmts autovars switches ee parse_format consts).

Definition pcases_ok (l : list (text * (list stmt * impdata))) : Prop := forall k ss imp, In (k, (ss, imp)) l -> OK ss.

Definition PI (f : nat) : Prop :=
  (forall script bs cs ts ss imp ts', advs T ts -> parse_stmt f script bs cs ts = Ok (ss, imp, ts') -> OK ss) /\
  (forall script bs cs start ts acc imp ss imp' ts', advs T ts -> parse_block f script bs cs start ts acc imp = Ok (ss, imp', ts') ->
      OK acc -> OK ss) /\
  (forall script bs cs start ts acc imp ss imp' ts', advs T ts -> parse_switch_block f script bs cs start ts acc imp = Ok (ss, imp', ts') ->
      OK acc -> OK ss) /\
  (forall req script bs cs ts e b imp ts', advs T ts -> parse_cond f req script bs cs ts = Ok (e, b, imp, ts') ->
      (forall e1, e = Some e1 -> cond_origin e1) /\ OK b) /\
  (forall script bs cs ts ss imp ts', advs T ts -> parse_if f script bs cs ts = Ok (ss, imp, ts') -> OK ss) /\
  (forall script bs cs ts acc imp l imp' ts', advs T ts -> parse_elifs f script bs cs ts acc imp = Ok (l, imp', ts') ->
      OKC acc -> OKC l) /\
  (forall script bs cs ts ss imp ts', advs T ts -> ttype (cur ts) = SWITCH -> parse_switch f script bs cs ts = Ok (ss, imp, ts') -> OK ss) /\
  (forall script bs cs brace ts acc seen hasdef imp l imp' ts', advs T ts ->
      parse_cases f script bs cs brace ts acc seen hasdef imp = Ok (l, imp', ts') -> OKK acc -> OKK l) /\
  (forall script bs cs ts ss imp ts', advs T ts -> parse_pory f script bs cs ts = Ok (ss, imp, ts') -> OK ss) /\
  (forall script bs cs start ts acc l ts', advs T ts -> parse_pory_cases f script bs cs start ts acc = Ok (l, ts') ->
      pcases_ok acc -> pcases_ok l) /\
  (forall script bs cs multi ts acc imp ss imp' ts', advs T ts -> parse_pory_stmts f script bs cs multi ts acc imp = Ok (ss, imp', ts') ->
      OK acc -> OK ss).

Lemma assoc_in {X} (l : list (text * X)) k v : assoc l k = Some v -> exists k', In (k', v) l.
Proof.
  induction l as [|[k' v'] r IH]; cbn; [discriminate|]. destruct (text_eqb k' k).
  - intros H; inversion H; subst. exists k'. now left.
  - intros H. destruct (IH H) as [k2 X0]. exists k2. now right.
Qed.

Lemma pi_all : forall f, PI f.
Proof.
  induction f as [|f IH].
  - unfold PI. split; [|split; [|split; [|split; [|split; [|split; [|split; [|split; [|split; [|split]]]]]]]]]; intros; discriminate.
  - destruct IH as (Istmt & Iblock & Iswb & Icond & Iif & Ielifs & Iswitch & Icases & Ipory & Ipcases & Ipstmts).
    destruct (adv_all autovars switches parse_format consts parse_format_advs ee f)
      as (Astmt & Ablock & Aswb & Acond & Aif & Aelifs & Aswitch & Acases & Apory & Apcases & Apstmts).
    unfold PI. split; [|split; [|split; [|split; [|split; [|split; [|split; [|split; [|split; [|split]]]]]]]]].
    + (* parse_stmt *)
      intros script bs cs ts ss imp ts' A H. rewrite parse_stmt_unfold in H.
      destruct (ttype (cur ts)) eqn:TY; try discriminate.
      * destruct (try_label ts) as [[l ts1]|] eqn:TL.
        -- inversion H; subst. unfold try_label in TL.
           destruct (peekis COLON ts); [inversion TL; subst; repeat constructor|].
           destruct (peekis LPAREN ts && _ && _ && _); inversion TL; subst; repeat constructor.
        -- bind H as [[c imp1] ts1] eqn E1. inversion H; subst. repeat constructor.
      * eapply Iif; eauto.
      * (* do *)
        destruct (expect_peek LBRACE ts) as [ts1|] eqn:P1; [|discriminate]. bind H as [[b imp1] ts2] eqn E2.
        destruct (expect_peek WHILE ts2) as [ts3|] eqn:P3; [|discriminate].
        destruct (expect_peek LPAREN ts3) as [ts4|] eqn:P4; [|discriminate]. bind H as [[e imp2] ts5] eqn E5. inversion H; subst.
        assert (A1 : advs T (adv ts1)) by advs_go.
        assert (A4 : advs T ts4) by advs_go.
        apply ok_dowhile; [exists consts, f, script, ts4, imp2, ts'; split; assumption| |constructor].
        eapply Iblock; [exact A1|exact E2|constructor].
      * (* while *)
        bind H as [[[c b] imp1] ts1] eqn E1. inversion H; subst.
        destruct (Icond _ _ _ _ _ _ _ _ _ A E1) as [HC HB]. apply ok_while; [exact HC|exact HB|constructor].
      * destruct bs as [|tg bs]; [discriminate|]. inversion H; subst. repeat constructor.
      * destruct cs as [|tg cs]; [discriminate|]. destruct (peekis RBRACE ts); [|discriminate]. inversion H; subst. repeat constructor.
      * eapply Iswitch; eauto.
      * eapply Ipory; eauto.
    + (* parse_block *)
      intros script bs cs start ts acc imp ss imp' ts' A H Hacc. rewrite parse_block_unfold in H.
      destruct (curis RBRACE ts); [inversion H; subst; exact Hacc|].
      destruct (curis EOF ts); [discriminate|]. bind H as [[ss1 imp1] ts1] eqn E1.
      eapply Iblock; [|exact H|]; [advs_go|]. apply ok_app; [exact Hacc|]. eapply Istmt; eauto.
    + (* parse_switch_block *)
      intros script bs cs start ts acc imp ss imp' ts' A H Hacc. rewrite parse_switch_block_unfold in H.
      destruct (curis RBRACE ts || curis CASE ts || curis DEFAULT ts); [inversion H; subst; exact Hacc|].
      destruct (curis EOF ts); [discriminate|]. bind H as [[ss1 imp1] ts1] eqn E1.
      eapply Iswb; [|exact H|]; [advs_go|]. apply ok_app; [exact Hacc|]. eapply Istmt; eauto.
    + (* parse_cond *)
      intros req script bs cs ts e b imp ts' A H. rewrite parse_cond_unfold in H. bind H as [[e1 imp1] ts1] eqn E1.
      destruct (expect_peek LBRACE ts1) as [ts2|] eqn:P2; [|discriminate]. bind H as [[b1 imp2] ts3] eqn E3. inversion H; subst.
      assert (A1 : advs T ts1 /\ (forall e0, e = Some e0 -> cond_origin e0)).
      { destruct (req || negb (peekis LBRACE ts)).
        - destruct (expect_peek LPAREN ts) as [tsa|] eqn:PA; [|discriminate]. bind E1 as [[e0 imp0'] tsb] eqn EB. inversion E1; subst.
          assert (Aa : advs T tsa) by advs_go.
          split; [advs_go|]. intros e1 X. inversion X; subst. exists consts, f, script, tsa, imp1, ts1. split; assumption.
        - inversion E1; subst. split; [exact A|intros ? X; discriminate]. }
      destruct A1 as [A1 HC]. split; [exact HC|]. eapply Iblock; [|exact E3|constructor]. advs_go.
    + (* parse_if *)
      intros script bs cs ts ss imp ts' A H. rewrite parse_if_unfold in H. bind H as [[[o l] imp1] ts1] eqn E1.
      destruct o as [e1|]; [|discriminate]. bind H as [[l0 imp2] t0] eqn E2.
      destruct (Icond _ _ _ _ _ _ _ _ _ A E1) as [HC HB].
      assert (A1 : advs T ts1) by advs_go.
      assert (A0 : advs T t0) by advs_go.
      assert (C : OKC ((e1, l) :: l0)).
      { constructor; [apply HC; reflexivity|exact HB|]. eapply Ielifs; [exact A1|exact E2|constructor]. }
      destruct (peekis ELSE t0).
      * cbn zeta in H. destruct (expect_peek LBRACE (adv t0)) as [ts4|] eqn:P4; [|discriminate]. bind H as [[eb imp3] ts5] eqn E5. inversion H; subst.
        apply ok_if; [exact C| |constructor]. constructor. eapply Iblock; [|exact E5|constructor]. advs_go.
      * inversion H; subst. apply ok_if; [exact C|constructor|constructor].
    + (* parse_elifs *)
      intros script bs cs ts acc imp l imp' ts' A H Hacc. rewrite parse_elifs_unfold in H.
      destruct (peekis ELSEIF ts); [|inversion H; subst; exact Hacc]. bind H as [[[o b1] imp1] ts1] eqn E1.
      destruct o as [e1|]; [|discriminate].
      assert (Aa : advs T (adv ts)) by advs_go.
      destruct (Icond _ _ _ _ _ _ _ _ _ Aa E1) as [HC HB].
      eapply Ielifs; [|exact H|]; [advs_go|]. apply ok_conds_app; [exact Hacc|]. constructor; [apply HC; reflexivity|exact HB|constructor].
    + (* parse_switch *)
      intros script bs cs ts ss imp ts' A TY H. pose proof H as H0. rewrite parse_switch_unfold in H. cbn zeta in H.
      destruct (expect_peek LPAREN ts) as [ts1|] eqn:P1; [|discriminate]. bind H as [[r0 imp1] ts2] eqn E2.
      bind H as [[[operand oline] pre] ts3] eqn E3.
      destruct (expect_peek LBRACE ts3) as [ts4|] eqn:P4; [|discriminate]. bind H as [[l imp2] ts5] eqn E5.
      destruct l as [|c0 l]; [discriminate|]. inversion H; subst.
      assert (A2 : advs T ts2) by advs_go.
      assert (A3 : advs T ts3).
      { destruct r0 as [[v c]|].
        - destruct (expect_peek RPAREN ts2) as [tsx|] eqn:PX; [|discriminate]. inversion E3; subst. advs_go.
        - cbn zeta in E3. bind E3 as [parts tsx] eqn EX. inversion E3; subst. advs_go. }
      assert (HK : OKK (c0 :: l)) by (eapply Icases; [|exact E5|constructor]; advs_go).
      destruct pre as [c|]; cbn [app] in *.
      * apply ok_cmdswitch; [|exact HK|constructor]. exists consts, f, script, bs, cs, ts, (impadd imp1 imp2), ts'. auto.
      * apply ok_switch; [|exact HK|constructor]. exists consts, f, script, bs, cs, ts, (impadd imp1 imp2), ts'. auto.
    + (* parse_cases *)
      intros script bs cs brace ts acc seen hasdef imp l imp' ts' A H Hacc. rewrite parse_cases_unfold in H.
      destruct (curis RBRACE ts); [inversion H; subst; exact Hacc|].
      destruct (curis CASE ts).
      * cbn zeta in H. destruct (collect_until consts f (is COLON) (adv ts) []) as [[parts ts2]|] eqn:CU; [|discriminate].
        destruct (existsb _ seen); [discriminate|]. bind H as [[b1 imp1] ts3] eqn E3.
        assert (A2 : advs T (adv ts2)) by advs_go.
        eapply Icases; [|exact H|]; [advs_go|]. apply ok_cases_app; [exact Hacc|]. constructor; [|constructor].
        eapply Iswb; [exact A2|exact E3|constructor].
      * destruct (curis DEFAULT ts); [|discriminate]. destruct hasdef; [discriminate|].
        destruct (expect_peek COLON ts) as [ts1|] eqn:P1; [|discriminate]. bind H as [[b1 imp1] ts2] eqn E2.
        assert (A1 : advs T (adv ts1)) by advs_go.
        eapply Icases; [|exact H|]; [advs_go|]. apply ok_cases_app; [exact Hacc|]. constructor; [|constructor].
        eapply Iswb; [exact A1|exact E2|constructor].
    + (* parse_pory *)
      intros script bs cs ts ss imp ts' A H. rewrite parse_pory_unfold in H. cbn zeta in H. bind H as [[sc o] ts1] eqn E1. bind H as [l ts2] eqn E2.
      assert (PC : pcases_ok l) by (eapply Ipcases; [|exact E2|intros ? ? ? []]; advs_go).
      destruct (assoc l (sval o)) as [[ss0 imp0']|] eqn:A1.
      * inversion H; subst. destruct (assoc_in _ _ _ A1) as [k X]. eapply PC; eauto.
      * destruct (assoc l (t "_")) as [[ss0 imp0']|] eqn:A2.
        -- inversion H; subst. destruct (assoc_in _ _ _ A2) as [k X]. eapply PC; eauto.
        -- destruct ee; [discriminate|]. inversion H; subst. constructor.
    + (* parse_pory_cases *)
      intros script bs cs start ts acc l ts' A H Hacc. rewrite parse_pory_cases_unfold in H.
      destruct (curis RBRACE ts); [inversion H; subst; exact Hacc|].
      destruct (curis EOF ts); [discriminate|].
      destruct (negb (curis IDENT ts) && negb (curis INT ts)); [discriminate|]. cbn zeta in H.
      destruct (curis COLON (adv ts) || curis LBRACE (adv ts)); [|discriminate]. bind H as [[l0 i] t0] eqn E0.
      assert (Aa : advs T (adv (adv ts))) by advs_go.
      assert (PC : pcases_ok ((tlit (cur ts), (l0, i)) :: acc)).
      { intros k ss imp [X|X]; [inversion X; subst; eapply Ipstmts; [exact Aa|exact E0|constructor] | eapply Hacc; eauto]. }
      destruct (curis LBRACE (adv ts)).
      * destruct (negb (curis RBRACE t0)); [discriminate|]. eapply Ipcases; [|exact H|exact PC]. advs_go.
      * eapply Ipcases; [|exact H|exact PC]. advs_go.
    + (* parse_pory_stmts *)
      intros script bs cs multi ts acc imp ss imp' ts' A H Hacc. rewrite parse_pory_stmts_unfold in H.
      destruct (curis RBRACE ts); [inversion H; subst; exact Hacc|]. bind H as [[l imp1] ts1] eqn E1.
      assert (S1 : OK l /\ advs T ts1).
      { destruct (curis PORYSWITCH ts); [split; [eapply Ipory; eauto|advs_go] | split; [eapply Istmt; eauto|advs_go]]. }
      destruct S1 as [S1 A1]. destruct multi.
      * eapply Ipstmts; [|exact H|]; [advs_go|]. apply ok_app; assumption.
      * inversion H; subst. apply ok_app; assumption.
Qed.

(* a script body is parsed with both stacks empty *)
Theorem parse_block_ok f script start ts ss imp ts' :
  advs T ts -> parse_block f script [] [] start ts [] imp0 = Ok (ss, imp, ts') -> OK ss.
Proof. intros A H. destruct (pi_all f) as (_ & Iblock & _). eapply (Iblock script [] []); eauto. constructor. Qed.
End WITHC.
End PARSE.

(* ====================================================================================================== *)
(*  4. whole programs                                                                                      *)
(* ====================================================================================================== *)
Section PROGRAM.
Variable autovars : list (text * autovar).
Variable switches : list (text * text).
Variable ee : bool.
Variable parse_format : toks -> res (token * text * text * toks).
Hypothesis parse_format_advs : forall ts tk v sty ts', parse_format ts = Ok (tk, v, sty, ts') -> forall a, advs a ts -> advs a ts'.
Variable T : toks.

Notation cond_origin := (cond_origin autovars switches ee parse_format T).
Notation switch_origin := (switch_origin autovars switches ee parse_format T).
(* in the program the parser returns, the labels of the hoisted texts / movements have been patched into the commands *)
Definition cond_origin_p (e' : bexp) : Prop := exists ps e, e' = pbexp ps e /\ cond_origin e.
Definition switch_origin_p (ss' : list stmt) : Prop := exists ps ss, ss' = map (pstmt ps) ss /\ switch_origin ss.
Notation OK := (ok cond_origin switch_origin).
Notation OKP := (ok cond_origin_p switch_origin_p).

Lemma ok_patch ps b : OK b -> OKP (map (pstmt ps) b).
Proof.
  apply (ok_pstmt cond_origin cond_origin_p switch_origin switch_origin_p ps).
  - intros e H. exists ps, e. split; [reflexivity|exact H].
  - intros ss H. exists ps, ss. split; [reflexivity|exact H].
Qed.

Notation parse_block c := (parse_block autovars switches ee parse_format c).
Notation ms_table c := (ms_table autovars switches ee parse_format c).
Notation ms_entries c := (ms_entries autovars switches ee parse_format c).
Notation parse_tops := (parse_tops autovars switches ee parse_format).
Notation parse_program := (parse_program autovars switches ee parse_format).

Ltac adv_ex H := first [eapply parse_block_advs; [exact parse_format_advs|exact H|] | eapply ms_collect_advs; [exact H|]
                       | eapply ms_table_advs; [exact parse_format_advs|exact H|] | eapply ms_entries_advs; [exact parse_format_advs|exact H|]
                       | eapply scope_modifier_advs; [exact H|]].
Ltac advs_now := advs_gox ltac:(fun K => adv_ex K).

Definition all_ok (P : list stmt -> Prop) (l : list (list stmt)) : Prop := Forall P l.
Lemma all_ok_app P a b : all_ok P a -> all_ok P b -> all_ok P (a ++ b).
Proof. intros. apply Forall_app. split; assumption. Qed.

Definition entries_ok (es : list tableentry) : Prop :=
  all_ok OK (flat_map (fun e => match teScript e with Some b => [b] | None => [] end) es).

Lemma ms_table_ok c f : forall mapname tyname ts i acc imp es imp' ts',
  advs T ts -> ms_table c f mapname tyname ts i acc imp = Ok (es, imp', ts') -> entries_ok acc -> entries_ok es.
Proof.
  induction f as [|f IH]; intros mapname tyname ts i acc imp es imp' ts' A H Hacc; [discriminate|].
  cbn [Parser.ms_table] in H. destruct (curis RBRACKET ts); [inversion H; subst; exact Hacc|]. cbn zeta in H.
  destruct (ms_collect c f (is COMMA) ts []) as [[cond ts1]|] eqn:C1; [|discriminate].
  destruct cond as [|c0 cond]; [discriminate|].
  destruct (ms_collect c f _ (adv ts1) []) as [[cmp ts3]|] eqn:C3; [|discriminate].
  destruct cmp as [|c1 cmp]; [discriminate|].
  assert (A3 : advs T ts3) by advs_now.
  destruct (curis COLON ts3).
  - destruct (expect_peek IDENT ts3) as [ts4|] eqn:P4; [|discriminate].
    eapply IH; [|exact H|].
    + advs_now.
    + unfold entries_ok. rewrite flat_map_app. apply all_ok_app; [exact Hacc|]. cbn. constructor.
  - bind H as [[b imp1] ts4] eqn E4. eapply IH; [|exact H|].
    + advs_now.
    + unfold entries_ok. rewrite flat_map_app. apply all_ok_app; [exact Hacc|].
      cbn. constructor; [|constructor]. eapply parse_block_ok; [exact parse_format_advs| |exact E4]. advs_now.
Qed.

Definition ms_ok (plain : list mapscript) (tables : list tablems) : Prop :=
  all_ok OK (bodies_of_top (TMapScripts [] false plain tables)).

Lemma ms_entries_ok c f : forall mapname ts plain tables imp plain' tables' imp' ts',
  advs T ts -> ms_entries c f mapname ts plain tables imp = Ok (plain', tables', imp', ts') -> ms_ok plain tables -> ms_ok plain' tables'.
Proof.
  induction f as [|f IH]; intros mapname ts plain tables imp plain' tables' imp' ts' A H Hacc; [discriminate|].
  cbn [Parser.ms_entries] in H. destruct (curis RBRACE ts); [inversion H; subst; exact Hacc|].
  destruct (negb (curis IDENT ts)); [discriminate|]. cbn zeta in H.
  unfold ms_ok, bodies_of_top in *. apply Forall_app in Hacc. destruct Hacc as [Hp Ht].
  destruct (curis COLON (adv ts)).
  - destruct (expect_peek IDENT (adv ts)) as [ts2|] eqn:P2; [|discriminate]. eapply IH; [|exact H|].
    + advs_now.
    + unfold ms_ok, bodies_of_top. rewrite flat_map_app. apply all_ok_app; [apply all_ok_app; [exact Hp|constructor]|exact Ht].
  - destruct (curis LBRACE (adv ts)).
    + bind H as [[b imp1] ts2] eqn E2. eapply IH; [|exact H|].
      * advs_now.
      * unfold ms_ok, bodies_of_top. rewrite flat_map_app. apply all_ok_app; [apply all_ok_app; [exact Hp|]|exact Ht].
        cbn. constructor; [|constructor]. eapply parse_block_ok; [exact parse_format_advs| |exact E2]. advs_now.
    + destruct (curis LBRACKET (adv ts)); [|discriminate]. bind H as [[es imp1] ts2] eqn E2. eapply IH; [|exact H|].
      * advs_now.
      * unfold ms_ok, bodies_of_top. rewrite flat_map_app. apply all_ok_app; [exact Hp|]. apply all_ok_app; [exact Ht|].
        cbn. rewrite app_nil_r. eapply ms_table_ok; [|exact E2|constructor]. advs_now.
Qed.

Lemma parse_tops_ok f : forall st ts st',
  advs T ts -> parse_tops f st ts = Ok st' -> all_ok OKP (bodies_of (ptops st)) -> all_ok OKP (bodies_of (ptops st')).
Proof.
  induction f as [|f IH]; intros st ts st' A H Hacc; [discriminate|].
  cbn [Parser.parse_tops] in H. destruct (curis EOF ts); [inversion H; subst; exact Hacc|]. cbn zeta in H.
  destruct (ttype (cur ts)); try discriminate.
  - (* script *)
    bind H as [[[[name g] b] imp] ts1] eqn E. destruct (add_implicit imp (ph st)) as [h' ps].
    assert (A1 : advs T ts1) by (eapply parse_script_advs; [exact parse_format_advs|exact E|exact A]).
    eapply IH; [apply advs_k_adv; exact A1|exact H|]. cbn [ptops]. rewrite bodies_of_app. apply all_ok_app; [exact Hacc|].
    cbn. constructor; [|constructor]. apply ok_patch.
    unfold Parser.parse_script in E. cbn zeta in E. bind E as [g0 ts0] eqn E0.
    destruct (expect_peek IDENT ts0) as [ts2|] eqn:P2; [|discriminate].
    destruct (expect_peek LBRACE ts2) as [ts3|] eqn:P3; [|discriminate]. bind E as [[b0 imp1] ts4] eqn E4. inversion E; subst.
    eapply parse_block_ok; [exact parse_format_advs| |exact E4]. advs_now.
  - (* raw *)
    bind H as [tp ts1] eqn E. eapply IH; [apply advs_k_adv; eapply parse_raw_advs; [exact E|exact A]|exact H|].
    cbn [ptops]. rewrite bodies_of_app. apply all_ok_app; [exact Hacc|].
    unfold parse_raw in E. destruct (expect_peek RAWSTRING ts); [|discriminate]. inversion E; subst. constructor.
  - (* text *)
    bind H as [td ts1] eqn E. eapply IH; [apply advs_k_adv; eapply parse_text_advs; [exact parse_format_advs|exact E|exact A]|exact H|].
    cbn [ptops]. rewrite bodies_of_app. apply all_ok_app; [exact Hacc|]. constructor.
  - (* movement *)
    bind H as [tp ts1] eqn E. eapply IH; [apply advs_k_adv; eapply parse_movement_advs; [exact E|exact A]|exact H|].
    cbn [ptops]. rewrite bodies_of_app. apply all_ok_app; [exact Hacc|].
    unfold parse_movement in E. bind E as [g0 ts0] eqn E0.
    destruct (expect_peek IDENT ts0) as [ts2|]; [|discriminate].
    destruct (expect_peek LBRACE ts2) as [ts3|]; [|discriminate]. bind E as [steps ts4] eqn E4. inversion E; subst. constructor.
  - (* mart *)
    bind H as [tp ts1] eqn E. eapply IH; [apply advs_k_adv; eapply parse_mart_advs; [exact E|exact A]|exact H|].
    cbn [ptops]. rewrite bodies_of_app. apply all_ok_app; [exact Hacc|].
    unfold parse_mart in E. bind E as [g0 ts0] eqn E0.
    destruct (expect_peek IDENT ts0) as [ts2|]; [|discriminate].
    destruct (expect_peek LBRACE ts2) as [ts3|]; [|discriminate]. bind E as [items ts4] eqn E4. inversion E; subst. constructor.
  - (* mapscripts *)
    bind H as [[tp imp] ts1] eqn E. destruct (add_implicit imp (ph st)) as [h' ps].
    assert (A1 : advs T ts1) by (eapply parse_mapscripts_advs; [exact parse_format_advs|exact E|exact A]).
    eapply IH; [apply advs_k_adv; exact A1|exact H|]. cbn [ptops]. rewrite bodies_of_app. apply all_ok_app; [exact Hacc|].
    unfold Parser.parse_mapscripts in E. bind E as [g0 ts0] eqn E0. cbn zeta in E.
    destruct (expect_peek IDENT ts0) as [ts2|] eqn:P2; [|discriminate].
    destruct (expect_peek LBRACE ts2) as [ts3|] eqn:P3; [|discriminate]. bind E as [[[plain tables] imp1] ts4] eqn E4. inversion E; subst.
    assert (A3 : advs T (adv ts3)) by advs_now.
    pose proof (ms_entries_ok _ _ _ _ _ _ _ _ _ _ _ A3 E4 (Forall_nil _)) as M.
    unfold ms_ok, bodies_of_top in M. apply Forall_app in M. destruct M as [Mp Mt].
    cbn. rewrite app_nil_r. apply all_ok_app.
    + clear - Mp. induction plain as [|m r IHr]; [constructor|]. cbn in *. destruct (msScript m); cbn in *.
      * inversion Mp; subst. constructor; [apply ok_patch; assumption|apply IHr; assumption].
      * apply IHr; assumption.
    + clear - Mt. induction tables as [|tb r IHr]; [constructor|]. cbn in *. apply Forall_app in Mt. destruct Mt as [M1 M2].
      apply all_ok_app; [|apply IHr; assumption]. clear - M1. induction (tmEntries tb) as [|e r IHr]; [constructor|]. cbn in *.
      destruct (teScript e); cbn in *.
      * inversion M1; subst. constructor; [apply ok_patch; assumption|apply IHr; assumption].
      * apply IHr; assumption.
  - (* const *)
    bind H as [c' ts1] eqn E. eapply IH; [apply advs_k_adv; eapply parse_const_advs; [exact E|exact A]|exact H|]. exact Hacc.
Qed.

(* THE INVARIANT for whole programs: every script body and every inline map-script body of an accepted program *)
Theorem parse_program_ok p :
  parse_program T = Ok p -> all_ok OKP (bodies_of (tops p)).
Proof.
  unfold Parser.parse_program. intros H. bind H as st eqn E. cbn zeta in H.
  destruct (dup_text [] _); [discriminate|]. destruct (dup_mov [] _); [discriminate|]. inversion H; subst. cbn [tops].
  rewrite bodies_of_app. apply all_ok_app.
  - eapply parse_tops_ok; [apply advs_refl|eassumption|constructor].
  - assert (M : movs_only (ph st)) by (eapply parse_tops_movs; [eassumption|reflexivity]). unfold movs_only in M. rewrite M. constructor.
Qed.

(* ---------- positions: a number of remaining tokens names one position of the program ---------- *)
Lemma advs_fix a b : advs a b -> List.length b = List.length a -> b = a.
Proof.
  induction 1 as [|ts ts' Hadv IH]; [reflexivity|]. intros L.
  pose proof (advs_len _ _ Hadv) as L1. pose proof (adv_len ts) as L2.
  assert (E : adv ts = ts).
  { destruct ts as [|x [|y r]]; [reflexivity|reflexivity|]. cbn [adv List.length] in *. lia. }
  rewrite E in IH. apply IH. exact L.
Qed.
Lemma advs_linear a b c : advs a b -> advs a c -> advs b c \/ advs c b.
Proof.
  induction 1 as [|ts ts' Hadv IH]; intros Hc; [left; exact Hc|].
  inversion Hc as [|? ? Hc']; subst; [right; apply advs_step; exact Hadv|]. apply IH. exact Hc'.
Qed.
Lemma advs_length_inj a b c : advs a b -> advs a c -> List.length b = List.length c -> b = c.
Proof.
  intros Hb Hc L. destruct (advs_linear a b c Hb Hc) as [H|H]; [symmetry; apply (advs_fix _ _ H); lia|apply (advs_fix _ _ H); lia].
Qed.

(* ---------- leaves and patching ---------- *)
Lemma leaves_pbexp ps e : leaves (pbexp ps e) = map (pleaf ps) (leaves e).
Proof. induction e as [l|o a IHa b IHb]; cbn [pbexp leaves map]; [reflexivity|]. rewrite map_app, IHa, IHb. reflexivity. Qed.
Lemma pleaf_plain ps l : lpre l = None -> pleaf ps l = l.
Proof. destruct l as [k o li op v s pre]. cbn. intros ->. reflexivity. Qed.
Lemma pcmd_keeps ps c : ctok (pcmd ps c) = ctok c /\ Ast.cid (pcmd ps c) = Ast.cid c.
Proof.
  unfold pcmd. destruct (apply_patches ps c) as [c'|] eqn:E; [|split; reflexivity].
  revert c c' E. induction ps as [|[[i a] lbl] r IH]; intros c c' E; cbn [apply_patches] in E; [injection E as <-; split; reflexivity|].
  destruct (Nat.eqb i (Ast.cid c)); [|apply IH; exact E].
  destruct (set_nth a (cargs c) lbl) as [args|]; [|discriminate]. destruct (IH _ _ E) as [E1 E2]. cbn in E1, E2. split; assumption.
Qed.

(* ====================================================================================================== *)
(*  5. what the origins say (AutoVarParse.v, LeafForms.v) - for every site of a judged body                 *)
(* ====================================================================================================== *)
Notation command_stmt := (command_stmt switches ee parse_format).
Notation parse_stmt := (parse_stmt autovars switches ee parse_format).
Notation parse_switch := (parse_switch autovars switches ee parse_format).
Notation leaf_expr := (leaf_expr autovars switches ee parse_format).

(* every leaf of every condition of a judged body is what the leaf parser returned at a position of the program
   (up to the patch of hoisted labels into the preamble command and the negation pushed down from an enclosing '!( )') *)
Lemma leaf_sites B e l : OKP B -> cond_in e B -> In l (leaves e) ->
  exists ps consts f script ts0 l0 impl rest,
    advs T ts0 /\ leaf_expr consts f script ts0 = Ok (l0, impl, rest) /\ (l = pleaf ps l0 \/ l = pleaf ps (neg_leaf l0)).
Proof.
  intros HB HC HIn. destruct (ok_cond_in _ _ B e HB HC) as (ps & e0 & -> & (consts & f & script & ts & imp & ts' & A & HE)).
  rewrite leaves_pbexp in HIn. apply in_map_iff in HIn. destruct HIn as (l1 & <- & HIn).
  destruct (proj1 (condition_leaves autovars switches ee parse_format consts parse_format_advs f) _ _ _ _ _ _ _ HE l1 HIn)
    as (f' & ts0 & l0 & impl & rest & _ & A0 & HL & Hl).
  exists ps, consts, f', script, ts0, l0, impl, rest. split; [eapply advs_trans; eassumption|]. split; [exact HL|].
  destruct Hl as [->| ->]; auto.
Qed.

(* (C11) EVERY LEAF WITH A PREAMBLE, in every condition (if / elif / while / do-while) at any depth of a judged body:
   the preamble is (the patched form of) the command [c] that the command parser - and the statement parser - returns at a
   position [tsc] of the program, [tsc] is the position with [cid c] remaining tokens, its name is configured in [autovars],
   and the leaf compares the configured variable of that entry (compared_var_spec: the fixed name, or the argument of [c] at
   the configured position) *)
Theorem autovar_leaf_sites B e l c' : OKP B -> cond_in e B -> In l (leaves e) -> lpre l = Some c' ->
  exists ps c consts f script tsc av impc ts2,
    c' = pcmd ps c /\
    advs T tsc /\ List.length tsc = Ast.cid c /\ ttype (cur tsc) = IDENT /\ cname c = tlit (cur tsc) /\ ctok c = cur tsc /\
    assoc autovars (cname c) = Some av /\
    command_stmt consts f script tsc = Ok (c, impc, ts2) /\
    (forall bs cs, try_label tsc = None -> parse_stmt consts (S f) script bs cs tsc = Ok ([SCmd c], impc, ts2)) /\
    lk l = KVar /\ lline l = tline (ctok c) /\ compared_var av c = Some (loperand l).
Proof.
  intros HB HC HIn HP. destruct (ok_cond_in _ _ B e HB HC) as (ps & e0 & -> & (consts & f & script & ts & imp & ts' & A & HE)).
  rewrite leaves_pbexp in HIn. apply in_map_iff in HIn. destruct HIn as (l1 & <- & HIn).
  destruct (lpre l1) as [c|] eqn:HP1; [|cbn [pleaf lpre] in HP; rewrite HP1 in HP; discriminate].
  assert (Ec : c' = pcmd ps c) by (cbn [pleaf lpre] in HP; rewrite HP1 in HP; congruence).
  destruct (every_preamble_in_a_condition autovars switches ee parse_format consts parse_format_advs f false false script ts e0 imp ts' l1 c HE HIn HP1)
    as (tsc & av & impc & ts2 & A1 & HI & HA & HCS & HPS & HK & HLi & HV).
  destruct (command_stmt_head switches ee parse_format consts f script tsc c impc ts2 HCS) as (N1 & N2 & N3).
  exists ps, c, consts, f, script, tsc, av, impc, ts2.
  split; [exact Ec|]. split; [eapply advs_trans; eassumption|]. split; [symmetry; exact N3|]. split; [exact HI|].
  split; [exact N1|]. split; [exact N2|]. split; [rewrite N1; exact HA|]. split; [exact HCS|]. split; [exact HPS|].
  cbn [pleaf lk lline loperand]. auto.
Qed.

(* EVERY LEAF WITHOUT PREAMBLE is one of the plain forms of LeafForms.v: var( ) / flag( ) / defeated( ) with its comparison,
   written at a position of the program, consumed exactly, with the record of the form (negated when under '!( )') *)
Theorem plain_leaf_sites B e l : eof_ended T -> OKP B -> cond_in e B -> In l (leaves e) -> lpre l = None ->
  exists consts ts0 l0 rest lf,
    advs T ts0 /\ (l = l0 \/ l = neg_leaf l0) /\
    LeafForms.pure_form lf /\ LeafForms.shape_form lf /\ ts0 = cur ts0 :: LeafForms.form_toks lf ++ rest /\
    l0 = LeafForms.form_leaf autovars consts lf 0 /\ LeafForms.next_ok lf (cur rest).
Proof.
  intros EO HB HC HIn HP.
  destruct (leaf_sites B e l HB HC HIn) as (ps & consts & f & script & ts0 & l0 & impl & rest & A & HL & Hl).
  assert (HP0 : lpre l0 = None).
  { destruct Hl as [->| ->]; cbn [pleaf lpre neg_leaf] in HP; destruct (lpre l0); [discriminate|reflexivity|discriminate|reflexivity]. }
  assert (Hl' : l = l0 \/ l = neg_leaf l0).
  { destruct Hl as [->| ->]; [left; apply pleaf_plain; exact HP0|right; apply pleaf_plain; exact HP0]. }
  destruct (LeafForms.accepted_plain_leaf_is_a_form autovars switches ee parse_format consts script f ts0 l0 impl rest HL
              (advs_eof _ _ A EO) HP0) as (lf & F1 & F2 & F3 & F4 & _ & F6).
  exists consts, ts0, l0, rest, lf. auto 10.
Qed.

(* ---------- switch ---------- *)
Lemma plain_switch_parse consts f script bs cs ts ss imp rest :
  parse_switch consts (S f) script bs cs ts = Ok (ss, imp, rest) -> peekis VAR (adv ts) = true ->
  exists parts tsx cases,
    peekis LPAREN ts = true /\ peekis LPAREN (adv (adv ts)) = true /\
    switch_operand consts f (cur ts) (adv (adv (adv (adv ts)))) [] = Ok (parts, tsx) /\
    ss = [SSwitch (List.length ts) (join sp parts) (tline (cur (adv (adv (adv (adv ts)))))) cases].
Proof.
  intros H HV. rewrite parse_switch_unfold in H. cbn zeta in H. unfold expect_peek at 1 in H.
  destruct (peekis LPAREN ts) eqn:HL; [|discriminate]. unfold var_or_autovar in H. rewrite HV in H. cbn zeta in H.
  unfold expect_peek at 1 in H. destruct (peekis LPAREN (adv (adv ts))) eqn:HL2; [|discriminate]. cbn beta iota zeta in H.
  destruct (switch_operand consts f (cur ts) (adv (adv (adv (adv ts)))) []) as [[parts tsx]|e| |] eqn:SO; try discriminate.
  cbn beta iota zeta in H. destruct (expect_peek LBRACE (adv tsx)) as [ts4|]; [|discriminate].
  bind H as [[cases imp'] ts5] eqn E5. destruct cases as [|c0 cases]; [discriminate|]. inversion H; subst.
  exists parts, tsx, (c0 :: cases). auto.
Qed.

(* (C11) EVERY SWITCH, in every block at any depth of a judged body: its tag is the number of tokens that remain at the
   'switch' keyword [ts] that produced it.  Written on var( ) it carries the operand as written.  WRITTEN ON A COMMAND
   (anything else than 'var' after "switch ("): the statement just before it in its block is (the patched form of) that
   command [c] - what the command parser, and the statement parser, return on the tokens after "switch (" - the name of [c]
   is configured in [autovars], and the switch is on the configured variable of [c] (compared_var_spec), at the command's line *)
Theorem switch_sites B B' l1 tg v ol cases l2 :
  OKP B -> block_in B' B -> B' = l1 ++ SSwitch tg v ol cases :: l2 ->
  exists ts, advs T ts /\ List.length ts = tg /\ ttype (cur ts) = SWITCH /\ peekis LPAREN ts = true /\
    ((peekis VAR (adv ts) = true /\
      exists consts f parts tsx, switch_operand consts f (cur ts) (adv (adv (adv (adv ts)))) [] = Ok (parts, tsx) /\
        v = join sp parts /\ ol = tline (cur (adv (adv (adv (adv ts)))))) \/
     (peekis VAR (adv ts) = false /\
      exists ps c l1' consts f script av impc ts2,
        l1 = l1' ++ [SCmd (pcmd ps c)] /\
        cname c = tlit (pk 1 (adv ts)) /\ ctok c = pk 1 (adv ts) /\ Ast.cid c = List.length (adv (adv ts)) /\
        assoc autovars (cname c) = Some av /\
        command_stmt consts f script (adv (adv ts)) = Ok (c, impc, ts2) /\
        (ttype (pk 1 (adv ts)) = IDENT -> try_label (adv (adv ts)) = None ->
           forall bs cs, parse_stmt consts (S f) script bs cs (adv (adv ts)) = Ok ([SCmd c], impc, ts2)) /\
        peekis RPAREN ts2 = true /\
        compared_var av c = Some v /\ ol = tline (ctok c))).
Proof.
  intros HB HBI E.
  destruct (ok_switch_in _ _ B B' l1 tg v ol cases l2 HB HBI E) as [(ps & ss & Es & O)|(l1' & c' & El & (ps & ss & Es & O))];
    destruct O as (consts & f & script & bs & cs & ts & imp & ts' & A & TY & HP);
    destruct (peekis VAR (adv ts)) eqn:HV.
  - destruct (plain_switch_parse consts f script bs cs ts ss imp ts' HP HV) as (parts & tsx & cases0 & HL & HL2 & SO & ->).
    cbn [map pstmt] in Es. injection Es as -> -> -> _.
    exists ts. split; [exact A|]. split; [reflexivity|]. split; [exact TY|]. split; [exact HL|]. left. split; [exact HV|].
    exists consts, f, parts, tsx. auto.
  - exfalso. destruct (autovar_switch_parse autovars switches ee parse_format consts f script bs cs ts ss imp ts' HP HV)
      as (av & c & impc & ts2 & cases0 & impb & _ & _ & _ & _ & _ & _ & _ & _ & v0 & _ & ->). discriminate Es.
  - exfalso. destruct (plain_switch_parse consts f script bs cs ts ss imp ts' HP HV) as (parts & tsx & cases0 & _ & _ & _ & ->).
    discriminate Es.
  - destruct (autovar_switch_parse autovars switches ee parse_format consts f script bs cs ts ss imp ts' HP HV)
      as (av & c & impc & ts2 & cases0 & impb & HL & HA & HCS & HR & _ & _ & _ & _ & v0 & HCV & ->).
    cbn [map pstmt] in Es. injection Es as -> -> -> -> _.
    destruct (command_stmt_head switches ee parse_format consts f script _ c impc ts2 HCS) as (N1 & N2 & N3).
    rewrite cur_adv in N1, N2.
    exists ts. split; [exact A|]. split; [reflexivity|]. split; [exact TY|]. split; [exact HL|]. right. split; [exact HV|].
    exists ps, c, l1', consts, f, script, av, impc, ts2.
    split; [exact El|]. split; [exact N1|]. split; [exact N2|]. split; [exact N3|]. split; [rewrite N1; exact HA|]. split; [exact HCS|].
    split; [|auto].
    intros HI HT bs' cs'. rewrite CmdArgs.parse_stmt_eq; [rewrite HCS; reflexivity| |exact HT]. rewrite cur_adv. exact HI.
Qed.
End PROGRAM.

(* ====================================================================================================== *)
(*  6. THE THEOREMS ON SOURCE TEXTS: whatever the text, the classification of non-ASCII code points, the    *)
(*     command configuration [autovars], the switches, the fonts and the mode                              *)
(* ====================================================================================================== *)
(* the invariant: every script body and inline map-script body of the parsed program is judged *)
Theorem accepted_bodies_have_origins hl hd hs autovars switches ee fc cli_font cli_maxlen s p :
  parse_program autovars switches ee (Format.parse_format fc cli_font cli_maxlen ee) (lex hl hd hs s) = Ok p ->
  Forall (ok (cond_origin_p autovars switches ee (Format.parse_format fc cli_font cli_maxlen ee) (lex hl hd hs s))
             (switch_origin_p autovars switches ee (Format.parse_format fc cli_font cli_maxlen ee) (lex hl hd hs s)))
         (bodies_of (tops p)).
Proof.
  intros H. exact (parse_program_ok autovars switches ee _ (ProgSrc.parse_format_advs fc cli_font cli_maxlen ee) _ p H).
Qed.

(* C11, conditions: every leaf with a preamble command, in every condition of every body of every accepted program *)
Theorem program_autovar_leaves hl hd hs autovars switches ee fc cli_font cli_maxlen s p :
  parse_program autovars switches ee (Format.parse_format fc cli_font cli_maxlen ee) (lex hl hd hs s) = Ok p ->
  forall body e l c', In body (bodies_of (tops p)) -> cond_in e body -> In l (leaves e) -> lpre l = Some c' ->
  exists ps c consts f script tsc av impc ts2,
    c' = pcmd ps c /\
    advs (lex hl hd hs s) tsc /\ List.length tsc = Ast.cid c /\ ttype (cur tsc) = IDENT /\ cname c = tlit (cur tsc) /\ ctok c = cur tsc /\
    assoc autovars (cname c) = Some av /\
    command_stmt switches ee (Format.parse_format fc cli_font cli_maxlen ee) consts f script tsc = Ok (c, impc, ts2) /\
    (forall bs cs, try_label tsc = None ->
       parse_stmt autovars switches ee (Format.parse_format fc cli_font cli_maxlen ee) consts (S f) script bs cs tsc = Ok ([SCmd c], impc, ts2)) /\
    lk l = KVar /\ lline l = tline (ctok c) /\ compared_var av c = Some (loperand l).
Proof.
  intros H body e l c' HB. pose proof (accepted_bodies_have_origins _ _ _ _ _ _ _ _ _ _ _ H) as A. rewrite Forall_forall in A.
  eapply autovar_leaf_sites; [apply ProgSrc.parse_format_advs|apply A; exact HB].
Qed.

(* C11, conditions: every leaf without preamble is a plain form *)
Theorem program_plain_leaves hl hd hs autovars switches ee fc cli_font cli_maxlen s p :
  parse_program autovars switches ee (Format.parse_format fc cli_font cli_maxlen ee) (lex hl hd hs s) = Ok p ->
  forall body e l, In body (bodies_of (tops p)) -> cond_in e body -> In l (leaves e) -> lpre l = None ->
  exists consts ts0 l0 rest lf,
    advs (lex hl hd hs s) ts0 /\ (l = l0 \/ l = neg_leaf l0) /\
    LeafForms.pure_form lf /\ LeafForms.shape_form lf /\ ts0 = cur ts0 :: LeafForms.form_toks lf ++ rest /\
    l0 = LeafForms.form_leaf autovars consts lf 0 /\ LeafForms.next_ok lf (cur rest).
Proof.
  intros H body e l HB. pose proof (accepted_bodies_have_origins _ _ _ _ _ _ _ _ _ _ _ H) as A. rewrite Forall_forall in A.
  eapply plain_leaf_sites; [apply ProgSrc.parse_format_advs|apply ProgSrc.lex_eof|apply A; exact HB].
Qed.

(* C11, switch: every switch statement of every block of every body of every accepted program *)
Theorem program_switches hl hd hs autovars switches ee fc cli_font cli_maxlen s p :
  parse_program autovars switches ee (Format.parse_format fc cli_font cli_maxlen ee) (lex hl hd hs s) = Ok p ->
  forall body blk l1 tg v ol cases l2, In body (bodies_of (tops p)) -> block_in blk body -> blk = l1 ++ SSwitch tg v ol cases :: l2 ->
  exists ts, advs (lex hl hd hs s) ts /\ List.length ts = tg /\ ttype (cur ts) = SWITCH /\ peekis LPAREN ts = true /\
    ((peekis VAR (adv ts) = true /\
      exists consts f parts tsx, switch_operand consts f (cur ts) (adv (adv (adv (adv ts)))) [] = Ok (parts, tsx) /\
        v = join sp parts /\ ol = tline (cur (adv (adv (adv (adv ts)))))) \/
     (peekis VAR (adv ts) = false /\
      exists ps c l1' consts f script av impc ts2,
        l1 = l1' ++ [SCmd (pcmd ps c)] /\
        cname c = tlit (pk 1 (adv ts)) /\ ctok c = pk 1 (adv ts) /\ Ast.cid c = List.length (adv (adv ts)) /\
        assoc autovars (cname c) = Some av /\
        command_stmt switches ee (Format.parse_format fc cli_font cli_maxlen ee) consts f script (adv (adv ts)) = Ok (c, impc, ts2) /\
        (ttype (pk 1 (adv ts)) = IDENT -> try_label (adv (adv ts)) = None ->
           forall bs cs, parse_stmt autovars switches ee (Format.parse_format fc cli_font cli_maxlen ee) consts (S f) script bs cs (adv (adv ts)) =
                         Ok ([SCmd c], impc, ts2)) /\
        peekis RPAREN ts2 = true /\
        compared_var av c = Some v /\ ol = tline (ctok c))).
Proof.
  intros H body blk l1 tg v ol cases l2 HB. pose proof (accepted_bodies_have_origins _ _ _ _ _ _ _ _ _ _ _ H) as A. rewrite Forall_forall in A.
  eapply switch_sites. apply A; exact HB.
Qed.

(* ====================================================================================================== *)
(*  7. the semantics of a leaf with a preamble, and the composition with C01                               *)
(* ====================================================================================================== *)
From Pory Require SemTgt WorkLabels RenderFromSource C01Top.

(* the same leaf without its preamble: the plain comparison of the variable *)
Definition plain_of (l : leaf) : leaf :=
  {| lk := lk l; loperand := loperand l; lline := lline l; lop := lop l; lvalue := lvalue l; lstrict := lstrict l; lpre := None |}.

Section SEMANTICS.
Variable St : Type.
Variable exec : cmd -> St -> stepres St.
Variable flag_set trainer_beaten : text -> St -> bool.
Variable cmp_var cmp_var_value : text -> text -> St -> comparison.
Variable case_matches : text -> text -> St -> bool.
Notation eval_leaf := (eval_leaf St exec flag_set trainer_beaten cmp_var cmp_var_value).
Notation eval_bexp := (eval_bexp St exec flag_set trainer_beaten cmp_var cmp_var_value).
Notation sstep := (sstep St exec flag_set trainer_beaten cmp_var cmp_var_value case_matches).

(* a leaf with preamble [p]: run p - the one event, exactly as the step of the command statement [SCmd p] - then evaluate the
   plain comparison in the state p leaves; when p stops the script nothing is compared *)
Theorem autovar_leaf_is_command_then_plain_leaf l p s :
  lpre l = Some p ->
  eval_leaf l s =
    match exec p s with
    | Continue _ s' => let '(ev, s2, r) := eval_leaf (plain_of l) s' in ([p] ++ ev, s2, r)
    | Stop _ => ([p], s, None)
    end.
Proof. intros H. unfold Sem2.eval_leaf. rewrite H. cbn [plain_of lpre]. destruct (exec p s); reflexivity. Qed.

(* the step of a command statement (a command that is not end / return / goto): the same event, the same state change *)
Theorem command_statement_step find_label c rest k s s' :
  is_name c "end" = false -> is_name c "return" = false -> is_name c "goto" = false -> exec c s = Continue _ s' ->
  sstep find_label (SRun (SCmd c) rest k) s = ([c], enter rest k, s').
Proof. intros H1 H2 H3 H4. cbn [Sem2.sstep]. rewrite H1, H2, H3, H4. reflexivity. Qed.

(* a switch written on a command: the two statements the parser returns are stepped one after the other - the command first,
   then the selection of the case on the variable, in the state the command leaves *)
Theorem command_then_switch_steps find_label c tg v ol cases rest k s s' :
  is_name c "end" = false -> is_name c "return" = false -> is_name c "goto" = false -> exec c s = Continue _ s' ->
  sstep find_label (SRun (SCmd c) (SSwitch tg v ol cases :: rest) k) s = ([c], SRun (SSwitch tg v ol cases) rest k, s') /\
  sstep find_label (SRun (SSwitch tg v ol cases) rest k) s' =
    ([], enter (select_case cases (fun x => case_matches v x s')) (Kswitch tg (kseq rest k)), s').
Proof. intros H1 H2 H3 H4. split; [apply command_statement_step; assumption|reflexivity]. Qed.
End SEMANTICS.

(* C11 composed with C01 (C01Top.compiled_scripts_correct_from_source).  For every body of every accepted program whose
   emitted code passes the two checks of C01:
   1. the emitted code and the structured source (Sem2) perform the same commands and finish the same way.  The source
      semantics evaluates a condition with [eval_bexp] - left to right, the right operand of '&&' / '||' only when the left one
      did not decide (Properties_C11.and_short_circuit / or_short_circuit) - once per test, i.e. again at every iteration of
      a loop (Sem2.loop_test_w, SLoopD);
   2. each leaf of each condition of the body that has a preamble was written on a command configured in [autovars]; its
      evaluation is: the (patched) command - one event -, then the comparison of the configured variable (the fixed name, or
      the argument at the configured position: compared_var_spec) in the state the command leaves;
   3. each switch of the body whose operand is not written with 'var' is preceded in its block by the (patched) command
      statement it was written on and selects on the configured variable of that command.
   So in the emitted code the command runs exactly where Sem2 runs the preamble. *)
Theorem compiled_autovar_conditions
  (St : Type) (exec : cmd -> St -> stepres St) (flag_set trainer_beaten : text -> St -> bool)
  (cmp_var cmp_var_value : text -> text -> St -> comparison) (case_matches : text -> text -> St -> bool)
  hl hd hs autovars switches ee fc cli_font cli_maxlen (src : text) (p : program) :
  parse_program autovars switches ee (Format.parse_format fc cli_font cli_maxlen ee) (lex hl hd hs src) = Ok p ->
  forall body, In body (bodies_of (tops p)) ->
  NoDup (WorkLabels.dlabs body) ->
  forall (mp : option text) (tl : list text) (name : text) (glob optimize : bool) (w : wst) (code : list instr),
  emit_graph body = Emitter.Ok w ->
  emit_script mp tl name glob optimize body = Emitter.Ok code ->
  RenderFromSource.names_okb (finals w) code = true ->
  (Z.of_nat (List.length (finals w)) <= 10 ^ 40)%Z ->
  ((forall n s, exists m,
      run sfinal (sstep St exec flag_set trainer_beaten cmp_var cmp_var_value case_matches (fun l => SemTgt.fl_body l body Kstop)) n (enter body Kstop) s =
      run (@SemTgt.tfinal) (SemTgt.tstep St exec flag_set trainer_beaten cmp_var cmp_var_value case_matches code) m (SemTgt.jump code name) s) /\
   (forall m s, exists n,
      res_le (run (@SemTgt.tfinal) (SemTgt.tstep St exec flag_set trainer_beaten cmp_var cmp_var_value case_matches code) m (SemTgt.jump code name) s)
             (run sfinal (sstep St exec flag_set trainer_beaten cmp_var cmp_var_value case_matches (fun l => SemTgt.fl_body l body Kstop)) n (enter body Kstop) s))) /\
  (forall e l c', cond_in e body -> In l (leaves e) -> lpre l = Some c' ->
     (exists ps c av, c' = pcmd ps c /\ assoc autovars (cname c) = Some av /\ compared_var av c = Some (loperand l)) /\
     forall s, eval_leaf St exec flag_set trainer_beaten cmp_var cmp_var_value l s =
       match exec c' s with
       | Continue _ s' => ([c'], s', Some (cmp_holds (lop l) ((if lstrict l then cmp_var_value else cmp_var) (loperand l) (lvalue l) s')))
       | Stop _ => ([c'], s, None)
       end) /\
  (forall blk l1 tg v ol cases l2, block_in blk body -> blk = l1 ++ SSwitch tg v ol cases :: l2 ->
     exists ts, advs (lex hl hd hs src) ts /\ List.length ts = tg /\ ttype (cur ts) = SWITCH /\
       (peekis VAR (adv ts) = false ->
        exists ps c l1' av, l1 = l1' ++ [SCmd (pcmd ps c)] /\ cname c = tlit (pk 1 (adv ts)) /\
          assoc autovars (cname c) = Some av /\ compared_var av c = Some v)).
Proof.
  intros HP body HB ND mp tl name glob optimize w code HW HE NM SZ. split; [|split].
  - exact (C01Top.compiled_scripts_correct_from_source St exec flag_set trainer_beaten cmp_var cmp_var_value case_matches
             hl hd hs autovars switches ee fc cli_font cli_maxlen src p HP body HB ND mp tl name glob optimize w code HW HE NM SZ).
  - intros e l c' HC HIn HPre.
    destruct (program_autovar_leaves hl hd hs autovars switches ee fc cli_font cli_maxlen src p HP body e l c' HB HC HIn HPre)
      as (ps & c & consts & f & script & tsc & av & impc & ts2 & Ec & _ & _ & _ & _ & _ & HA & _ & _ & HK & _ & HV).
    split; [exists ps, c, av; auto|]. intros s. unfold Sem2.eval_leaf, leaf_holds. rewrite HPre, HK. reflexivity.
  - intros blk l1 tg v ol cases l2 HBI E.
    destruct (program_switches hl hd hs autovars switches ee fc cli_font cli_maxlen src p HP body blk l1 tg v ol cases l2 HB HBI E)
      as (ts & A & L & TY & _ & [[HV _]|[_ (ps & c & l1' & consts & f & script & av & impc & ts2 & El & N1 & _ & _ & HA & _ & _ & _ & HCV & _)]]).
    + exists ts. split; [exact A|]. split; [exact L|]. split; [exact TY|]. intros X. congruence.
    + exists ts. split; [exact A|]. split; [exact L|]. split; [exact TY|]. intros _. exists ps, c, l1', av. auto.
Qed.

(* ---------- the events of one evaluation of a condition ---------- *)
(* [subseq a b]: a is b with some elements left out (same order, no element used twice) *)
Inductive subseq {A : Type} : list A -> list A -> Prop :=
| ss_nil : subseq [] []
| ss_skip x a b : subseq a b -> subseq a (x :: b)
| ss_take x a b : subseq a b -> subseq (x :: a) (x :: b).

Lemma subseq_nil_l {A} (l : list A) : subseq [] l.
Proof. induction l; constructor; assumption. Qed.
Lemma subseq_app {A} (a b c d : list A) : subseq a b -> subseq c d -> subseq (a ++ c) (b ++ d).
Proof. induction 1 as [|x a' b' _ IH|x a' b' _ IH]; intros K; cbn [app]; [exact K|apply ss_skip; auto|apply ss_take; auto]. Qed.
Lemma subseq_app_l {A} (a b c : list A) : subseq a b -> subseq a (b ++ c).
Proof. intros H. rewrite <- (app_nil_r a). apply subseq_app; [exact H|apply subseq_nil_l]. Qed.

(* the preamble commands of a condition, in the order its leaves are written *)
Definition preambles (e : bexp) : list cmd := flat_map (fun l => match lpre l with Some p => [p] | None => [] end) (leaves e).

Section EVENTS.
Variable St : Type.
Variable exec : cmd -> St -> stepres St.
Variable flag_set trainer_beaten : text -> St -> bool.
Variable cmp_var cmp_var_value : text -> text -> St -> comparison.
Notation eval_bexp := (eval_bexp St exec flag_set trainer_beaten cmp_var cmp_var_value).

(* ONE evaluation of a condition performs some of the preamble commands of its leaves, in the order of the leaves, each at
   most once (which ones: and_short_circuit / or_short_circuit - those of the leaves reached before the expression is
   decided); nothing else happens during the evaluation *)
Theorem condition_events_are_preambles_in_order e : forall s, subseq (fst (fst (eval_bexp e s))) (preambles e).
Proof.
  induction e as [l|o a IHa b IHb]; intros s.
  - unfold preambles. cbn [leaves flat_map Sem2.eval_bexp]. unfold eval_leaf. destruct (lpre l) as [p|]; [|apply ss_nil].
    destruct (exec p s); cbn [fst app]; apply ss_take, ss_nil.
  - assert (P : preambles (BBin o a b) = preambles a ++ preambles b) by (unfold preambles; cbn [leaves]; apply flat_map_app).
    rewrite P. cbn [Sem2.eval_bexp]. specialize (IHa s). destruct (eval_bexp a s) as [[ev s1] [va|]]; cbn [fst] in IHa.
    + destruct (match o with BAnd => negb va | BOr => va end).
      * cbn [fst]. apply subseq_app_l. exact IHa.
      * specialize (IHb s1). destruct (eval_bexp b s1) as [[ev2 s2] r]. cbn [fst] in *. apply subseq_app; assumption.
    + cbn [fst]. apply subseq_app_l. exact IHa.
Qed.

End EVENTS.

(* ====================================================================================================== *)
(*  7b. conditions that are closed by ')' : the preamble is the statement, with no premise on the tokens    *)
(* ====================================================================================================== *)
(* ---------- a leaf followed by '&&', '||' or ')' : its command is not followed by a label colon ---------- *)
Definition follow (ts : toks) : Prop := ttype (cur ts) = AND \/ ttype (cur ts) = OR \/ ttype (cur ts) = RPAREN.

Lemma pk_adv n ts : pk n (adv ts) = pk (S n) ts.
Proof.
  destruct ts as [|x [|y r]]; [destruct n; reflexivity| |reflexivity].
  unfold pk. cbn [adv last]. destruct n as [|[|n]]; reflexivity.
Qed.
Lemma cur_pk0 ts : cur ts = pk 0 ts.
Proof. destruct ts; reflexivity. Qed.

Section FOLLOW.
Variable autovars : list (text * autovar).
Variable switches : list (text * text).
Variable ee : bool.
Variable parse_format : toks -> res (token * text * text * toks).
Variable consts : list (text * text).
Notation command_stmt := (command_stmt switches ee parse_format consts).
Notation command_args := (command_args switches ee parse_format consts).
Notation leaf_expr := (leaf_expr autovars switches ee parse_format consts).

Lemma is_ty ty x : ttype x = ty -> is ty x = true.
Proof. intros H. unfold is, tt_eqb. rewrite H. destruct (toktype_eq_dec ty ty); [reflexivity|congruence]. Qed.
Lemma is_not ty x : ttype x <> ty -> is ty x = false.
Proof. intros H. unfold is, tt_eqb. destruct (toktype_eq_dec (ttype x) ty); [congruence|reflexivity]. Qed.

(* the command parser on  NAME :  and on  NAME ( global|local ) :  stops just before the colon *)
Lemma command_before_colon f script tsc c imp ts2 :
  command_stmt f script tsc = Ok (c, imp, ts2) -> try_label tsc <> None -> ttype (cur (adv ts2)) = COLON.
Proof.
  intros H TL. unfold try_label in TL. unfold Parser.command_stmt in H.
  destruct (peekis COLON tsc) eqn:PC.
  - assert (PL : peekis LPAREN tsc = false) by (unfold peekis in *; apply is_not; rewrite (is_eq _ _ PC); discriminate).
    rewrite PL in H. injection H as _ _ <-. rewrite cur_adv. apply is_eq. exact PC.
  - destruct (peekis LPAREN tsc) eqn:PL; [|exfalso; apply TL; reflexivity]. cbn [andb] in TL.
    destruct (is GLOBAL (pk 2 tsc) || is LOCAL (pk 2 tsc)) eqn:G; [|exfalso; apply TL; reflexivity]. cbn [andb] in TL.
    destruct (is RPAREN (pk 3 tsc)) eqn:R; [|exfalso; apply TL; reflexivity]. cbn [andb] in TL.
    destruct (is COLON (pk 4 tsc)) eqn:C; [|exfalso; apply TL; reflexivity].
    assert (T2 : ttype (cur (adv (adv tsc))) = GLOBAL \/ ttype (cur (adv (adv tsc))) = LOCAL).
    { rewrite cur_pk0, !pk_adv. apply orb_true_iff in G. destruct G as [G|G]; [left|right]; apply is_eq; exact G. }
    assert (T3 : ttype (cur (adv (adv (adv tsc)))) = RPAREN) by (rewrite cur_pk0, !pk_adv; apply is_eq; exact R).
    assert (T4 : ttype (cur (adv (adv (adv (adv tsc))))) = COLON) by (rewrite cur_pk0, !pk_adv; apply is_eq; exact C).
    destruct (command_args f script (cur tsc) (List.length tsc) (adv (adv tsc)) 0 [] [] imp0) as [[[args i] t1]|e| |] eqn:CA; try discriminate.
    injection H as _ _ <-.
    destruct f as [|[|f]]; [discriminate| |].
    + rewrite command_args_unfold in CA. unfold curis in CA.
      rewrite !(is_not _ (cur (adv (adv tsc)))) in CA by (destruct T2 as [X|X]; rewrite X; discriminate). cbn [andb] in CA. discriminate.
    + rewrite command_args_unfold in CA. unfold curis in CA.
      rewrite !(is_not _ (cur (adv (adv tsc)))) in CA by (destruct T2 as [X|X]; rewrite X; discriminate). cbn [andb] in CA.
      rewrite command_args_unfold in CA. unfold curis in CA. rewrite (is_ty RPAREN _ T3) in CA. cbn [andb Nat.eqb] in CA.
      injection CA as _ _ <-. exact T4.
Qed.

(* an AutoVar leaf that is followed by '&&', '||' or ')' : the statement parser started on its command reads the command *)
Lemma followed_leaf_no_label f script ts0 l imp rest c :
  leaf_expr f script ts0 = Ok (l, imp, rest) -> lpre l = Some c -> follow rest -> try_label (adv (leaf_start ts0)) = None.
Proof.
  intros H HP HF. destruct (try_label (adv (leaf_start ts0))) as [x|] eqn:TL; [exfalso|reflexivity].
  destruct (leaf_parse_cases autovars switches ee parse_format consts f script ts0 l imp rest H)
    as [[_ (av & c' & ts2 & _ & _ & HC & _ & _ & _ & _ & HR)]|[_ N]]; [|congruence].
  assert (TC : ttype (cur (adv ts2)) = COLON) by (eapply command_before_colon; [exact HC|rewrite TL; discriminate]).
  assert (E : rest = adv ts2).
  { destruct (peekis NOT ts0); [tauto|]. unfold cond_var_operator in HR. unfold is_cmp_tok in HR. rewrite TC in HR. congruence. }
  subst rest. unfold follow in HF. rewrite TC in HF. destruct HF as [X|[X|X]]; discriminate.
Qed.
End FOLLOW.

Section FOLLOW2.
Variable autovars : list (text * autovar).
Variable switches : list (text * text).
Variable ee : bool.
Variable parse_format : toks -> res (token * text * text * toks).
Variable consts : list (text * text).
Hypothesis parse_format_advs : forall ts tk v sty ts', parse_format ts = Ok (tk, v, sty, ts') -> forall a, advs a ts -> advs a ts'.
Notation leaf_expr := (leaf_expr autovars switches ee parse_format consts).
Notation bool_expr := (bool_expr autovars switches ee parse_format consts).
Notation right_side := (right_side autovars switches ee parse_format consts).

(* AutoVarParse.leaf_from, with the tokens that follow the leaf: '&&', '||', ')' or the end [tend] of the condition *)
Definition leaf_site (f : nat) (script : text) (ts tend : toks) (l : leaf) : Prop :=
  exists f' ts0 l0 impl rest, (f' <= f)%nat /\ advs ts ts0 /\
    leaf_expr f' script ts0 = Ok (l0, impl, rest) /\ (l = l0 \/ l = neg_leaf l0) /\ (follow rest \/ rest = tend).

Lemma leaf_site_weaken f g script a b tend l : (f <= g)%nat -> advs a b -> leaf_site f script b tend l -> leaf_site g script a tend l.
Proof.
  intros Hf Ha (f' & ts0 & l0 & impl & rest & H1 & H2 & H3 & H4 & H5). exists f', ts0, l0, impl, rest.
  split; [lia|]. split; [eapply advs_trans; eassumption|]. auto.
Qed.
Lemma leaf_site_end f script ts t t' l : leaf_site f script ts t l -> follow t \/ t' = t -> leaf_site f script ts t' l.
Proof.
  intros (f' & ts0 & l0 & impl & rest & H1 & H2 & H3 & H4 & H5) K. exists f', ts0, l0, impl, rest.
  split; [exact H1|]. split; [exact H2|]. split; [exact H3|]. split; [exact H4|].
  destruct H5 as [H5| ->]; [left; exact H5|]. destruct K as [K| ->]; [left; exact K|right; reflexivity].
Qed.

Lemma curis_follow ty ts : curis ty ts = true -> ty = AND \/ ty = OR \/ ty = RPAREN -> follow ts.
Proof. intros H K. unfold curis in H. apply is_eq in H. unfold follow. rewrite H. exact K. Qed.

Lemma condition_leaf_sites : forall f,
  (forall single neg script ts e imp ts', bool_expr f single neg script ts = Ok (e, imp, ts') ->
     forall l, In l (leaves e) -> leaf_site f script ts ts' l) /\
  (forall left single neg script ts e imp ts', right_side f left single neg script ts = Ok (e, imp, ts') ->
     (follow ts \/ ts' = ts) /\
     forall l, In l (leaves e) -> In l (leaves left) \/ leaf_site f script ts ts' l).
Proof.
  induction f as [|f [IH1 IH2]]; [split; intros; discriminate|]. split.
  - intros single neg script ts e imp ts' H l HIn. rewrite bool_expr_unfold in H. cbn zeta in H.
    destruct (peekis LPAREN ts || peekis NOT ts && is LPAREN (pk 2 ts)) eqn:G.
    + set (p := if peekis LPAREN ts then (adv ts, neg) else (adv (adv ts), negb neg)) in H.
      assert (Hp : advs ts (Datatypes.fst p)).
      { unfold p. destruct (peekis LPAREN ts); cbn [Datatypes.fst]; [apply advs_step, advs_refl|apply advs_step, advs_step, advs_refl]. }
      destruct p as [ts2 nn]. cbn [Datatypes.fst] in Hp.
      destruct (bool_expr f false nn script ts2) as [[[e1 imp1] ts3]|e0| |] eqn:E1; try discriminate.
      cbn beta iota in H. destruct (curis RPAREN ts3) eqn:CR; [|discriminate]. cbn [negb] in H.
      assert (F3 : follow ts3) by (eapply curis_follow; [exact CR|auto]).
      assert (A3 : advs ts ts3) by (eapply bool_expr_advs; [exact parse_format_advs|exact E1|exact Hp]).
      destruct (negb single && (peekis AND ts3 || peekis OR ts3)).
      * destruct (right_side f e1 single neg script (adv ts3)) as [[[e2 imp2] ts4]|e0| |] eqn:E2; try discriminate.
        cbn beta iota in H. assert (e2 = e) by congruence. assert (ts4 = ts') by congruence. subst e2 ts4.
        destruct (IH2 _ _ _ _ _ _ _ _ E2) as [_ L2]. destruct (L2 l HIn) as [HL|HL].
        -- eapply (leaf_site_weaken f (S f)); [lia|exact Hp|]. eapply leaf_site_end; [exact (IH1 _ _ _ _ _ _ _ E1 l HL)|left; exact F3].
        -- eapply leaf_site_weaken; [|apply advs_adv_r; exact A3|exact HL]. lia.
      * assert (e1 = e) by congruence. assert (adv ts3 = ts') by congruence. subst e1 ts'.
        eapply (leaf_site_weaken f (S f)); [lia|exact Hp|]. eapply leaf_site_end; [exact (IH1 _ _ _ _ _ _ _ E1 l HIn)|left; exact F3].
    + destruct (leaf_expr f script ts) as [[[l0 impl] ts1]|e0| |] eqn:EL; try discriminate. cbn beta iota zeta in H.
      assert (Hl0 : leaf_site (S f) script ts ts1 (if neg then neg_leaf l0 else l0)).
      { exists f, ts, l0, impl, ts1. split; [lia|]. split; [apply advs_refl|]. split; [exact EL|]. split; [destruct neg; auto|right; reflexivity]. }
      destruct single.
      * assert (BLeaf (if neg then neg_leaf l0 else l0) = e) by congruence. assert (ts1 = ts') by congruence. subst e ts'.
        cbn [leaves In] in HIn. destruct HIn as [<-|[]]. exact Hl0.
      * destruct (right_side f (BLeaf (if neg then neg_leaf l0 else l0)) false neg script ts1) as [[[e2 imp2] ts4]|e0| |] eqn:E2; try discriminate.
        cbn beta iota in H. assert (e2 = e) by congruence. assert (ts4 = ts') by congruence. subst e2 ts4.
        destruct (IH2 _ _ _ _ _ _ _ _ E2) as [K2 L2]. destruct (L2 l HIn) as [HL|HL].
        -- cbn [leaves In] in HL. destruct HL as [<-|[]]. eapply leaf_site_end; [exact Hl0|exact K2].
        -- eapply leaf_site_weaken; [|eapply leaf_expr_advs; [exact parse_format_advs|exact EL|apply advs_refl]|exact HL]. lia.
  - intros left single neg script ts e imp ts' H. rewrite right_side_unfold in H.
    destruct (curis AND ts) eqn:CA.
    + split; [left; eapply curis_follow; [exact CA|auto]|]. intros l HIn.
      destruct (bool_expr f true neg script ts) as [[[r imp1] ts1]|e0| |] eqn:E1; try discriminate. cbn beta iota zeta in H.
      destruct (right_side f (BBin (if neg then BOr else BAnd) left r) single neg script ts1) as [[[e2 imp2] ts2]|e0| |] eqn:E2; try discriminate.
      cbn beta iota in H. assert (e2 = e) by congruence. assert (ts2 = ts') by congruence. subst e2 ts2.
      destruct (IH2 _ _ _ _ _ _ _ _ E2) as [K2 L2]. destruct (L2 l HIn) as [HL|HL].
      * cbn [leaves] in HL. apply in_app_or in HL. destruct HL as [HL|HL]; [left; exact HL|right].
        eapply (leaf_site_weaken f (S f)); [lia|apply advs_refl|]. eapply leaf_site_end; [exact (IH1 _ _ _ _ _ _ _ E1 l HL)|exact K2].
      * right. eapply leaf_site_weaken; [|eapply bool_expr_advs; [exact parse_format_advs|exact E1|apply advs_refl]|exact HL]. lia.
    + destruct (curis OR ts) eqn:CO.
      * split; [left; eapply curis_follow; [exact CO|auto]|]. intros l HIn.
        destruct (bool_expr f false neg script ts) as [[[r imp1] ts1]|e0| |] eqn:E1; try discriminate. cbn beta iota in H.
        assert (BBin (if neg then BAnd else BOr) left r = e) by congruence. assert (ts1 = ts') by congruence. subst e ts'. cbn [leaves] in HIn.
        apply in_app_or in HIn. destruct HIn as [HL|HL]; [left; exact HL|right].
        eapply leaf_site_weaken; [|apply advs_refl|exact (IH1 _ _ _ _ _ _ _ E1 l HL)]. lia.
      * assert (left = e) by congruence. assert (ts = ts') by congruence. subst e ts'. split; [right; reflexivity|]. intros l HIn. left. exact HIn.
Qed.

(* a condition that ends on ')' : every AutoVar leaf's command position reads as a command statement *)
Theorem closed_condition_no_labels f script ts e imp ts' l c :
  bool_expr f false false script ts = Ok (e, imp, ts') -> ttype (cur ts') = RPAREN -> In l (leaves e) -> lpre l = Some c ->
  exists ts0, advs ts ts0 /\ try_label (adv (leaf_start ts0)) = None /\
    exists f' l0 impl rest, leaf_expr f' script ts0 = Ok (l0, impl, rest) /\ (l = l0 \/ l = neg_leaf l0).
Proof.
  intros H HR HIn HP.
  destruct (proj1 (condition_leaf_sites f) _ _ _ _ _ _ _ H l HIn) as (f' & ts0 & l0 & impl & rest & _ & A & HL & Hl & HF).
  assert (F : follow rest) by (destruct HF as [HF| ->]; [exact HF|right; right; exact HR]).
  assert (HP0 : lpre l0 = Some c) by (destruct Hl as [->| ->]; exact HP).
  exists ts0. split; [exact A|]. split; [eapply followed_leaf_no_label; eassumption|]. exists f', l0, impl, rest. auto.
Qed.
End FOLLOW2.

Section CLOSED.
Variable autovars : list (text * autovar).
Variable switches : list (text * text).
Variable ee : bool.
Variable parse_format : toks -> res (token * text * text * toks).
Hypothesis parse_format_advs : forall ts tk v sty ts', parse_format ts = Ok (tk, v, sty, ts') -> forall a, advs a ts -> advs a ts'.
Variable T : toks.

(* every condition of a judged body comes from a run of the condition parser that stops on some token [cur ts'] (the parser
   does not check that it is the closing parenthesis: Examples.unchecked_closing_token).  WHEN IT IS ')' - the condition is
   closed as the grammar says - every leaf with a preamble has, with no further premise, the command that the statement
   parser returns when started on the same tokens *)
Theorem closed_condition_preambles_are_statements B e :
  ok (cond_origin_p autovars switches ee parse_format T) (switch_origin_p autovars switches ee parse_format T) B -> cond_in e B ->
  exists ps e0 consts f script ts imp ts',
    e = pbexp ps e0 /\ advs T ts /\
    bool_expr autovars switches ee parse_format consts f false false script ts = Ok (e0, imp, ts') /\
    (ttype (cur ts') = RPAREN ->
     forall l c', In l (leaves e) -> lpre l = Some c' ->
     exists c f' tsc impc ts2, c' = pcmd ps c /\ advs T tsc /\ List.length tsc = Ast.cid c /\
       forall bs cs, parse_stmt autovars switches ee parse_format consts (S f') script bs cs tsc = Ok ([SCmd c], impc, ts2)).
Proof.
  intros HB HC. destruct (ok_cond_in _ _ B e HB HC) as (ps & e0 & -> & (consts & f & script & ts & imp & ts' & A & HE)).
  exists ps, e0, consts, f, script, ts, imp, ts'. split; [reflexivity|]. split; [exact A|]. split; [exact HE|].
  intros HR l c' HIn HP. rewrite leaves_pbexp in HIn. apply in_map_iff in HIn. destruct HIn as (l1 & <- & HIn).
  destruct (lpre l1) as [c|] eqn:HP1; [|cbn [pleaf lpre] in HP; rewrite HP1 in HP; discriminate].
  assert (Ec : c' = pcmd ps c) by (cbn [pleaf lpre] in HP; rewrite HP1 in HP; congruence).
  destruct (closed_condition_no_labels autovars switches ee parse_format consts parse_format_advs f script ts e0 imp ts' l1 c HE HR HIn HP1)
    as (ts0 & A0 & TL & f' & l0 & impl & rest & HL & Hl).
  assert (HP0 : lpre l0 = Some c) by (destruct Hl as [->| ->]; exact HP1).
  destruct (leaf_preamble_origin autovars switches ee parse_format consts f' script ts0 l0 impl rest c HL HP0)
    as (av & ts2 & HI & _ & HCS & _).
  destruct (command_stmt_head switches ee parse_format consts f' script _ c impl ts2 HCS) as (_ & _ & N3).
  exists c, f', (adv (leaf_start ts0)), impl, ts2. split; [exact Ec|]. split.
  { eapply advs_trans; [exact A|]. eapply advs_trans; [exact A0|]. apply advs_adv_r. unfold leaf_start.
    destruct (peekis NOT ts0); [apply advs_step|]; apply advs_refl. }
  split; [symmetry; exact N3|]. intros bs cs.
  rewrite CmdArgs.parse_stmt_eq; [rewrite HCS; reflexivity| |exact TL]. rewrite cur_adv. apply is_eq. exact HI.
Qed.
End CLOSED.

Theorem program_closed_conditions hl hd hs autovars switches ee fc cli_font cli_maxlen s p :
  parse_program autovars switches ee (Format.parse_format fc cli_font cli_maxlen ee) (lex hl hd hs s) = Ok p ->
  forall body e, In body (bodies_of (tops p)) -> cond_in e body ->
  exists ps e0 consts f script ts imp ts',
    e = pbexp ps e0 /\ advs (lex hl hd hs s) ts /\
    bool_expr autovars switches ee (Format.parse_format fc cli_font cli_maxlen ee) consts f false false script ts = Ok (e0, imp, ts') /\
    (ttype (cur ts') = RPAREN ->
     forall l c', In l (leaves e) -> lpre l = Some c' ->
     exists c f' tsc impc ts2, c' = pcmd ps c /\ advs (lex hl hd hs s) tsc /\ List.length tsc = Ast.cid c /\
       forall bs cs, parse_stmt autovars switches ee (Format.parse_format fc cli_font cli_maxlen ee) consts (S f') script bs cs tsc = Ok ([SCmd c], impc, ts2)).
Proof.
  intros H body e HB. pose proof (accepted_bodies_have_origins _ _ _ _ _ _ _ _ _ _ _ H) as A. rewrite Forall_forall in A.
  eapply closed_condition_preambles_are_statements; [apply ProgSrc.parse_format_advs|apply A; exact HB].
Qed.

(* ====================================================================================================== *)
(*  8. examples: the hypotheses hold on a program with AutoVar leaves at several depths, a switch on a      *)
(*     command and an inline map script; two behaviours of the model worth knowing                         *)
(* ====================================================================================================== *)
Module Examples.
Open Scope string_scope.
Definition nf (_ : N) : bool := false.
Definition fc0 : Format.fontcfg := {| Format.fcDefault := []; Format.fcFonts := [] |}.
Definition nl : string := String (ascii_of_nat 10) "".
Definition show (x : text) : string := string_of_list_ascii (map ascii_of_N x).
Definition ex_av : list (text * autovar) :=
  [(t "checkitem", {| avName := t "VAR_RESULT"; avPos := None |});
   (t "getpartysize", {| avName := t "VAR_RESULT"; avPos := None |});
   (t "specialvar", {| avName := []; avPos := Some 0%Z |});
   (t "random", {| avName := t "VAR_RESULT"; avPos := None |})].
Definition ex_src : string :=
  "script Main {" ++ nl ++
  "  lock" ++ nl ++
  "  while (flag(FLAG_A) && !checkitem(ITEM_X, 2)) {" ++ nl ++
  "    do { step } while (getpartysize > 3 || var(VAR_Y) == 1)" ++ nl ++
  "  }" ++ nl ++
  "  if (var(VAR_Z)) { a } elif (!(specialvar(VAR_R, GetFoo) != 2 && defeated(TRAINER_1))) {" ++ nl ++
  "    switch (random(4)) { case 0: b case 1: c default: d }" ++ nl ++
  "  }" ++ nl ++
  "  switch (var(VAR_Q)) { case 5: e }" ++ nl ++
  "}" ++ nl ++
  "mapscripts Map_Scripts {" ++ nl ++
  "  MAP_SCRIPT_ON_LOAD { if (getpartysize == 6) { msgbox(""full"") } }" ++ nl ++
  "}" ++ nl.
Definition ex_T : toks := lex nf nf nf (t ex_src).
Definition ex_parse := parse_program ex_av [] false (Format.parse_format fc0 [] 0%Z false) ex_T.
Definition ex_p : program := match ex_parse with Ok p => p | _ => {| tops := []; texts := [] |} end.
Definition ex_body (k : nat) : list stmt := nth k (bodies_of (tops ex_p)) [].

(* the pieces of the program *)
Definition dflt : stmt := SBreak 0.
Definition dleaf : leaf := {| lk := KFlag; loperand := []; lline := 0; lop := OEq; lvalue := []; lstrict := false; lpre := None |}.
Definition ex_while : stmt := nth 1 (ex_body 0) dflt.
Definition ex_while_body : list stmt := match ex_while with SWhile _ _ b => b | _ => [] end.
Definition ex_while_cond : bexp := match ex_while with SWhile _ (Some e) _ => e | _ => BLeaf dleaf end.
Definition ex_do : stmt := nth 0 ex_while_body dflt.
Definition ex_do_cond : bexp := match ex_do with SDoWhile _ _ e => e | _ => BLeaf dleaf end.
Definition ex_if : stmt := nth 2 (ex_body 0) dflt.
Definition ex_elif : bexp * list stmt := match ex_if with SIf conds _ => nth 1 conds (BLeaf dleaf, []) | _ => (BLeaf dleaf, []) end.
Definition ex_ms_if : stmt := nth 0 (ex_body 1) dflt.
Definition ex_ms_cond : bexp := match ex_ms_if with SIf conds _ => fst (nth 0 conds (BLeaf dleaf, [])) | _ => BLeaf dleaf end.
Definition pre_name (l : leaf) : string := match lpre l with Some c => show (cname c) | None => "-" end.
Definition leaf_view (l : leaf) : string * string := (pre_name l, show (loperand l)).

(* 1. the program is accepted; it has two bodies: the script and the inline map script *)
Example ex_accepted : parse_program ex_av [] false (Format.parse_format fc0 [] 0%Z false) (lex nf nf nf (t ex_src)) = Ok ex_p.
Proof. vm_compute. reflexivity. Qed.
Example ex_bodies : bodies_of (tops ex_p) = [ex_body 0; ex_body 1].
Proof. vm_compute. reflexivity. Qed.
Example ex_body_in k : (k < 2)%nat -> In (ex_body k) (bodies_of (tops ex_p)).
Proof. intros H. rewrite ex_bodies. destruct k as [|[|k]]; [left; reflexivity|right; left; reflexivity|lia]. Qed.

(* 2. the conditions, at their depths, and their leaves (preamble command name, compared variable) *)
Example ex_conditions :
  map leaf_view (leaves ex_while_cond) = [("-", "FLAG_A"); ("checkitem", "VAR_RESULT")] /\
  map leaf_view (leaves ex_do_cond) = [("getpartysize", "VAR_RESULT"); ("-", "VAR_Y")] /\
  map leaf_view (leaves (fst ex_elif)) = [("specialvar", "VAR_R"); ("-", "TRAINER_1")] /\
  map leaf_view (leaves ex_ms_cond) = [("getpartysize", "VAR_RESULT")].
Proof. vm_compute. auto. Qed.

Example ex_cond_in_while : cond_in ex_while_cond (ex_body 0).
Proof.
  exists (ex_body 0), ex_while. split; [apply bi_refl|]. split; [vm_compute; tauto|]. vm_compute. apply co_while.
Qed.
(* the do-while condition: one level down, in the body of the while *)
Example ex_cond_in_do : cond_in ex_do_cond (ex_body 0).
Proof.
  exists ex_while_body, ex_do. split; [|split; [vm_compute; tauto|vm_compute; apply co_do]].
  apply (bi_step _ _ ex_while ex_while_body); [vm_compute; tauto| |apply bi_refl]. vm_compute. apply ch_while.
Qed.
Example ex_cond_in_elif : cond_in (fst ex_elif) (ex_body 0).
Proof.
  exists (ex_body 0), ex_if. split; [apply bi_refl|]. split; [vm_compute; tauto|]. vm_compute.
  eapply co_if. right. left. reflexivity.
Qed.
Example ex_cond_in_ms : cond_in ex_ms_cond (ex_body 1).
Proof.
  exists (ex_body 1), ex_ms_if. split; [apply bi_refl|]. split; [vm_compute; tauto|]. vm_compute. eapply co_if. left. reflexivity.
Qed.

(* 3. the hypotheses of program_autovar_leaves hold for the leaf  getpartysize > 3  of the do-while condition, and the
      theorem gives its site *)
Definition ex_l : leaf := nth 0 (leaves ex_do_cond) dleaf.
Definition ex_c : cmd := match lpre ex_l with Some c => c | None => {| cname := []; cargs := []; ctok := eof0; Ast.cid := 0 |} end.
Example ex_leaf_hyps : In ex_l (leaves ex_do_cond) /\ lpre ex_l = Some ex_c.
Proof. split; [vm_compute; tauto|vm_compute; reflexivity]. Qed.
Example ex_leaf_site :
  exists ps c consts f script tsc av impc ts2,
    ex_c = pcmd ps c /\
    advs (lex nf nf nf (t ex_src)) tsc /\ List.length tsc = Ast.cid c /\ ttype (cur tsc) = IDENT /\ cname c = tlit (cur tsc) /\ ctok c = cur tsc /\
    assoc ex_av (cname c) = Some av /\
    command_stmt [] false (Format.parse_format fc0 [] 0%Z false) consts f script tsc = Ok (c, impc, ts2) /\
    (forall bs cs, try_label tsc = None ->
       parse_stmt ex_av [] false (Format.parse_format fc0 [] 0%Z false) consts (S f) script bs cs tsc = Ok ([SCmd c], impc, ts2)) /\
    lk ex_l = KVar /\ lline ex_l = tline (ctok c) /\ compared_var av c = Some (loperand ex_l).
Proof.
  exact (program_autovar_leaves nf nf nf ex_av [] false fc0 [] 0%Z (t ex_src) ex_p ex_accepted (ex_body 0) ex_do_cond ex_l ex_c
           (ex_body_in 0 ltac:(lia)) ex_cond_in_do (proj1 ex_leaf_hyps) (proj2 ex_leaf_hyps)).
Qed.

(* 4. a leaf without preamble:  var(VAR_Y) == 1  satisfies the hypotheses of program_plain_leaves *)
Definition ex_pl : leaf := nth 1 (leaves ex_do_cond) dleaf.
Example ex_plain_hyps : In ex_pl (leaves ex_do_cond) /\ lpre ex_pl = None.
Proof. split; [vm_compute; tauto|vm_compute; reflexivity]. Qed.

(* 5. the switch written on a command, inside the elif: the hypotheses of program_switches hold with l1 = [the command
      statement]; the switch is on VAR_RESULT and the statement before it is the command random(4) *)
Definition ex_blk : list stmt := snd ex_elif.
Definition ex_sw : stmt := nth 1 ex_blk dflt.
Definition ex_tg : nat := match ex_sw with SSwitch tg _ _ _ => tg | _ => 0%nat end.
Definition ex_v : text := match ex_sw with SSwitch _ v _ _ => v | _ => [] end.
Definition ex_ol : Z := match ex_sw with SSwitch _ _ ol _ => ol | _ => 0%Z end.
Definition ex_cases : list scase := match ex_sw with SSwitch _ _ _ cases => cases | _ => [] end.
Example ex_switch_hyps : block_in ex_blk (ex_body 0) /\ ex_blk = ([nth 0 ex_blk dflt] ++ SSwitch ex_tg ex_v ex_ol ex_cases :: [])%list.
Proof.
  split; [|vm_compute; reflexivity].
  apply (bi_step _ _ ex_if ex_blk); [vm_compute; tauto| |apply bi_refl]. vm_compute. eapply ch_if. right. left. reflexivity.
Qed.
Example ex_switch_view :
  show ex_v = "VAR_RESULT" /\ (match nth 0 ex_blk dflt with SCmd c => (show (cname c), map show (cargs c)) | _ => ("", []) end) = ("random", ["4"]).
Proof. vm_compute. auto. Qed.
(* the switch written on var( ) at the end of the script: no command before it is claimed *)
Example ex_plain_switch_hyps : exists tg v ol cases, ex_body 0 = (firstn 3 (ex_body 0) ++ SSwitch tg v ol cases :: [])%list /\ show v = "VAR_Q".
Proof. vm_compute. do 4 eexists. split; reflexivity. Qed.

(* ---------- two behaviours of the model (and of the Go compiler) worth knowing ---------- *)
Definition run1 (av : list (text * autovar)) (s : string) :=
  parse_program av [] false (Format.parse_format fc0 [] 0%Z false) (lex nf nf nf (t s)).

(* (a) The token that closes a top-level condition is not checked:  if (getpartysize : { lock }  is ACCEPTED (any one token is
   taken for the ')').  Here the leaf's command is followed by ':', so the statement parser started on the same tokens reads
   a LABEL, not the command: the premise [try_label tsc = None] of the "same command as the statement parser" clause cannot
   be dropped.  (The Go compiler accepts the same text and emits  getpartysize / compare VAR_RESULT, 0.) *)
Definition odd_src : string := "script S { if (getpartysize : { lock } }".
Definition odd_tsc : toks := skipn 5 (lex nf nf nf (t odd_src)).
Example unchecked_closing_token :
  (exists p, run1 ex_av odd_src = Ok p) /\
  (exists c imp ts2, command_stmt [] false (Format.parse_format fc0 [] 0%Z false) [] 10 (t "S") odd_tsc = Ok (c, imp, ts2) /\ show (cname c) = "getpartysize") /\
  (exists n g tk imp ts2, parse_stmt ex_av [] false (Format.parse_format fc0 [] 0%Z false) [] 11 (t "S") [] [] odd_tsc = Ok ([SLabel n g tk], imp, ts2)).
Proof. split; [|split]; vm_compute; repeat eexists. Qed.

(* (b) The configured position may name an argument that is an inline text (or moves( )): at parse time that argument is the
   empty placeholder, so the leaf compares the EMPTY variable name, while the command finally carries the label of the
   hoisted text at that position.  "the compared var is the argument at the configured position" holds for the command as
   parsed ([c] in the theorems), not for the patched command [pcmd ps c] of the final program.
   (The Go compiler emits  foo S_Text_0 / compare , 0  for this text.) *)
Definition pos_av : list (text * autovar) := [(t "foo", {| avName := []; avPos := Some 0%Z |})].
Definition pos_src : string := "script S { if (foo(""hi"")) { lock } }".
Definition pos_leaf : leaf :=
  match run1 pos_av pos_src with
  | Ok p => match bodies_of (tops p) with [SIf ((BLeaf l, _) :: _) _] :: _ => l | _ => dleaf end
  | _ => dleaf
  end.
Example compared_var_at_an_inline_text_position :
  (exists p, run1 pos_av pos_src = Ok p) /\
  loperand pos_leaf = [] /\
  (match lpre pos_leaf with Some c => map show (cargs c) | None => [] end) = ["S_Text_0"].
Proof. split; [|split]; vm_compute; repeat eexists. Qed.
End Examples.

