(* Prototype: executable semantics of emitted instructions, reader from text, and the source-vs-target oracle. *)
From Coq Require Import List String Ascii ZArith NArith Lia Bool.
From Pory Require Import Lexer Ast Emitter Sem2.
Import ListNotations.
Open Scope list_scope.

(* ---------- reading the compiler's text back into instructions ---------- *)
Fixpoint split_on (sep : N) (s : text) (cur : text) : list text :=
  match s with
  | [] => [rev cur]
  | c :: r => if (c =? sep)%N then rev cur :: split_on sep r [] else split_on sep r (c :: cur)
  end.
Fixpoint ltrim (s : text) : text := match s with 32%N :: r => ltrim r | _ => s end.
Definition trim (s : text) : text := rev (ltrim (rev (ltrim s))).
Fixpoint starts (p s : text) : option text :=
  match p, s with
  | [], _ => Some s
  | a :: p', b :: s' => if (a =? b)%N then starts p' s' else None
  | _, [] => None
  end.
Definition split_args (s : text) : list text := map trim (split_on 44%N s []).
Fixpoint split_first_space (s : text) (acc : text) : text * text :=
  match s with
  | [] => (rev acc, [])
  | 32%N :: r => (rev acc, r)
  | c :: r => split_first_space r (c :: acc)
  end.

Definition dummy_tok : token := {| ttype := IDENT; tlit := []; tline := 0; tsb := 0; tsu := 0; teline := 0; teb := 0; teu := 0 |}.

Definition op_of (s : text) : option cmpop :=
  if text_eqb s (t "eq") then Some OEq else if text_eqb s (t "ne") then Some ONe
  else if text_eqb s (t "lt") then Some OLt else if text_eqb s (t "le") then Some OLe
  else if text_eqb s (t "gt") then Some OGt else if text_eqb s (t "ge") then Some OGe else None.

Definition read_line (l : text) : instr :=
  match l with
  | [] => IBlank
  | 9%N :: body =>
      let '(name, rest) := split_first_space body [] in
      let args := match rest with [] => [] | _ => split_args rest end in
      let opaque := ICmd {| cname := name; cargs := args; ctok := dummy_tok; Ast.cid := 0 |} in
      if text_eqb name (t "goto") then match args with [a] => IGoto a | _ => opaque end
      else if text_eqb name (t "goto_if_set") then match args with [a; b] => IGotoIfSet a b | _ => opaque end
      else if text_eqb name (t "goto_if_unset") then match args with [a; b] => IGotoIfUnset a b | _ => opaque end
      else if text_eqb name (t "compare") then match args with [a; b] => ICompare false a b | _ => opaque end
      else if text_eqb name (t "compare_var_to_value") then match args with [a; b] => ICompare true a b | _ => opaque end
      else if text_eqb name (t "checktrainerflag") then match args with [a] => ICheckTrainer a | _ => opaque end
      else if text_eqb name (t "goto_if") then match args with [a; b] => IGotoIf (text_eqb a (t "1")) b | _ => opaque end
      else if text_eqb name (t "switch") then match args with [a] => ISwitch a | _ => opaque end
      else if text_eqb name (t "case") then match args with [a; b] => ICase a b | _ => opaque end
      else if text_eqb name (t "return") then IReturn
      else if text_eqb name (t "end") then IEnd
      else match starts (t "goto_if_") name, args with
           | Some o, [a] => match op_of o with Some op => IGotoIfCmp op a | None => opaque end
           | _, _ => opaque
           end
  | 35%N :: _ => IMarker 0
  | _ =>
      match rev l with
      | 58%N :: 58%N :: r => ILabel (rev r) true
      | 58%N :: r => ILabel (rev r) false
      | _ => ILine l
      end
  end.
Definition read_asm (s : text) : list instr := map read_line (split_on 10%N s []).

(* ---------- target machine ---------- *)
Section TGT.
Variable St : Type.
Variable exec : cmd -> St -> stepres St.
Variable flag_set : text -> St -> bool.
Variable trainer_beaten : text -> St -> bool.
Variable cmp_var : text -> text -> St -> comparison.
Variable cmp_var_value : text -> text -> St -> comparison.
Variable case_matches : text -> text -> St -> bool.
Variable code : list instr.

Fixpoint find_lbl (l : text) (is : list instr) (i : nat) : option nat :=
  match is with
  | [] => None
  | ILabel n _ :: r => if text_eqb n l then Some i else find_lbl l r (S i)
  | _ :: r => find_lbl l r (S i)
  end.

Inductive reg := RNone | RCmp (c : comparison) | RFlag (b : bool).
Inductive tstate := TAt (pc : nat) (r : reg) (sw : option text) | TFinal (o : outcome).
Definition tfinal (a : tstate) : option outcome := match a with TFinal o => Some o | _ => None end.

Definition jump (l : text) : tstate :=
  match find_lbl l code 0 with Some i => TAt i RNone None | None => TFinal (OJumpOut l) end.

Definition tstep (a : tstate) (s : St) : list event * tstate * St :=
  match a with
  | TFinal _ => ([], a, s)
  | TAt pc r sw =>
      match nth_error code pc with
      | None => ([], TFinal OStuck, s)                        (* ran off the end *)
      | Some i =>
          let next := TAt (S pc) r sw in
          match i with
          | ILabel _ _ | IMarker _ | IBlank | IData _ _ | ILine _ => ([], next, s)
          | IReturn => ([], TFinal OReturn, s)
          | IEnd => ([], TFinal OEnd, s)
          | IGoto l => ([], jump l, s)
          | IGotoIfSet f l => ([], if flag_set f s then jump l else next, s)
          | IGotoIfUnset f l => ([], if flag_set f s then next else jump l, s)
          | ICompare st v x => ([], TAt (S pc) (RCmp ((if st then cmp_var_value else cmp_var) v x s)) sw, s)
          | IGotoIfCmp o l => match r with
                              | RCmp c => ([], if cmp_holds o c then jump l else next, s)
                              | _ => ([], TFinal OStuck, s)
                              end
          | ICheckTrainer tr => ([], TAt (S pc) (RFlag (trainer_beaten tr s)) sw, s)
          | IGotoIf b l => match r with
                           | RFlag v => ([], if Bool.eqb v b then jump l else next, s)
                           | _ => ([], TFinal OStuck, s)
                           end
          | ISwitch v => ([], TAt (S pc) r (Some v), s)
          | ICase x l => match sw with
                         | Some v => ([], if case_matches v x s then jump l else next, s)
                         | None => ([], TFinal OStuck, s)
                         end
          | ICmd c =>
              if is_name c "end" then ([], TFinal OEnd, s)
              else if is_name c "return" then ([], TFinal OReturn, s)
              else if is_name c "goto" then
                match cargs c with
                | [l] => ([], jump l, s)
                | _ => ([], TFinal OStuck, s)
                end
              else match exec c s with
                   | Continue _ s' => ([c], TAt (S pc) RNone None, s')
                   | Stop _ => ([c], TFinal OStopped, s)
                   end
          end
      end
  end.
End TGT.

(* ---------- concrete hash oracle shared by both sides ---------- *)
Definition hash_text (h : N) (x : text) : N := fold_left (fun a c => N.modulo (a * 31 + c + 7) 1000003) x h.
Definition o_exec (c : cmd) (s : N) : stepres N :=
  let h := fold_left hash_text (cargs c) (hash_text s (cname c)) in
  if N.eqb (N.modulo h 53) 0 then Stop N else Continue N h.
Definition o_flag (f : text) (s : N) := N.odd (N.div (hash_text s f) 3).
Definition o_trainer (f : text) (s : N) := N.odd (N.div (hash_text s f) 5).
Definition o_cmp (a b : text) (s : N) : comparison :=
  match N.modulo (hash_text (hash_text s a) b) 3 with 0%N => Lt | 1%N => Eq | _ => Gt end.
Definition o_cmpv (a b : text) (s : N) : comparison :=
  match N.modulo (hash_text (hash_text s b) a) 3 with 0%N => Lt | 1%N => Eq | _ => Gt end.
Definition o_case (a b : text) (s : N) : bool := N.eqb (N.modulo (hash_text (hash_text s a) b) 3) 0.

(* source-side find_label for goto: search with continuation building *)
Fixpoint fl_stmt (l : text) (s : stmt) (k : cont) {struct s} : option sstate :=
  let fls := fix fls (ss : list stmt) (k : cont) : option sstate :=
    match ss with
    | [] => None
    | x :: r =>
        match x with
        | SLabel n _ _ => if text_eqb n l then Some (enter r k) else fls r k
        | _ => match fl_stmt l x (kseq r k) with
               | Some a => Some a
               | None => fls r k
               end
        end
    end in
  match s with
  | SIf conds els =>
      (fix goc (cs : list (bexp * list stmt)) :=
         match cs with
         | [] => match els with Some b => fls b k | None => None end
         | (_, b) :: r => match fls b k with Some a => Some a | None => goc r end
         end) conds
  | SWhile tg c b => fls b (Kwhile tg c b k)
  | SDoWhile tg b c => fls b (Kdowhile tg b c k)
  | SSwitch tg _ _ cases =>
      (fix gos (cs : list scase) :=
         match cs with
         | [] => None
         | c :: r => match fls (sc_body c) (Kswitch tg k) with Some a => Some a | None => gos r end
         end) cases
  | _ => None
  end.
Fixpoint fl_body (l : text) (ss : list stmt) (k : cont) : option sstate :=
  match ss with
  | [] => None
  | x :: r =>
      match x with
      | SLabel n _ _ => if text_eqb n l then Some (enter r k) else fl_body l r k
      | _ => match fl_stmt l x (kseq r k) with
             | Some a => Some a
             | None => fl_body l r k
             end
      end
  end.

Definition names_of (r : result) : list text * status :=
  (map (fun c : cmd => cname c ++ [32%N] ++ join [44%N; 32%N] (cargs c)) (fst r), snd r).

Definition run_source (body : list stmt) (fuel : nat) (seed : N) : list text * status :=
  names_of (run (@sfinal) (sstep N o_exec o_flag o_trainer o_cmp o_cmpv o_case (fun l => fl_body l body Kstop))
                fuel (enter body Kstop) seed).

Definition run_target (code : list instr) (entry : text) (fuel : nat) (seed : N) : list text * status :=
  match find_lbl entry code 0 with
  | None => ([], Done OStuck)
  | Some pc => names_of (run (@tfinal) (tstep N o_exec o_flag o_trainer o_cmp o_cmpv o_case code) fuel (TAt pc RNone None) seed)
  end.

Fixpoint prefix_eq (a b : list text) : bool :=
  match a with
  | [] => true
  | x :: r => match b with [] => true | y :: s => text_eqb x y && prefix_eq r s end
  end.
Definition status_eqb (a b : status) : bool :=
  match a, b with
  | Running, Running => true
  | Done OReturn, Done OReturn | Done OEnd, Done OEnd | Done OStopped, Done OStopped | Done OStuck, Done OStuck => true
  | Done (OJumpOut x), Done (OJumpOut y) => text_eqb x y
  | _, _ => false
  end.

(* agreement of one run: equal when both finished, otherwise one trace is a prefix of the other *)
Definition agree (fs ft : nat) (body : list stmt) (code : list instr) (entry : text) (seed : N) : bool :=
  let '(ts, ss) := run_source body fs seed in
  let '(tg, st) := run_target code entry ft seed in
  match ss, st with
  | Done _, Done _ => status_eqb ss st && (if list_eq_dec (list_eq_dec N.eq_dec) ts tg then true else false)
  | _, _ => prefix_eq ts tg
  end.

Fixpoint seeds (n : nat) : list N := match n with O => [] | S k => N.of_nat (n * 7919 + 13) :: seeds k end.
Definition first_disagreement (fs ft : nat) (body : list stmt) (code : list instr) (entry : text) (n : nat) : option N :=
  find (fun sd => negb (agree fs ft body code entry sd)) (seeds n).
