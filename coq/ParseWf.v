(* C20 / C01: every script body the parser accepts is well scoped: each break is annotated with the tag of its
   nearest enclosing loop or switch, each continue with the tag of its nearest enclosing loop. *)
From Coq Require Import List String Ascii ZArith NArith Lia Bool.
From Pory Require Import Lexer Ast Parser Emitter Sem2 Tr.
Import ListNotations.
Open Scope list_scope.

Lemma scoped_app bt lt a b : scoped bt lt a -> scoped bt lt b -> scoped bt lt (a ++ b).
Proof. induction 1; cbn; auto. intros. constructor; auto. Qed.

Lemma scoped_conds_app bt lt a b : scoped_conds bt lt a -> scoped_conds bt lt b -> scoped_conds bt lt (a ++ b).
Proof. induction 1; cbn; auto. intros. constructor; auto. Qed.

Lemma scoped_cases_app bt lt a b : scoped_cases bt lt a -> scoped_cases bt lt b -> scoped_cases bt lt (a ++ b).
Proof. induction 1; cbn; auto. intros. constructor; auto. Qed.

Section P.
Variable autovars : list (text * autovar).
Variable switches : list (text * text).
Variable env_errors : bool.
Variable parse_format : toks -> Parser.res (token * text * text * toks).
Variable consts : list (text * text).

Notation parse_stmt := (parse_stmt autovars switches env_errors parse_format consts).
Notation parse_block := (parse_block autovars switches env_errors parse_format consts).
Notation parse_switch_block := (parse_switch_block autovars switches env_errors parse_format consts).
Notation parse_cond := (parse_cond autovars switches env_errors parse_format consts).
Notation parse_if := (parse_if autovars switches env_errors parse_format consts).
Notation parse_elifs := (parse_elifs autovars switches env_errors parse_format consts).
Notation parse_switch := (parse_switch autovars switches env_errors parse_format consts).
Notation parse_cases := (parse_cases autovars switches env_errors parse_format consts).
Notation parse_pory := (parse_pory autovars switches env_errors parse_format consts).
Notation parse_pory_cases := (parse_pory_cases autovars switches env_errors parse_format consts).
Notation parse_pory_stmts := (parse_pory_stmts autovars switches env_errors parse_format consts).

Lemma bind_inv {X Y} (m : Parser.res X) (k : X -> Parser.res Y) r :
  match m with Parser.Ok x => k x | Err e => Err e | Panic => Panic | Fuel => Fuel end = Parser.Ok r ->
  exists x, m = Parser.Ok x /\ k x = Parser.Ok r.
Proof. destruct m; try discriminate. eauto. Qed.

Tactic Notation "bind" hyp(H) "as" simple_intropattern(p) :=
  let E := fresh "E" in apply bind_inv in H; destruct H as (p & E & H); cbn beta iota in H.

Definition B (bs : list nat) := hd_error bs.

Definition pcases_ok (bs cs : list nat) (l : list (text * (list stmt * impdata))) : Prop :=
  forall k ss imp, In (k, (ss, imp)) l -> scoped (B bs) (B cs) ss.

Lemma assoc_in {X} (l : list (text * X)) k v : assoc l k = Some v -> In (k, v) l \/ exists k', In (k', v) l.
Proof.
  induction l as [|[k' v'] r IH]; cbn; [discriminate|]. destruct (text_eqb k' k).
  - intros H; inversion H; subst. right. exists k'. now left.
  - intros H. destruct (IH H) as [X0|[k2 X0]]; [left; now right | right; exists k2; now right].
Qed.

Definition WF (f : nat) : Prop :=
  (forall script bs cs ts ss imp ts', parse_stmt f script bs cs ts = Parser.Ok (ss, imp, ts') -> scoped (B bs) (B cs) ss) /\
  (forall script bs cs start ts acc imp ss imp' ts', parse_block f script bs cs start ts acc imp = Parser.Ok (ss, imp', ts') ->
      scoped (B bs) (B cs) acc -> scoped (B bs) (B cs) ss) /\
  (forall script bs cs start ts acc imp ss imp' ts', parse_switch_block f script bs cs start ts acc imp = Parser.Ok (ss, imp', ts') ->
      scoped (B bs) (B cs) acc -> scoped (B bs) (B cs) ss) /\
  (forall req script bs cs ts e b imp ts', parse_cond f req script bs cs ts = Parser.Ok (e, b, imp, ts') -> scoped (B bs) (B cs) b) /\
  (forall script bs cs ts ss imp ts', parse_if f script bs cs ts = Parser.Ok (ss, imp, ts') -> scoped (B bs) (B cs) ss) /\
  (forall script bs cs ts acc imp l imp' ts', parse_elifs f script bs cs ts acc imp = Parser.Ok (l, imp', ts') ->
      scoped_conds (B bs) (B cs) acc -> scoped_conds (B bs) (B cs) l) /\
  (forall script bs cs ts ss imp ts', parse_switch f script bs cs ts = Parser.Ok (ss, imp, ts') -> scoped (B bs) (B cs) ss) /\
  (forall script bs cs brace ts acc seen hasdef imp l imp' ts',
      parse_cases f script bs cs brace ts acc seen hasdef imp = Parser.Ok (l, imp', ts') ->
      scoped_cases (B bs) (B cs) acc -> scoped_cases (B bs) (B cs) l) /\
  (forall script bs cs ts ss imp ts', parse_pory f script bs cs ts = Parser.Ok (ss, imp, ts') -> scoped (B bs) (B cs) ss) /\
  (forall script bs cs start ts acc l ts', parse_pory_cases f script bs cs start ts acc = Parser.Ok (l, ts') ->
      pcases_ok bs cs acc -> pcases_ok bs cs l) /\
  (forall script bs cs multi ts acc imp ss imp' ts', parse_pory_stmts f script bs cs multi ts acc imp = Parser.Ok (ss, imp', ts') ->
      scoped (B bs) (B cs) acc -> scoped (B bs) (B cs) ss).

Lemma wf_all : forall f, WF f.
Proof.
  induction f as [|f IH].
  - unfold WF. repeat split; intros; discriminate.
  - destruct IH as (Istmt & Iblock & Iswb & Icond & Iif & Ielifs & Iswitch & Icases & Ipory & Ipcases & Ipstmts).
    unfold WF. repeat split.
    + (* parse_stmt *)
      intros script bs cs ts ss imp ts' H. rewrite parse_stmt_unfold in H.
      destruct (ttype (cur ts)); try discriminate.
      * destruct (try_label ts) as [[l ts1]|] eqn:TL.
        -- inversion H; subst. unfold try_label in TL.
           destruct (peekis COLON ts); [inversion TL; subst; repeat constructor|].
           destruct (peekis LPAREN ts && _ && _ && _); inversion TL; subst; repeat constructor.
        -- bind H as [[c imp1] ts1]. inversion H; subst. repeat constructor.
      * eapply Iif; eauto.
      * (* do *)
        destruct (expect_peek LBRACE ts) as [ts1|]; [|discriminate]. bind H as [[b imp1] ts2].
        destruct (expect_peek WHILE ts2) as [ts3|]; [|discriminate].
        destruct (expect_peek LPAREN ts3) as [ts4|]; [|discriminate]. bind H as [[e imp2] ts5]. inversion H; subst.
        constructor; [|constructor]. constructor.
        eapply (Iblock _ (Datatypes.length ts :: bs) (Datatypes.length ts :: cs)); eauto. constructor.
      * (* while *)
        bind H as [[[c b] imp1] ts1]. inversion H; subst. constructor; [|constructor]. constructor.
        eapply (Icond _ _ (Datatypes.length ts :: bs) (Datatypes.length ts :: cs)); eauto.
      * destruct bs as [|tg bs]; [discriminate|]. inversion H; subst. repeat constructor.
      * destruct cs as [|tg cs]; [discriminate|]. destruct (peekis RBRACE ts); [|discriminate]. inversion H; subst. repeat constructor.
      * eapply Iswitch; eauto.
      * eapply Ipory; eauto.
    + (* parse_block *)
      intros script bs cs start ts acc imp ss imp' ts' H Hacc. rewrite parse_block_unfold in H.
      destruct (curis RBRACE ts); [inversion H; subst; exact Hacc|].
      destruct (curis EOF ts); [discriminate|]. bind H as [[ss1 imp1] ts1].
      eapply Iblock; [exact H|]. apply scoped_app; [exact Hacc|]. eapply Istmt; eauto.
    + (* parse_switch_block *)
      intros script bs cs start ts acc imp ss imp' ts' H Hacc. rewrite parse_switch_block_unfold in H.
      destruct (curis RBRACE ts || curis CASE ts || curis DEFAULT ts); [inversion H; subst; exact Hacc|].
      destruct (curis EOF ts); [discriminate|]. bind H as [[ss1 imp1] ts1].
      eapply Iswb; [exact H|]. apply scoped_app; [exact Hacc|]. eapply Istmt; eauto.
    + (* parse_cond *)
      intros req script bs cs ts e b imp ts' H. rewrite parse_cond_unfold in H. bind H as [[e1 imp1] ts1].
      destruct (expect_peek LBRACE ts1) as [ts2|]; [|discriminate]. bind H as [[b1 imp2] ts3]. inversion H; subst.
      eapply Iblock; eauto. constructor.
    + (* parse_if *)
      intros script bs cs ts ss imp ts' H. rewrite parse_if_unfold in H. bind H as [[[o l] imp1] ts1].
      destruct o as [e1|]; [|discriminate]. bind H as [[l0 imp2] t0].
      assert (C : scoped_conds (B bs) (B cs) ((e1, l) :: l0)).
      { change ((e1, l) :: l0) with ([(e1, l)] ++ l0) in *.
        (* elifs were accumulated from [] *)
        constructor; [eapply Icond; eauto|]. eapply Ielifs; eauto. constructor. }
      destruct (peekis ELSE t0).
      * cbn zeta in H. destruct (expect_peek LBRACE (adv t0)) as [ts4|]; [|discriminate]. bind H as [[eb imp3] ts5]. inversion H; subst.
        constructor; [|constructor]. constructor; [exact C|]. constructor. eapply Iblock; eauto. constructor.
      * inversion H; subst. constructor; [|constructor]. constructor; [exact C|constructor].
    + (* parse_elifs *)
      intros script bs cs ts acc imp l imp' ts' H Hacc. rewrite parse_elifs_unfold in H.
      destruct (peekis ELSEIF ts); [|inversion H; subst; exact Hacc]. bind H as [[[o b1] imp1] ts1].
      destruct o as [e1|]; [|discriminate].
      eapply Ielifs; [exact H|]. apply scoped_conds_app; [exact Hacc|]. constructor; [eapply Icond; eauto|constructor].
    + (* parse_switch *)
      intros script bs cs ts ss imp ts' H. rewrite parse_switch_unfold in H. cbn zeta in H.
      destruct (expect_peek LPAREN ts) as [ts1|]; [|discriminate]. bind H as [[r0 imp1] ts2]. bind H as [[[operand oline] pre] ts3].
      destruct (expect_peek LBRACE ts3) as [ts4|]; [|discriminate]. bind H as [[l imp2] ts5].
      destruct l as [|c0 l]; [discriminate|]. inversion H; subst.
      apply scoped_app; [destruct pre; repeat constructor|].
      constructor; [|constructor]. constructor.
      eapply (Icases _ (Datatypes.length ts :: bs) cs); eauto. constructor.
    + (* parse_cases *)
      intros script bs cs brace ts acc seen hasdef imp l imp' ts' H Hacc. rewrite parse_cases_unfold in H.
      destruct (curis RBRACE ts); [inversion H; subst; exact Hacc|].
      destruct (curis CASE ts).
      * cbn zeta in H. destruct (collect_until consts f (is COLON) (adv ts) []) as [[parts ts2]|]; [|discriminate].
        destruct (existsb _ seen); [discriminate|]. bind H as [[b1 imp1] ts3].
        eapply Icases; [exact H|]. apply scoped_cases_app; [exact Hacc|]. constructor; [|constructor].
        cbn. eapply Iswb; eauto. constructor.
      * destruct (curis DEFAULT ts); [|discriminate]. destruct hasdef; [discriminate|].
        destruct (expect_peek COLON ts) as [ts1|]; [|discriminate]. bind H as [[b1 imp1] ts2].
        eapply Icases; [exact H|]. apply scoped_cases_app; [exact Hacc|]. constructor; [|constructor].
        cbn. eapply Iswb; eauto. constructor.
    + (* parse_pory *)
      intros script bs cs ts ss imp ts' H. rewrite parse_pory_unfold in H. cbn zeta in H. bind H as [[sc o] ts1]. bind H as [l ts2].
      assert (PC : pcases_ok bs cs l) by (eapply Ipcases; eauto; intros ? ? ? []).
      destruct (assoc l (sval o)) as [[ss0 imp0']|] eqn:A1.
      * inversion H; subst. destruct (assoc_in _ _ _ A1) as [X|[k X]]; eapply PC; eauto.
      * destruct (assoc l (t "_")) as [[ss0 imp0']|] eqn:A2.
        -- inversion H; subst. destruct (assoc_in _ _ _ A2) as [X|[k X]]; eapply PC; eauto.
        -- destruct env_errors; [discriminate|]. inversion H; subst. constructor.
    + (* parse_pory_cases *)
      intros script bs cs start ts acc l ts' H Hacc. rewrite parse_pory_cases_unfold in H.
      destruct (curis RBRACE ts); [inversion H; subst; exact Hacc|].
      destruct (curis EOF ts); [discriminate|].
      destruct (negb (curis IDENT ts) && negb (curis INT ts)); [discriminate|]. cbn zeta in H.
      destruct (curis COLON (adv ts) || curis LBRACE (adv ts)); [|discriminate]. bind H as [[l0 i] t].
      assert (PC : pcases_ok bs cs ((tlit (cur ts), (l0, i)) :: acc)).
      { intros k ss imp [X|X]; [inversion X; subst; eapply Ipstmts; eauto; constructor | eapply Hacc; eauto]. }
      destruct (curis LBRACE (adv ts)).
      * destruct (negb (curis RBRACE t)); [discriminate|]. eapply Ipcases; eauto.
      * eapply Ipcases; eauto.
    + (* parse_pory_stmts *)
      intros script bs cs multi ts acc imp ss imp' ts' H Hacc. rewrite parse_pory_stmts_unfold in H.
      destruct (curis RBRACE ts); [inversion H; subst; exact Hacc|]. bind H as [[l imp1] ts1].
      assert (S1 : scoped (B bs) (B cs) l).
      { destruct (curis PORYSWITCH ts); [eapply Ipory; eauto | eapply Istmt; eauto]. }
      destruct multi.
      * eapply Ipstmts; [exact H|]. apply scoped_app; assumption.
      * inversion H; subst. apply scoped_app; assumption.
Qed.

(* a script body is parsed with both stacks empty *)
Theorem parse_block_scoped f script start ts ss imp ts' :
  parse_block f script [] [] start ts [] imp0 = Parser.Ok (ss, imp, ts') -> scoped None None ss.
Proof. intros H. destruct (wf_all f) as (_ & Iblock & _). eapply (Iblock script [] []); eauto. constructor. Qed.
End P.
