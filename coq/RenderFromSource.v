(* C04 / C01 / C05: the structural conjuncts of the render check wf_render are theorems about the emitter: for the chunk graph
   of every script body that passes the source check (itself a theorem for every accepted program) and both chunk orders,
   the order is a duplicate-free enumeration of the chunks starting a chain at chunk 0, every target is rendered, no branch
   refers to chunk 0, every chunk holds simple statements only, and the last chunk of the order never falls off the end.
   What remains of wf_render are conditions on names the author chose: names_okb (an AutoVar command is not called
   end / return / goto; a goto names one of the script's labels or something that is not a label of the emitted script)
   and labels pairwise distinct. *)
From Coq Require Import List String Ascii ZArith NArith Lia Bool Permutation.
From Pory Require Import Lexer Ast Emitter Sem2 SemTgt Tr EmitProps RenderSim RenderCheck LabelSim C01Final Worklist WorkRefs WorkLabels WorkShape OrderPerm.
Import ListNotations.
Open Scope list_scope.

Section R.
Variable mp : option text.
Variable name : text.

Lemma gof_regs d next m1 y : In y (snd (fst (goto_or_fall name d next m1))) -> y = d.
Proof. unfold goto_or_fall. destruct (m1 && _); [intros []|]. destruct (d =? next)%Z; [intros []|]. cbn. intros [<-|[]]. reflexivity. Qed.

Lemma regs_in_targets c nx y : In y (snd (fst (render_branch mp name c nx))) -> In y (targets c).
Proof.
  unfold render_branch, targets. destruct (cbr c) as [[d|d|l tr fa|op ol cases dd dest]|].
  - intros H. apply gof_regs in H. left. symmetry. exact H.
  - intros H. apply gof_regs in H. left. symmetry. exact H.
  - destruct (goto_or_fall name fa nx true) as [[x regs] fall] eqn:E. cbn. intros [<-|H]; [left; reflexivity|].
    right. left. symmetry. apply (gof_regs fa nx true). rewrite E. exact H.
  - destruct dd as [dd|].
    + destruct (dd =? nx)%Z; cbn.
      * intros H. apply in_or_app. left. rewrite in_map_iff in *. destruct H as ([[v vl] d0] & <- & Hx). exists (v, vl, d0). auto.
      * intros H. apply in_app_or in H. apply in_or_app. destruct H as [H|H]; [left|right; exact H].
        rewrite in_map_iff in *. destruct H as ([[v vl] d0] & <- & Hx). exists (v, vl, d0). auto.
    + destruct (dest =? nx)%Z; [|destruct (dest =? -1)%Z]; cbn.
      * intros H. apply in_or_app. left. rewrite in_map_iff in *. destruct H as ([[v vl] d0] & <- & Hx). exists (v, vl, d0). auto.
      * intros H. apply in_or_app. left. rewrite in_map_iff in *. destruct H as ([[v vl] d0] & <- & Hx). exists (v, vl, d0). auto.
      * intros H. apply in_app_or in H. apply in_or_app. destruct H as [H|H]; [left|right; exact H].
        rewrite in_map_iff in *. destruct H as ([[v vl] d0] & <- & Hx). exists (v, vl, d0). auto.
  - destruct (cret c =? -1)%Z; [intros []|]. destruct (cret c =? nx)%Z; [intros []|]. cbn. intros [<-|[]]. left. reflexivity.
Qed.

Lemma all_regs_targets G : forall order nx y, In y (all_regs mp name G order nx) -> exists c, In c G /\ In y (targets c).
Proof.
  induction order as [|i r IH]; intros nx y H; cbn [all_regs] in H; [destruct H|]. apply in_app_or in H. destruct H as [H|H]; [|eapply IH; exact H].
  destruct (get_chunk G i) as [c|] eqn:E; [|destruct H]. exists c. split; [eapply EmitProps.get_chunk_in; exact E|eapply regs_in_targets; exact H].
Qed.

(* when does a chunk rendered last (next = -1) fall off the end *)
Lemma last_falls c : snd (render_branch mp name c (-1)) = true ->
  (exists d, cbr c = Some (BrJump d) /\ d = (-1)%Z) \/
  (exists op ol cases dd dest, cbr c = Some (BrSwitch op ol cases (Some dd) dest) /\ dd = (-1)%Z) \/
  (exists op ol cases, cbr c = Some (BrSwitch op ol cases None (-1))).
Proof.
  unfold render_branch. destruct (cbr c) as [[d|d|l tr fa|op ol cases dd dest]|].
  - unfold goto_or_fall. cbn [andb]. destruct (d =? -1)%Z eqn:E; [|discriminate]. intros _. left. exists d. split; [reflexivity|apply Z.eqb_eq; exact E].
  - unfold goto_or_fall. cbn [andb]. destruct (d =? -1)%Z eqn:E; discriminate.
  - unfold goto_or_fall. cbn [andb]. destruct (fa =? -1)%Z eqn:E; discriminate.
  - destruct dd as [dd|].
    + destruct (dd =? -1)%Z eqn:E; [|discriminate]. intros _. right. left. exists op, ol, cases, dd, dest. split; [reflexivity|apply Z.eqb_eq; exact E].
    + destruct (dest =? -1)%Z eqn:E; [|discriminate]. intros _. right. right. apply Z.eqb_eq in E. subst dest. exists op, ol, cases. reflexivity.
  - destruct (cret c =? -1)%Z eqn:E; discriminate.
Qed.
End R.

(* the part of the check that speaks about names the author chose *)
Definition names_okb (G : list chunk) (code : list instr) : bool :=
  forallb pre_okb G && forallb (goto_okb G code) G.

Lemma zmem_perm x l l' : Permutation l l' -> zmem x l = zmem x l'.
Proof.
  intros P. destruct (zmem x l) eqn:A; destruct (zmem x l') eqn:B; try reflexivity.
  - apply zmem_in in A. assert (In x l') by (eapply Permutation_in; eassumption). apply zmem_in in H. congruence.
  - apply zmem_in in B. assert (In x l) by (eapply Permutation_in; [symmetry|]; eassumption). apply zmem_in in H. congruence.
Qed.

Local Opaque work_fuel work.
Lemma finals_simple body w : emit_graph body = Emitter.Ok w -> src_ok body -> Forall (fun c => Forall simple (cstmts c)) (finals w).
Proof.
  intros HW [OK ND]. unfold emit_graph in HW.
  assert (I0 : Worklist.Inv {| remaining := [mk 0 (-1) body None]; finals := []; counter := 0; brk := []; org := [] |}).
  { constructor; cbn.
    - lia.
    - repeat constructor. intros [].
    - repeat constructor; cbn; lia.
    - constructor; [right; split; reflexivity|constructor].
    - constructor; [exact OK|constructor].
    - unfold tags_rem. cbn. rewrite !app_nil_r. exact ND.
    - reflexivity. }
  destruct (work_conserves text dlabs eq_refl dlabs_app (fun _ => eq_refl) dlabs_ctl _ _ _ I0 (Forall_nil _) HW) as [_ S]. exact S.
Qed.

Local Opaque order_of emit_graph.
Theorem wf_render_from_source mp name optimize body w code :
  emit_graph body = Emitter.Ok w -> src_ok body ->
  NoDup (lnames code) ->
  names_okb (finals w) code = true ->
  wf_render mp name (finals w) (order_of optimize (finals w)) code = true.
Proof.
  intros HW HS NDL NM. set (G := finals w). set (order := order_of optimize G).
  destruct (final_graph_shape body w HW HS) as (DN & NE & ST & TG & TB & N3). fold G in DN, NE, ST, TG, TB, N3.
  assert (DN' : OrderPerm.dense G) by exact DN.
  destruct (order_conjuncts optimize G DN' NE) as (O1 & O2 & O3 & O4). fold order in O1, O2, O3, O4.
  pose proof (order_of_perm optimize G DN' NE) as PERM. fold order in PERM.
  assert (INORD : forall d, In d (ids G) -> zmem d order = true).
  { intros d Hd. apply zmem_in. eapply Permutation_in; [symmetry; exact PERM|exact Hd]. }
  unfold names_okb in NM. apply andb_prop in NM. destruct NM as [N1 N2].
  pose proof (finals_simple body w HW HS) as SIMPLE. fold G in SIMPLE.
  unfold wf_render. fold G order.
  repeat (apply andb_true_intro; split); try assumption.
  - (* chunk ids distinct *) apply nodupz_complete. destruct DN as [N _]. exact N.
  - (* labels distinct *) apply SrcWf.nodupt_complete. exact NDL.
  - (* every target is rendered *)
    apply forallb_forall. intros c Hc. unfold targets_okb, realb, real_or_retb.
    assert (RR : forall d, In d (targets c) -> ((d =? -1)%Z || zmem d order) = true).
    { intros d Hd. destruct (TG c Hc d Hd) as [->|[_ Q]]; [reflexivity|]. rewrite (INORD d Q). apply orb_true_r. }
    assert (SS : forall d, In d (stargets c) -> zmem d order = true).
    { intros d Hd. destruct (ST c Hc d Hd) as [_ Q]. exact (INORD d Q). }
    unfold targets in RR. unfold stargets in SS. destruct (cbr c) as [[d|d|l tr fa|op ol cases dd dest]|].
    + apply SS. left. reflexivity.
    + apply RR. left. reflexivity.
    + rewrite (SS tr (or_introl eq_refl)). apply RR. right. left. reflexivity.
    + apply andb_true_intro. split.
      * apply forallb_forall. intros [[v vl] d] Hx. apply SS. apply in_or_app. left. apply in_map_iff. exists (v, vl, d). auto.
      * destruct dd as [dd|]; [apply SS; apply in_or_app; right; left; reflexivity|apply RR; apply in_or_app; right; left; reflexivity].
    + apply RR. left. reflexivity.
  - (* simple statements only *)
    apply forallb_forall. intros c Hc. rewrite Forall_forall in SIMPLE. specialize (SIMPLE c Hc). apply forallb_forall. intros s Hs.
    rewrite Forall_forall in SIMPLE. exact (SIMPLE s Hs).
  - (* no branch refers to chunk 0 *)
    apply negb_true_iff. apply not_true_is_false. intros Z0. apply zmem_in in Z0. destruct (all_regs_targets mp name G _ _ _ Z0) as (c & Hc & Hd).
    destruct (TG c Hc 0%Z Hd) as [Q|[Q _]]; lia.
  - (* the last chunk of the order does not fall off the end *)
    unfold last_okb. destruct (rev order) as [|d rv] eqn:RV; [reflexivity|].
    assert (ORD : order = rev rv ++ [d]) by (rewrite <- (rev_involutive order), RV; reflexivity).
    destruct (get_chunk G d) as [c|] eqn:GC; [|reflexivity]. apply negb_true_iff. apply not_true_is_false. intros FALL.
    pose proof (EmitProps.get_chunk_in _ _ _ GC) as Hc. pose proof (RenderCheck.get_chunk_cid G c d GC) as CID.
    destruct (last_falls mp name c FALL) as [(x & B & ->)|[(op & ol & cases & dd & dest & B & ->)|(op & ol & cases & B)]].
    + destruct (ST c Hc (-1)%Z) as [Q _]; [unfold stargets; rewrite B; left; reflexivity|lia].
    + destruct (ST c Hc (-1)%Z) as [Q _]; [unfold stargets; rewrite B; apply in_or_app; right; left; reflexivity|lia].
    + destruct cases as [|x0 xs].
      * rewrite Forall_forall in N3. specialize (N3 c Hc). unfold nonempty_switch in N3. rewrite B in N3. exact N3.
      * assert (TS : is_table c) by (unfold is_table; rewrite B; exact Logic.I).
        destruct (TB c Hc TS) as (Z0 & NXT & NOTAIL). rewrite CID in *.
        assert (INO : In (d + 1)%Z order) by (eapply Permutation_in; [symmetry; exact PERM|exact NXT]).
        rewrite ORD in INO. apply in_app_or in INO. destruct INO as [INO|[E|[]]]; [|lia].
        destruct (in_split _ _ INO) as (p1 & p2 & SP).
        destruct optimize.
        -- assert (OS : order_of true G = p1 ++ (d + 1)%Z :: (p2 ++ [d])) by (fold order; rewrite ORD, SP, <- app_assoc; reflexivity).
           destruct (opt_order_step G DN' NE _ _ _ OS) as [(_ & E)|[(p' & p & cp & _ & GP & TP)|ALL]].
           ++ lia.
           ++ apply (NOTAIL cp); [eapply EmitProps.get_chunk_in; exact GP|exact TP].
           ++ assert (IN1 : In d p1) by (apply ALL; lia).
              assert (ND : NoDup order) by (apply nodupz_sound; exact O1). rewrite ORD, SP, <- app_assoc in ND.
              apply (nodup_app_disj _ _ d ND IN1). right. apply in_or_app. right. left. reflexivity.
        -- destruct (plain_order_last G NE) as (pre & PL). fold order in PL. rewrite ORD in PL. apply app_inj_tail in PL. destruct PL as [_ PL].
           destruct DN as [_ RGE]. unfold ids in NXT. apply in_map_iff in NXT. destruct NXT as (x & EX & HX). rewrite Forall_forall in RGE. specialize (RGE x HX). lia.
Qed.

(* ---------- with the labels: the render check from the source ---------- *)
From Pory Require Import LabelsUnique.
Local Transparent emit_graph.
Theorem render_check_from_source mp tl name glob optimize body w code :
  emit_graph body = Emitter.Ok w -> src_ok body ->
  emit_script mp tl name glob optimize body = Emitter.Ok code ->
  NoDup (dlabs body) ->                                        (* the labels the author wrote in the script are pairwise distinct *)
  (Z.of_nat (List.length (finals w)) <= 10 ^ 40)%Z ->          (* decimal printing of chunk ids in the model has 40 digits *)
  names_okb (finals w) code = true ->
  wf_render mp name (finals w) (order_of optimize (finals w)) code = true /\ labels_okb body (finals w) = true.
Proof.
  intros HW HS HE ND SZ NM. split; [|exact (labels_ok_from_source body w HW HS ND)].
  apply (wf_render_from_source mp name optimize body w code HW HS); [|exact NM].
  destruct (final_graph_shape body w HW HS) as (DN & NE & _).
  assert (DN' : OrderPerm.dense (finals w)) by exact DN.
  destruct (order_conjuncts optimize (finals w) DN' NE) as (O1 & O2 & _ & _).
  pose proof (order_of_perm optimize (finals w) DN' NE) as PERM.
  unfold emit_script in HE. rewrite HW in HE.
  eapply rendered_labels_distinct; [exact HE|apply nodupz_sound; exact O1|destruct DN as [N _]; exact N| |].
  - intros d Hd. assert (Q : In d (map cid (finals w))) by (eapply Permutation_in; [exact PERM|exact Hd]).
    apply in_map_iff in Q. destruct Q as (c & <- & Hc). destruct DN as [_ RG]. rewrite Forall_forall in RG. specialize (RG c Hc). cbn in RG. lia.
  - apply (Permutation_NoDup (l := dlabs body)); [symmetry; exact (chunk_labels_are_source_labels body w HW HS)|exact ND].
Qed.
