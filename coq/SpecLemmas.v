(* Characterisation lemmas of the source semantics (so that the specification itself can be inspected):
   switch selection (C03), short-circuit evaluation and AutoVar preambles (C02, C11). *)
From Coq Require Import List String Ascii ZArith NArith Lia Bool.
From Pory Require Import Lexer Ast Emitter Sem2.
Import ListNotations.

(* ---------- C03: select_case ---------- *)
Lemma select_first_match pre c post m :
  (forall x, In x pre -> sc_def x = true \/ m (sc_val x) = false) ->
  sc_def c = false -> m (sc_val c) = true ->
  select_case (pre ++ c :: post) m = next_body (c :: post).
Proof.
  intros Hpre Hd Hm. unfold select_case.
  assert (E : select_match (pre ++ c :: post) m = Some (next_body (c :: post))).
  { induction pre as [|x pre IH]; cbn [app select_match].
    - rewrite Hd, Hm. reflexivity.
    - destruct (Hpre x (or_introl eq_refl)) as [D|M].
      + rewrite D. cbn. apply IH. intros y Hy. apply Hpre. now right.
      + rewrite M, andb_false_r. apply IH. intros y Hy. apply Hpre. now right. }
  now rewrite E.
Qed.

Lemma select_no_match cases m :
  (forall x, In x cases -> sc_def x = true \/ m (sc_val x) = false) ->
  select_case cases m = match select_default cases with Some b => b | None => [] end.
Proof.
  intros H. unfold select_case.
  assert (E : select_match cases m = None).
  { induction cases as [|x r IH]; [reflexivity|]. cbn [select_match].
    destruct (H x (or_introl eq_refl)) as [D|M].
    - rewrite D. cbn. apply IH. intros y Hy. apply H. now right.
    - rewrite M, andb_false_r. apply IH. intros y Hy. apply H. now right. }
  now rewrite E.
Qed.

Lemma select_default_spec pre c post :
  (forall x, In x pre -> sc_def x = false) -> sc_def c = true ->
  select_default (pre ++ c :: post) = Some (next_body (c :: post)).
Proof.
  intros Hpre Hd. induction pre as [|x pre IH]; cbn [app select_default].
  - now rewrite Hd.
  - rewrite (Hpre x (or_introl eq_refl)). apply IH. intros y Hy. apply Hpre. now right.
Qed.

Lemma select_default_none cases :
  (forall x, In x cases -> sc_def x = false) -> select_default cases = None.
Proof.
  induction cases as [|x r IH]; intros H; [reflexivity|]. cbn.
  rewrite (H x (or_introl eq_refl)). apply IH. intros y Hy. apply H. now right.
Qed.

(* a case without a body shares the body of the next case that has one; trailing body-less cases do nothing *)
Lemma next_body_skip c post : sc_body c = [] -> next_body (c :: post) = next_body post.
Proof. intros H. cbn. now rewrite H. Qed.
Lemma next_body_here c post : sc_body c <> [] -> next_body (c :: post) = sc_body c.
Proof. intros H. cbn. destruct (sc_body c); congruence. Qed.
Lemma next_body_trailing cs : (forall x, In x cs -> sc_body x = []) -> next_body cs = [].
Proof.
  induction cs as [|x r IH]; intros H; [reflexivity|]. cbn. rewrite (H x (or_introl eq_refl)).
  apply IH. intros y Hy. apply H. now right.
Qed.
(* the selected statements are the body of exactly one case of the list (or nothing): never two bodies *)
Lemma next_body_is_a_body cs : next_body cs = [] \/ exists c, In c cs /\ next_body cs = sc_body c.
Proof.
  induction cs as [|x r IH]; [now left|]. cbn. destruct (sc_body x) eqn:E.
  - destruct IH as [H|(c & Hin & H)]; [now left|]. right. exists c. split; [now right|exact H].
  - right. exists x. split; [now left|]. now rewrite E.
Qed.
Lemma select_is_one_body cases m :
  select_case cases m = [] \/ exists c, In c cases /\ select_case cases m = sc_body c.
Proof.
  unfold select_case.
  assert (A : forall cs o, select_match cs m = Some o -> o = [] \/ exists c, In c cs /\ o = sc_body c).
  { induction cs as [|x r IH]; cbn; intros o H; [discriminate|].
    destruct (negb (sc_def x) && m (sc_val x)).
    - inversion H; subst. destruct (next_body_is_a_body (x :: r)) as [E|E]; [left; exact E | right; exact E].
    - destruct (IH _ H) as [E|(c & Hin & E)]; [now left|]. right. exists c. split; [now right|exact E]. }
  assert (B : forall cs o, select_default cs = Some o -> o = [] \/ exists c, In c cs /\ o = sc_body c).
  { induction cs as [|x r IH]; cbn; intros o H; [discriminate|].
    destruct (sc_def x).
    - inversion H; subst. destruct (next_body_is_a_body (x :: r)) as [E|E]; [left; exact E | right; exact E].
    - destruct (IH _ H) as [E|(c & Hin & E)]; [now left|]. right. exists c. split; [now right|exact E]. }
  destruct (select_match cases m) eqn:E1; [exact (A _ _ E1)|].
  destruct (select_default cases) eqn:E2; [exact (B _ _ E2)|]. now left.
Qed.

(* ---------- C02 / C11: evaluation of conditions ---------- *)
Section EV.
Variable St : Type.
Variable exec : cmd -> St -> stepres St.
Variable flag_set trainer_beaten : text -> St -> bool.
Variable cmp_var cmp_var_value : text -> text -> St -> comparison.
Notation eval_leaf := (eval_leaf St exec flag_set trainer_beaten cmp_var cmp_var_value).
Notation eval_bexp := (eval_bexp St exec flag_set trainer_beaten cmp_var cmp_var_value).
Notation leaf_holds := (leaf_holds St flag_set trainer_beaten cmp_var cmp_var_value).

(* an AutoVar leaf runs its command exactly once, immediately before the comparison, which reads the state the command left *)
Lemma eval_leaf_autovar l p s s' :
  lpre l = Some p -> exec p s = Continue St s' -> eval_leaf l s = ([p], s', Some (leaf_holds l s')).
Proof. intros H E. unfold Sem2.eval_leaf. now rewrite H, E. Qed.
Lemma eval_leaf_plain l s : lpre l = None -> eval_leaf l s = ([], s, Some (leaf_holds l s)).
Proof. intros H. unfold Sem2.eval_leaf. now rewrite H. Qed.

(* value of an expression under the usual reading, when no preamble stops the script *)
Lemma eval_and a b s ev s1 va :
  eval_bexp a s = (ev, s1, Some va) ->
  eval_bexp (BBin BAnd a b) s =
    if va then let '(ev2, s2, r) := eval_bexp b s1 in (ev ++ ev2, s2, r) else (ev, s1, Some false).
Proof. intros H. cbn. rewrite H. destruct va; reflexivity. Qed.
Lemma eval_or a b s ev s1 va :
  eval_bexp a s = (ev, s1, Some va) ->
  eval_bexp (BBin BOr a b) s =
    if va then (ev, s1, Some true) else let '(ev2, s2, r) := eval_bexp b s1 in (ev ++ ev2, s2, r).
Proof. intros H. cbn. rewrite H. destruct va; reflexivity. Qed.

(* without preambles the value is the boolean value of the expression and the state is untouched *)
Fixpoint pure (e : bexp) : Prop :=
  match e with BLeaf l => lpre l = None | BBin _ a b => pure a /\ pure b end.
Fixpoint bvalue (e : bexp) (s : St) : bool :=
  match e with
  | BLeaf l => leaf_holds l s
  | BBin BAnd a b => bvalue a s && bvalue b s
  | BBin BOr a b => bvalue a s || bvalue b s
  end.
Lemma eval_pure e s : pure e -> eval_bexp e s = ([], s, Some (bvalue e s)).
Proof.
  induction e as [l|o a IHa b IHb]; cbn [pure bvalue]; intros H.
  - apply eval_leaf_plain; exact H.
  - destruct H as [Ha Hb]. cbn [Sem2.eval_bexp]. rewrite (IHa Ha).
    destruct o; destruct (bvalue a s); cbn; try reflexivity; rewrite (IHb Hb); reflexivity.
Qed.
End EV.
