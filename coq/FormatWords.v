(* C07, from the characters of the source text to the output of format():
   (1) the word splitter of format_text never runs out of fuel,
   (2) what get_next_word does with spaces, backslashes, break codes and braces, and the character-level
       preservation theorem for the list of words,
   (3) from the source text to the output text. *)
From Coq Require Import List String Ascii ZArith NArith Lia Bool.
From Pory Require Import Lexer Ast Parser Format FmtLayout FmtRefine.
Import ListNotations.
Open Scope list_scope.
Local Open Scope nat_scope.

(* ------------------------------------------------------------------------------------------------------------- *)
(* the specification side: the text with the spaces outside braces removed                                        *)
(* ------------------------------------------------------------------------------------------------------------- *)

(* the brace level after the character c (exactly the expression in gnw; a '}' at level 0 stays at level 0) *)
Definition lvl_step (lvl : nat) (c : N) : nat :=
  if (c =? 123)%N then S lvl else if (c =? 125)%N then pred lvl else lvl.

(* remove the spaces at brace level 0; spaces inside {..} stay *)
Fixpoint despace (lvl : nat) (l : text) : text :=
  match l with
  | [] => []
  | c :: r => if (c =? 32)%N && Nat.eqb lvl 0 then despace lvl r else c :: despace (lvl_step lvl c) r
  end.
Fixpoint lvl_after (lvl : nat) (l : text) : nat :=
  match l with [] => lvl | c :: r => lvl_after (lvl_step lvl c) r end.

(* a break code \l \n \p \N begins here *)
Definition starts_break (l : text) : bool :=
  match l with c1 :: c2 :: _ => (c1 =? 92)%N && is_brk_letter c2 | _ => false end.
(* where a word may end: at the end of the text, before a space, before a break code *)
Definition word_end (rest : text) : Prop :=
  rest = [] \/ (exists r, rest = 32%N :: r) \/ starts_break rest = true.

Lemma despace_app u : forall lvl v, despace lvl (u ++ v) = despace lvl u ++ despace (lvl_after lvl u) v.
Proof.
  induction u as [|c u IH]; intros lvl v; [reflexivity|].
  cbn [app despace lvl_after]. destruct ((c =? 32)%N && Nat.eqb lvl 0) eqn:E.
  - apply andb_prop in E. destruct E as [E1 E2]. apply N.eqb_eq in E1. subst c. rewrite IH. reflexivity.
  - rewrite IH. reflexivity.
Qed.
Lemma despace_spaces a : forall l, despace 0 (repeat 32%N a ++ l) = despace 0 l.
Proof. induction a as [|a IH]; intros l; [reflexivity|]. cbn [repeat app despace]. cbn. apply IH. Qed.
Lemma despace_all_spaces a : despace 0 (repeat 32%N a) = [].
Proof. rewrite <- (app_nil_r (repeat _ a)). rewrite despace_spaces. reflexivity. Qed.

Lemma brk_letter_cases c : is_brk_letter c = true -> c = 108%N \/ c = 110%N \/ c = 112%N \/ c = 78%N.
Proof.
  unfold is_brk_letter. intros H.
  destruct (N.eqb_spec c 108); [auto|]. destruct (N.eqb_spec c 110); [auto|].
  destruct (N.eqb_spec c 112); [auto|]. destruct (N.eqb_spec c 78); [auto|]. discriminate.
Qed.
Lemma brk_letter_line_break c : is_brk_letter c = true -> is_line_break (bs c) = true.
Proof. intros H. destruct (brk_letter_cases c H) as [E|[E|[E|E]]]; subst c; reflexivity. Qed.

(* ------------------------------------------------------------------------------------------------------------- *)
(* get_next_word, phase by phase                                                                                  *)
(* ------------------------------------------------------------------------------------------------------------- *)

(* the escape flag only matters in front of one of the letters l n p N *)
Lemma gnw_esc c r pos e s fns frr eon lvl len :
  is_brk_letter c = false ->
  gnw (c :: r) pos true e s fns frr eon lvl len = gnw (c :: r) pos false e s fns frr eon lvl len.
Proof. intros H. cbn [gnw]. rewrite H. reflexivity. Qed.

(* phase E: the second character of a break code has just been read: stop at the next position *)
Lemma gnwE l pos esc e s frr lvl len :
  len = pos + List.length l -> gnw l pos esc e s true frr true lvl len = (pos, s, pos).
Proof. intros H. destruct l as [|c r]; cbn [gnw]; [|reflexivity]. cbn in H. replace len with pos by lia. reflexivity. Qed.

(* a break code begins somewhere in l at brace level 0 (lvl = the level at the beginning of l) *)
Fixpoint has_break (lvl : nat) (l : text) : bool :=
  match l with
  | [] => false
  | c :: r => (Nat.eqb lvl 0 && starts_break (c :: r)) || has_break (lvl_step lvl c) r
  end.
Lemma has_break_cons lvl c u : (c =? 92)%N && Nat.eqb lvl 0 = false -> has_break lvl (c :: u) = has_break (lvl_step lvl c) u.
Proof.
  intros H. cbn [has_break]. unfold starts_break. destruct (Nat.eqb lvl 0); [|reflexivity].
  rewrite andb_true_r in H. rewrite H. destruct u; reflexivity.
Qed.
Lemma has_break_bs u : (match u with c2 :: _ => is_brk_letter c2 | [] => false end) = false -> has_break 0 (92%N :: u) = has_break 0 u.
Proof. intros H. cbn [has_break]. unfold starts_break at 1. destruct u as [|c2 u]; [reflexivity|]. rewrite H. reflexivity. Qed.

(* phase C: inside a word that contains a regular character *)
Lemma gnwC l : forall pos e s lvl len,
  len = pos + List.length l ->
  exists u rest, l = u ++ rest /\
    gnw l pos false e s true true false lvl len = (pos + List.length u, s, pos + List.length u) /\
    despace lvl u = u /\ (rest = [] \/ lvl_after lvl u = 0) /\ word_end rest /\ has_break lvl u = false.
Proof.
  induction l as [|c r IH]; intros pos e s lvl len HL.
  - exists [], []. cbn. replace len with pos by (cbn in HL; lia). rewrite Nat.add_0_r.
    repeat split; auto. left; reflexivity.
  - cbn [List.length] in HL. cbn [gnw andb].
    destruct ((c =? 92)%N && Nat.eqb lvl 0) eqn:EB.
    + apply andb_prop in EB. destruct EB as [E1 E2]. apply N.eqb_eq in E1. apply Nat.eqb_eq in E2. subst c lvl.
      destruct r as [|c2 r2].
      * exists [92%N], []. cbn. replace len with (pos + 1) by lia. repeat split; auto. left; reflexivity.
      * destruct (is_brk_letter c2) eqn:BL.
        -- exists [], (92%N :: c2 :: r2). cbn [gnw andb]. rewrite BL. cbn [app List.length]. rewrite Nat.add_0_r.
           repeat split; auto. right; right. cbn. exact BL.
        -- rewrite gnw_esc by exact BL.
           destruct (IH (S pos) pos s 0 len ltac:(lia)) as (u & rest & EL & EG & ED & EA & EW & EH).
           exists (92%N :: u), rest. rewrite EL at 1. split; [reflexivity|]. rewrite EG. cbn [List.length].
           split; [f_equal; [f_equal|]; lia|].
           change (despace 0 (92%N :: u)) with (92%N :: despace 0 u). change (lvl_after 0 (92%N :: u)) with (lvl_after 0 u).
           split; [f_equal; exact ED|]. split; [assumption|]. split; [assumption|].
           rewrite has_break_bs; [exact EH|]. destruct u as [|x u']; [reflexivity|]. cbn [app] in EL. inversion EL; subst x. exact BL.
    + destruct (c =? 32)%N eqn:E32.
      * apply N.eqb_eq in E32. subst c. clear EB.
        destruct (Nat.eqb lvl 0) eqn:EL0.
        { apply Nat.eqb_eq in EL0. subst lvl. exists [], (32%N :: r). cbn [app List.length]. rewrite Nat.add_0_r.
          repeat split; auto. right; left. eexists; reflexivity. }
        destruct (IH (S pos) e s lvl len ltac:(lia)) as (u & rest & EL & EG & ED & EA & EW & EH).
        exists (32%N :: u), rest. rewrite EL at 1. split; [reflexivity|]. rewrite EG. cbn [List.length].
        split; [f_equal; [f_equal|]; lia|].
        change (lvl_after lvl (32%N :: u)) with (lvl_after lvl u).
        change (despace lvl (32%N :: u)) with (if true && Nat.eqb lvl 0 then despace lvl u else 32%N :: despace lvl u).
        rewrite EL0. cbn [andb]. split; [f_equal; exact ED|]. split; [assumption|]. split; [assumption|].
        rewrite has_break_cons by reflexivity. exact EH.
      * destruct (IH (S pos) e s (lvl_step lvl c) len ltac:(lia)) as (u & rest & EL & EG & ED & EA & EW & EH).
        exists (c :: u), rest. rewrite EL at 1. split; [reflexivity|]. unfold lvl_step in EG at 1. rewrite EG. cbn [List.length].
        split; [f_equal; [f_equal|]; lia|]. cbn [despace lvl_after]. rewrite E32. cbn [andb].
        split; [f_equal; exact ED|]. split; [assumption|]. split; [assumption|].
        rewrite has_break_cons by exact EB. exact EH.
Qed.

Lemma brk_not_special c : is_brk_letter c = true -> (c =? 32)%N = false /\ (c =? 92)%N = false /\ lvl_step 0 c = 0.
Proof. intros H. destruct (brk_letter_cases c H) as [E|[E|[E|E]]]; subst c; repeat split; reflexivity. Qed.

(* phase B: only backslashes so far (the last one at pos-1 = s); every further backslash moves the start of the word *)
Lemma gnwB l : forall pos s len,
  len = pos + List.length l -> pos = S s ->
  exists b u rest, l = repeat 92%N b ++ u ++ rest /\
    gnw l pos true s s true false false 0 len = (pos + b + List.length u, s + b, pos + b + List.length u) /\
    despace 0 (92%N :: u) = 92%N :: u /\ (rest = [] \/ lvl_after 0 (92%N :: u) = 0) /\
    (is_line_break (92%N :: u) = true \/ (has_break 0 (92%N :: u) = false /\ word_end rest)).
Proof.
  induction l as [|c r IH]; intros pos s len HL HP.
  - exists 0, [], []. cbn. replace len with pos by (cbn in HL; lia). rewrite !Nat.add_0_r.
    repeat split; auto. right. split; [reflexivity|left; reflexivity].
  - cbn [List.length] in HL. cbn [gnw andb].
    destruct (is_brk_letter c) eqn:BL.
    + (* a break code: the word is \c *)
      exists 0, [c], r. cbn [repeat app List.length]. rewrite gnwE by lia.
      destruct (brk_not_special c BL) as (N32 & N92 & LS).
      split; [reflexivity|]. split; [f_equal; [f_equal|]; lia|].
      change (despace 0 [92%N; c]) with (92%N :: (if (c =? 32)%N && true then [] else [c])).
      change (lvl_after 0 [92%N; c]) with (lvl_step 0 c). rewrite N32, LS. cbn [andb].
      split; [reflexivity|]. split; [right; reflexivity|]. left. apply (brk_letter_line_break c BL).
    + destruct (N.eqb_spec c 92) as [E92|N92].
      * subst c. cbn [Nat.eqb andb].
        destruct (IH (S pos) pos len ltac:(lia) eq_refl) as (b & u & rest & EL & EG & ED & EA & EW).
        exists (S b), u, rest. cbn [repeat app]. rewrite EL at 1. split; [reflexivity|]. rewrite EG.
        split; [f_equal; [f_equal|]; lia|]. split; [exact ED|]. split; assumption.
      * cbn [andb]. destruct (N.eqb_spec c 32) as [E32|N32].
        -- subst c. cbn [Nat.eqb andb]. exists 0, [], (32%N :: r). cbn [repeat app List.length]. rewrite !Nat.add_0_r.
           repeat split; auto. right. split; [reflexivity|]. right; left. eexists; reflexivity.
        -- destruct (gnwC r (S pos) s s (lvl_step 0 c) len ltac:(lia)) as (u & rest & EL & EG & ED & EA & EW & EH).
           exists 0, (c :: u), rest. cbn [repeat app List.length]. rewrite EL at 1. split; [reflexivity|].
           unfold lvl_step in EG at 1. rewrite EG.
           split; [f_equal; [f_equal|]; lia|].
           assert (X32 : (c =? 32)%N = false) by (apply N.eqb_neq; exact N32).
           assert (X92 : (c =? 92)%N = false) by (apply N.eqb_neq; exact N92).
           change (despace 0 (92%N :: c :: u)) with (92%N :: (if (c =? 32)%N && true then despace 0 u else c :: despace (lvl_step 0 c) u)).
           change (lvl_after 0 (92%N :: c :: u)) with (lvl_after (lvl_step 0 c) u).
           rewrite X32. cbn [andb]. split; [do 2 f_equal; exact ED|]. split; [exact EA|]. right. split; [|exact EW].
           rewrite has_break_bs by exact BL. rewrite has_break_cons by (rewrite X92; reflexivity). exact EH.
Qed.

(* phase A: only spaces so far *)
Definition word_shape (b : nat) (w rest : text) : Prop :=
  w <> [] /\ (forall w', w <> 32%N :: w') /\ (0 < b -> exists w', w = 92%N :: w') /\
  despace 0 w = w /\ (rest = [] \/ lvl_after 0 w = 0) /\
  (is_line_break w = true \/ (has_break 0 w = false /\ word_end rest)).

Lemma gnwA l : forall pos e s len,
  len = pos + List.length l ->
  (l = repeat 32%N (List.length l) /\ gnw l pos false e s false false false 0 len = (len, 0, 0)) \/
  exists a b w rest, l = repeat 32%N a ++ repeat 92%N b ++ w ++ rest /\
    gnw l pos false e s false false false 0 len = (pos + a + b + List.length w, pos + a + b, pos + a + b + List.length w) /\
    word_shape b w rest.
Proof.
  induction l as [|c r IH]; intros pos e s len HL.
  - left. split; reflexivity.
  - cbn [List.length] in HL. cbn [gnw andb].
    destruct (N.eqb_spec c 92) as [E92|N92].
    + subst c. cbn [Nat.eqb andb]. right.
      destruct (gnwB r (S pos) pos len ltac:(lia) eq_refl) as (b & u & rest & EL & EG & ED & EA & EW).
      exists 0, b, (92%N :: u), rest. cbn [repeat app List.length]. split.
      { rewrite EL at 1. clear. induction b as [|b IHb]; [reflexivity|]. cbn [repeat app]. f_equal. exact IHb. }
      rewrite EG. split; [f_equal; [f_equal|]; lia|].
      split; [discriminate|]. split; [intros w' X; discriminate|]. split; [intros _; eexists; reflexivity|].
      split; [exact ED|]. split; assumption.
    + cbn [andb]. destruct (N.eqb_spec c 32) as [E32|N32].
      * subst c. cbn [andb]. destruct (IH (S pos) e s len ltac:(lia)) as [(EL & EG)|(a & b & w & rest & EL & EG & SH)].
        -- left. cbn [List.length repeat]. split; [f_equal; exact EL|exact EG].
        -- right. exists (S a), b, w, rest. cbn [repeat app]. rewrite EL at 1. split; [reflexivity|]. rewrite EG.
           split; [f_equal; [f_equal|]; lia|]. exact SH.
      * right. destruct (gnwC r (S pos) e pos (lvl_step 0 c) len ltac:(lia)) as (u & rest & EL & EG & ED & EA & EW & EH).
        exists 0, 0, (c :: u), rest. cbn [repeat app List.length]. rewrite EL at 1. split; [reflexivity|].
        unfold lvl_step in EG at 1. rewrite EG. split; [f_equal; [f_equal|]; lia|].
        assert (X32 : (c =? 32)%N = false) by (apply N.eqb_neq; exact N32).
        assert (X92 : (c =? 92)%N = false) by (apply N.eqb_neq; exact N92).
        split; [discriminate|]. split; [intros w' X; congruence|]. split; [intros X; lia|].
        change (despace 0 (c :: u)) with (if (c =? 32)%N && true then despace 0 u else c :: despace (lvl_step 0 c) u).
        change (lvl_after 0 (c :: u)) with (lvl_after (lvl_step 0 c) u).
        rewrite X32. cbn [andb]. split; [f_equal; exact ED|]. split; [exact EA|]. right. split; [|exact EW].
        rewrite has_break_cons by (rewrite X92; reflexivity). exact EH.
Qed.

Lemma skipn_exact {A} (u v : list A) n : n = List.length u -> skipn n (u ++ v) = v.
Proof. intros ->. induction u as [|x u IH]; [reflexivity|exact IH]. Qed.
Lemma firstn_exact {A} (u v : list A) n : n = List.length u -> firstn n (u ++ v) = u.
Proof. intros ->. induction u as [|x u IH]; [reflexivity|]. cbn. f_equal. exact IH. Qed.
Lemma skipn_add {A} (l : list A) : forall n m, skipn (n + m) l = skipn m (skipn n l).
Proof.
  induction l as [|x l IH]; intros n m.
  - now rewrite !skipn_nil.
  - destruct n as [|n]; [reflexivity|]. cbn [Nat.add skipn]. apply IH.
Qed.

(* WHAT get_next_word DOES.  Either the text consists of spaces only: no word, everything consumed.  Or the text is
     spaces, then b backslashes that are DROPPED (b > 0 only if the word itself begins with one more backslash), then the
     word w, then the rest; the returned position is just after the word; the word is not empty, does not begin with a
     space, its only spaces are inside braces, it ends at brace level 0 unless the text ends, and it is either a break
     code, or it contains no break code at brace level 0 and ends at the end of the text / before a space / before a
     break code (so a word is never cut anywhere else).  See word_shape. *)
Theorem get_next_word_spec l :
  (l = repeat 32%N (List.length l) /\ get_next_word l = (List.length l, [])) \/
  exists a b w rest, l = repeat 32%N a ++ repeat 92%N b ++ w ++ rest /\
    get_next_word l = (a + b + List.length w, w) /\ skipn (a + b + List.length w) l = rest /\ word_shape b w rest.
Proof.
  unfold get_next_word.
  destruct (gnwA l 0 0 0 (List.length l) eq_refl) as [(EL & EG)|(a & b & w & rest & EL & EG & SH)].
  - left. rewrite EG. cbn. split; [exact EL|reflexivity].
  - right. exists a, b, w, rest. split; [exact EL|]. rewrite EG. cbn [Nat.add].
    assert (S1 : skipn (a + b) l = w ++ rest).
    { rewrite EL at 1. rewrite app_assoc. apply skipn_exact. rewrite app_length, !repeat_length. reflexivity. }
    split; [|split; [|exact SH]].
    + f_equal. rewrite S1. apply firstn_exact. lia.
    + rewrite skipn_add, S1. apply skipn_exact. reflexivity.
Qed.

(* a non-empty word consumes at least one character *)
Corollary get_next_word_progress l p w : get_next_word l = (p, w) -> w <> [] -> 1 <= p <= List.length l.
Proof.
  intros H NE. destruct (get_next_word_spec l) as [(_ & E)|(a & b & w' & rest & EL & E & _ & SH)]; rewrite E in H; inversion H; subst p w.
  - congruence.
  - apply (f_equal (@List.length N)) in EL. rewrite !app_length, !repeat_length in EL.
    destruct w' as [|c w]; [congruence|]. cbn [List.length] in *. lia.
Qed.

(* ------------------------------------------------------------------------------------------------------------- *)
(* (1) fuel sufficiency                                                                                           *)
(* ------------------------------------------------------------------------------------------------------------- *)

Lemma words_from_enough txt : forall fuel pos word,
  1 <= fuel -> (word <> [] -> 2 + (List.length txt - pos) <= fuel) ->
  exists ws, words_from txt fuel pos word = Some ws.
Proof.
  induction fuel as [|f IH]; intros pos word H1 H2; [lia|].
  cbn [words_from]. destruct word as [|c0 w0]; [eexists; reflexivity|].
  specialize (H2 ltac:(discriminate)).
  destruct (get_next_word (skipn pos txt)) as [endp nextw] eqn:GN.
  destruct (IH (pos + endp) nextw) as [ws E].
  - lia.
  - intros NE. pose proof (get_next_word_progress _ _ _ GN NE) as P.
    destruct (Nat.le_gt_cases (List.length txt) pos) as [L|L].
    + rewrite skipn_all2 in GN by exact L. cbn in GN. inversion GN; subst. congruence.
    + lia.
  - rewrite E. eexists; reflexivity.
Qed.

(* the words of a text, as format_text reads them *)
Definition words_of (txt : text) : list text :=
  match words_from txt (S (List.length txt)) (Datatypes.fst (get_next_word txt)) (Datatypes.snd (get_next_word txt)) with
  | Some ws => ws
  | None => []
  end.

Theorem words_from_total txt :
  words_from txt (S (List.length txt)) (Datatypes.fst (get_next_word txt)) (Datatypes.snd (get_next_word txt)) = Some (words_of txt).
Proof.
  unfold words_of.
  destruct (get_next_word txt) as [p w] eqn:GN. cbn [Datatypes.fst Datatypes.snd].
  destruct (words_from_enough txt (S (List.length txt)) p w) as [ws E]; [lia| |rewrite E; reflexivity].
  intros NE. pose proof (get_next_word_progress _ _ _ GN NE). lia.
Qed.

(* every word that format_text sees is non-empty, has no space outside braces, and is either exactly a break code or
   contains no break code at brace level 0 *)
Definition good_word (w : text) : Prop :=
  w <> [] /\ despace 0 w = w /\ (is_line_break w = true \/ has_break 0 w = false).

Lemma get_next_word_good l p w : get_next_word l = (p, w) -> w <> [] -> good_word w.
Proof.
  intros H NE. destruct (get_next_word_spec l) as [(_ & E)|(a & b & w' & rest & _ & E & _ & SH)]; rewrite E in H; inversion H; subst p w.
  - congruence.
  - destruct SH as (N1 & _ & _ & ED & _ & [B|(B & _)]); split; auto.
Qed.

Lemma words_from_good txt : forall fuel pos word ws,
  words_from txt fuel pos word = Some ws -> (word <> [] -> good_word word) -> Forall good_word ws.
Proof.
  induction fuel as [|f IH]; intros pos word ws HW HG; [discriminate|].
  cbn [words_from] in HW. destruct word as [|c0 w0]; [inversion HW; constructor|].
  destruct (get_next_word (skipn pos txt)) as [endp nextw] eqn:GN.
  destruct (words_from txt f (pos + endp) nextw) as [r|] eqn:WR; [|discriminate]. inversion HW; subst ws.
  constructor; [apply HG; discriminate|]. eapply IH; [exact WR|]. apply (get_next_word_good _ _ _ GN).
Qed.

Theorem words_of_good txt : Forall good_word (words_of txt).
Proof.
  pose proof (words_from_total txt) as WT. destruct (get_next_word txt) as [p w] eqn:GN.
  eapply words_from_good; [exact WT|]. apply (get_next_word_good _ _ _ GN).
Qed.

(* ------------------------------------------------------------------------------------------------------------- *)
(* (2) character-level preservation                                                                               *)
(* ------------------------------------------------------------------------------------------------------------- *)

(* The only characters get_next_word loses, beside the spaces outside braces, are backslashes immediately followed by
   another backslash (a run of backslashes at the beginning of a word keeps only its last one: getNextWord resets
   startPos at every backslash until a regular rune has been seen).  [dropbs a b]: b is a with some of those removed. *)
Inductive dropbs : text -> text -> Prop :=
| db_nil : dropbs [] []
| db_keep c a b : dropbs a b -> dropbs (c :: a) (c :: b)
| db_drop a b : dropbs (92%N :: a) b -> dropbs (92%N :: 92%N :: a) b.

(* the text contains two adjacent backslashes *)
Fixpoint has_bsbs (l : text) : bool :=
  match l with
  | [] => false
  | c :: r => ((c =? 92)%N && match r with c2 :: _ => (c2 =? 92)%N | [] => false end) || has_bsbs r
  end.

Lemma dropbs_refl a : dropbs a a.
Proof. induction a; constructor; assumption. Qed.
Lemma dropbs_app_keep u : forall a b, dropbs a b -> dropbs (u ++ a) (u ++ b).
Proof. induction u as [|c u IH]; intros a b H; [exact H|]. cbn. constructor. apply IH, H. Qed.
Lemma dropbs_run n : forall a b, dropbs (92%N :: a) b -> dropbs (repeat 92%N n ++ 92%N :: a) b.
Proof. induction n as [|n IH]; intros a b H; [exact H|]. cbn [repeat app]. destruct n; [apply db_drop; exact H|]. cbn [repeat app] in *. apply db_drop. apply IH. exact H. Qed.
Lemma dropbs_nil_inv b : dropbs [] b -> b = [].
Proof. intros H. inversion H. reflexivity. Qed.
Lemma dropbs_exact a b : dropbs a b -> has_bsbs a = false -> a = b.
Proof.
  induction 1 as [|c a b H IH|a b H IH]; intros NB; [reflexivity| |].
  - f_equal. apply IH. cbn [has_bsbs] in NB. apply orb_false_iff in NB. apply NB.
  - cbn in NB. discriminate.
Qed.
Lemma has_bsbs_skipn l : forall n, has_bsbs l = false -> has_bsbs (skipn n l) = false.
Proof.
  induction l as [|c r IH]; intros n H; [now rewrite skipn_nil|].
  destruct n as [|n]; [exact H|]. cbn [skipn]. apply IH. cbn [has_bsbs] in H. apply orb_false_iff in H. apply H.
Qed.

(* one call of get_next_word, seen from the characters *)
Lemma get_next_word_chars R endp nextw :
  get_next_word R = (endp, nextw) ->
  (nextw = [] /\ skipn endp R = [] /\ despace 0 R = []) \/
  (nextw <> [] /\
   forall rest', dropbs (skipn endp R) rest' -> exists R', dropbs R R' /\ despace 0 R' = nextw ++ despace 0 rest').
Proof.
  intros GN. destruct (get_next_word_spec R) as [(EL & E)|(a & b & w & rest & EL & E & SK & SH)]; rewrite E in GN; inversion GN; subst endp nextw.
  - left. split; [reflexivity|]. split; [apply skipn_all|]. rewrite EL. apply despace_all_spaces.
  - right. destruct SH as (NE & _ & HB & ED & EA & _). split; [exact NE|]. intros rest' DR. rewrite SK in DR.
    exists (repeat 32%N a ++ w ++ rest'). split.
    + rewrite EL. apply dropbs_app_keep. destruct b as [|b].
      * cbn [repeat app]. apply dropbs_app_keep. exact DR.
      * destruct (HB ltac:(lia)) as [w' ->]. cbn [app]. apply dropbs_run. constructor. apply dropbs_app_keep. exact DR.
    + rewrite despace_spaces, despace_app, ED. f_equal.
      destruct EA as [EA|EA]; [|rewrite EA; reflexivity].
      rewrite EA in DR. rewrite (dropbs_nil_inv _ DR). reflexivity.
Qed.

Lemma words_from_chars txt : forall fuel pos word ws,
  words_from txt fuel pos word = Some ws -> (word = [] -> skipn pos txt = []) ->
  exists R', dropbs (skipn pos txt) R' /\ List.concat ws = word ++ despace 0 R'.
Proof.
  induction fuel as [|f IH]; intros pos word ws HW HE; [discriminate|].
  cbn [words_from] in HW. destruct word as [|c0 w0].
  - inversion HW; subst ws. rewrite (HE eq_refl). exists []. split; [constructor|reflexivity].
  - destruct (get_next_word (skipn pos txt)) as [endp nextw] eqn:GN.
    destruct (words_from txt f (pos + endp) nextw) as [r|] eqn:WR; [|discriminate]. inversion HW; subst ws. clear HW.
    assert (SK : skipn (pos + endp) txt = skipn endp (skipn pos txt)) by apply skipn_add.
    destruct (get_next_word_chars _ _ _ GN) as [(EN & ES & ED)|(NE & HR)].
    + subst nextw. destruct f as [|f']; [discriminate|]. cbn in WR. inversion WR; subst r.
      exists (skipn pos txt). split; [apply dropbs_refl|]. rewrite ED. reflexivity.
    + destruct (IH _ _ _ WR ltac:(intros X; congruence)) as (rest' & DR & EC).
      rewrite SK in DR. destruct (HR rest' DR) as (R' & DR' & ER').
      exists R'. split; [exact DR'|]. cbn [List.concat]. rewrite EC, ER'. reflexivity.
Qed.

(* THE THEOREM (2), without any hypothesis: the words, concatenated, are the characters of the text in order, without the
   spaces outside braces and without some backslashes that were directly followed by a backslash *)
Theorem words_keep_characters txt :
  exists txt', dropbs txt txt' /\ List.concat (words_of txt) = despace 0 txt'.
Proof.
  pose proof (words_from_total txt) as WT.
  destruct (get_next_word txt) as [p w] eqn:GN. cbn [Datatypes.fst Datatypes.snd] in WT.
  destruct (get_next_word_chars _ _ _ GN) as [(EN & ES & ED)|(NE & HR)].
  - subst w. cbn in WT. inversion WT as [E]. exists txt. split; [apply dropbs_refl|]. rewrite ED. reflexivity.
  - destruct (words_from_chars txt _ _ _ _ WT ltac:(intros X; congruence)) as (rest' & DR & EC).
    destruct (HR rest' DR) as (R' & DR' & ER'). exists R'. split; [exact DR'|]. rewrite EC, ER'. reflexivity.
Qed.

(* ... and exactly the non-space characters (spaces inside braces kept) when the text has no two adjacent backslashes *)
Theorem words_are_the_nonspace_characters txt :
  has_bsbs txt = false -> List.concat (words_of txt) = despace 0 txt.
Proof.
  intros NB. destruct (words_keep_characters txt) as (txt' & D & E). rewrite E. f_equal. symmetry. apply dropbs_exact; assumption.
Qed.

(* the hypothesis is needed: of two adjacent backslashes that begin a word, the first is lost *)
Example double_backslash_loses_a_character :
  let txt := [92; 92; 110]%N in                       (* the three characters \ \ n *)
  words_of txt = [[92; 110]%N] /\ despace 0 txt = txt /\ List.concat (words_of txt) <> despace 0 txt.
Proof. cbv zeta. split; [vm_compute; reflexivity|]. split; [reflexivity|]. vm_compute. discriminate. Qed.
Example double_backslash_loses_a_character_2 :
  words_of (t "a \\b") = [t "a"; t "\b"].
Proof. vm_compute. reflexivity. Qed.
Example words_example :
  words_of (t "  Hi {COLOR  RED}there\n\Nx{a b") = [t "Hi"; t "{COLOR  RED}there"; t "\n"; t "\N"; t "x{a b"] /\
  has_bsbs (t "  Hi {COLOR  RED}there\n\Nx{a b") = false.
Proof. vm_compute. split; reflexivity. Qed.

(* ------------------------------------------------------------------------------------------------------------- *)
(* (3a) the abstract line filler keeps the whole token sequence: words AND explicit breaks, in order, and resolves  *)
(*      \N by the text-box rule                                                                                   *)
(* ------------------------------------------------------------------------------------------------------------- *)
Section SRC.
Variable word : Type.
Variable width : word -> Z.
Variable space maxW cursor numLines : Z.
Local Open Scope Z_scope.

(* the code written for an explicit break e on a line with paragraph-relative index idx *)
Definition brk_ok (idx : Z) (e : ebrk) (b : obrk) : Prop :=
  match e with
  | En => b = Bn | El => b = Bl | Ep => b = Bp
  | EN => b = if numLines - 1 <=? idx then Bl else Bn
  end.

(* [lines_src i ls ts]: the lines ls, the first of which has index i in its paragraph, are a layout of exactly the
   token sequence ts: every line carries the next words of ts; a line ended by the compiler (lauto) carries the code
   of the discipline and consumes no token; a line ended by an explicit break consumes that break token, '\N' being
   written as \n or \l by the same rule; only the last line has no break *)
Inductive lines_src : Z -> list (line word) -> list (tok word) -> Prop :=
| ls_nil i : lines_src i [] []
| ls_last i l : lbrk word l = None -> lauto word l = false -> lines_src i [l] (map (WWord word) (lwords word l))
| ls_auto i l r ts :
    lauto word l = true -> lbrk word l = Some (if numLines - 1 <=? i then Bl else Bn) ->
    lines_src (next_index word i l) r ts -> lines_src i (l :: r) (map (WWord word) (lwords word l) ++ ts)
| ls_brk i l r ts e b :
    lauto word l = false -> lbrk word l = Some b -> brk_ok i e b ->
    lines_src (next_index word i l) r ts -> lines_src i (l :: r) (map (WWord word) (lwords word l) ++ WBreak word e :: ts).

Definition line_src (idx : Z) (l : line word) (lt : list (tok word)) : Prop :=
  (lauto word l = true /\ lbrk word l = Some (if numLines - 1 <=? idx then Bl else Bn) /\ lt = map (WWord word) (lwords word l)) \/
  (lauto word l = false /\ exists e b, lbrk word l = Some b /\ brk_ok idx e b /\ lt = map (WWord word) (lwords word l) ++ [WBreak word e]).

Inductive outs_src : list (line word) -> Z -> list (tok word) -> Prop :=
| os_nil : outs_src [] 0 []
| os_cons l r idx done lt : outs_src r idx done -> line_src idx l lt -> outs_src (l :: r) (next_index word idx l) (done ++ lt).

Definition SInv (s : st word) (done : list (tok word)) : Prop :=
  exists d0, outs_src (out word s) (ln word s) d0 /\ done = d0 ++ map (WWord word) (rev (cur word s)).

Lemma step_src s w nxt done : SInv s done -> SInv (step word width space maxW cursor numLines s w nxt) (done ++ [w]).
Proof.
  intros (d0 & HO & HD). subst done. unfold SInv. destruct w as [x|b]; cbn [step].
  - destruct ((maxW <? _) && negb _).
    + cbn [out cur cw ln]. eexists. split.
      * set (l' := {| lwords := rev (cur word s); lbrk := Some (if numLines - 1 <=? ln word s then Bl else Bn); lauto := true |}).
        replace (ln word s + 1) with (next_index word (ln word s) l').
        2:{ unfold next_index, l'. cbn. destruct (numLines - 1 <=? ln word s); reflexivity. }
        eapply os_cons; [exact HO|]. left. cbn. repeat split; reflexivity.
      * cbn. reflexivity.
    + cbn [out cur cw ln]. exists d0. split; [exact HO|]. cbn [rev]. rewrite map_app, <- app_assoc. reflexivity.
  - cbn [out cur cw ln]. eexists. split.
    + set (code := match b with EN => if ln word s <? numLines - 1 then Bn else Bl | En => Bn | El => Bl | Ep => Bp end).
      set (l' := {| lwords := rev (cur word s); lbrk := Some code; lauto := false |}).
      replace (match b with Ep => 0 | _ => ln word s + 1 end) with (next_index word (ln word s) l').
      2:{ unfold next_index, l', code. cbn. destruct b; try reflexivity. destruct (ln word s <? numLines - 1); reflexivity. }
      eapply os_cons; [exact HO|]. right. split; [reflexivity|]. exists b, code. split; [reflexivity|]. split; [|reflexivity].
      unfold brk_ok, code. destruct b; try reflexivity.
      destruct (Z.ltb_spec (ln word s) (numLines - 1)); destruct (Z.leb_spec (numLines - 1) (ln word s)); try reflexivity; lia.
    + cbn [rev map]. rewrite app_nil_r, <- app_assoc. reflexivity.
Qed.

Lemma run_src ts : forall s done, SInv s done -> SInv (run word width space maxW cursor numLines s ts) (done ++ ts).
Proof.
  induction ts as [|w r IH]; intros s done H; cbn [run]; [now rewrite app_nil_r|].
  replace (done ++ w :: r) with ((done ++ [w]) ++ r) by (rewrite <- app_assoc; reflexivity).
  apply IH. apply step_src. exact H.
Qed.

Lemma outs_src_lines r idx done : outs_src r idx done ->
  forall extra et, lines_src idx extra et -> lines_src 0 (rev r ++ extra) (done ++ et).
Proof.
  induction 1 as [|l r idx done lt HO IH HL]; intros extra et HE; [exact HE|].
  cbn [rev]. rewrite <- !app_assoc. apply IH. cbn [app].
  destruct HL as [(A & B & ->)|(A & e & b & B & K & ->)].
  - apply ls_auto; assumption.
  - rewrite <- app_assoc. cbn [app]. eapply ls_brk; eassumption.
Qed.

Theorem layout_keeps_tokens ts : lines_src 0 (layout word width space maxW cursor numLines ts) ts.
Proof.
  unfold layout, finish.
  destruct (run_src ts (init word) [] ltac:(exists []; split; [constructor|reflexivity])) as (d0 & HO & HD).
  cbn [app] in HD.
  destruct (cur word (run word width space maxW cursor numLines (init word) ts)) as [|y c] eqn:EC.
  - cbn in HD. rewrite app_nil_r in HD. subst d0.
    pose proof (outs_src_lines _ _ _ HO [] [] (ls_nil _)) as X. rewrite !app_nil_r in X. exact X.
  - set (lastl := {| lwords := rev (y :: c); lbrk := None; lauto := false |}).
    change (rev (lastl :: out word (run word width space maxW cursor numLines (init word) ts)))
      with (rev (out word (run word width space maxW cursor numLines (init word) ts)) ++ [lastl]).
    pose proof (outs_src_lines _ _ _ HO [lastl] _
                  (ls_last (ln word (run word width space maxW cursor numLines (init word) ts)) lastl eq_refl eq_refl)) as X.
    cbn [lastl lwords] in X. rewrite <- HD in X. exact X.
Qed.
End SRC.

(* ------------------------------------------------------------------------------------------------------------- *)
(* (1') the two theorems of FmtRefine.v without the fuel hypothesis                                               *)
(* ------------------------------------------------------------------------------------------------------------- *)
Local Open Scope Z_scope.

(* format_text fails exactly on an unknown, non-empty font id other than TEST *)
Lemma format_text_none_iff fc txt0 maxW cursor fontID numLines :
  format_text fc txt0 maxW cursor fontID numLines = None <->
  (font_valid fc fontID = false /\ fontID <> [] /\ text_eqb fontID testFontID = false).
Proof.
  unfold format_text.
  destruct (font_valid fc fontID); cbn [negb andb].
  - destruct (get_next_word _) as [p w]. split; [destruct w; discriminate|intros (X & _); discriminate].
  - destruct fontID as [|c f]; cbn [andb].
    + destruct (get_next_word _) as [p w]. split; [destruct w; discriminate|intros (_ & X & _); congruence].
    + destruct (text_eqb (c :: f) testFontID); cbn [negb].
      * destruct (get_next_word _) as [p w]. split; [destruct w; discriminate|intros (_ & _ & X); discriminate].
      * split; [intros _; repeat split; discriminate|reflexivity].
Qed.

Theorem format_text_refines_total fc txt0 maxW cursor fontID numLines :
  let txt := map (fun c => if (c =? 10)%N then 32%N else c) txt0 in
  let spaceW := rune_width fc 32%N fontID in
  format_text fc txt0 maxW cursor fontID numLines = None \/
  format_text fc txt0 maxW cursor fontID numLines =
    Some (print_lines (layout text (fun w => word_width fc w fontID) spaceW maxW cursor numLines (map classify (words_of txt)))).
Proof. intros txt spaceW. apply format_text_refines. apply words_from_total. Qed.

Theorem format_text_lines_fit_total fc txt0 maxW cursor fontID numLines out :
  let txt := map (fun c => if (c =? 10)%N then 32%N else c) txt0 in
  let spaceW := rune_width fc 32%N fontID in
  let width := fun w => word_width fc w fontID in
  format_text fc txt0 maxW cursor fontID numLines = Some out ->
  exists ls, out = print_lines ls /\
    Forall2 (fun i l => line_ok text width spaceW maxW cursor numLines i l /\ disc_ok text numLines i l) (indices text 0 ls) ls.
Proof. intros txt spaceW width. apply (format_text_lines_fit fc txt0 maxW cursor fontID numLines (words_of txt)). apply words_from_total. Qed.

(* ------------------------------------------------------------------------------------------------------------- *)
(* (3) from the source text to the output text                                                                    *)
(* ------------------------------------------------------------------------------------------------------------- *)

(* the characters of a printed line WITHOUT what format() added: no space between the words, no break code if the
   compiler ended the line (lauto), no newline character after the break code.
   Compare print_line l = join_words (lwords l) ++ (code b ++ [10] for every break). *)
Definition line_chars (l : line text) : text :=
  List.concat (lwords text l) ++
  (if lauto text l then [] else match lbrk text l with Some b => code b | None => [] end).

(* a word of the source and the same word in the output: identical, except that the word \N is written \n or \l *)
Definition resolved (w w' : text) : Prop := w' = w \/ (w = bs 78 /\ (w' = bs 110 \/ w' = bs 108)).

Lemma classify_word w x : classify w = WWord text x -> w = x /\ is_line_break w = false.
Proof. unfold classify. destruct (is_line_break w); [discriminate|]. intros H. inversion H. split; reflexivity. Qed.
Lemma classify_words ws : forall xs, map classify ws = map (WWord text) xs -> ws = xs.
Proof.
  induction ws as [|w ws IH]; intros [|x xs] H; try discriminate; [reflexivity|].
  cbn [map] in H. inversion H as [[H1 H2]]. apply classify_word in H1. destruct H1 as [-> _]. f_equal. apply IH, H2.
Qed.
Lemma classify_break numLines i w e b : classify w = WBreak text e -> brk_ok numLines i e b -> resolved w (code b).
Proof.
  unfold classify. destruct (is_line_break w) eqn:LB; [|discriminate].
  destruct (is_line_break_cases w LB) as [(A & E)|[(A & P & E)|[(A & P & L & E)|(A & P & L & E)]]]; rewrite A, ?P, ?L;
    intros H; inversion H; subst e; cbn [brk_ok]; intros ->; subst w; unfold resolved.
  - right. split; [reflexivity|]. destruct (numLines - 1 <=? i); cbn [code]; auto.
  - left; reflexivity.
  - left; reflexivity.
  - left; reflexivity.
Qed.

Lemma lines_src_chars numLines i ls ts : lines_src text numLines i ls ts ->
  forall ws, ts = map classify ws -> exists ws', Forall2 resolved ws ws' /\ flat_map line_chars ls = List.concat ws'.
Proof.
  assert (RR : forall l : list text, Forall2 resolved l l).
  { induction l; constructor; [left; reflexivity|assumption]. }
  induction 1 as [i|i l HB HA|i l r ts HA HB HS IH|i l r ts e b HA HB HK HS IH]; intros ws E.
  - destruct ws; [|discriminate]. exists []. split; [constructor|reflexivity].
  - symmetry in E. apply classify_words in E. subst ws. exists (lwords text l). split; [apply RR|].
    cbn [flat_map]. unfold line_chars. rewrite HA, HB. rewrite !app_nil_r. reflexivity.
  - symmetry in E. apply map_eq_app in E. destruct E as (w1 & w2 & -> & E1 & E2). apply classify_words in E1. subst w1.
    destruct (IH w2 (eq_sym E2)) as (ws' & F & C). exists (lwords text l ++ ws'). split; [apply Forall2_app; [apply RR|exact F]|].
    cbn [flat_map]. unfold line_chars at 1. rewrite HA, app_nil_r, concat_app, C. reflexivity.
  - symmetry in E. apply map_eq_app in E. destruct E as (w1 & w2 & -> & E1 & E2). apply classify_words in E1. subst w1.
    destruct w2 as [|wb w2]; [discriminate|]. cbn [map] in E2. inversion E2 as [[E3 E4]].
    destruct (IH w2 (eq_sym E4)) as (ws' & F & C). exists (lwords text l ++ code b :: ws').
    split; [apply Forall2_app; [apply RR|constructor; [eapply classify_break; eassumption|exact F]]|].
    cbn [flat_map]. unfold line_chars at 1. rewrite HA, HB, concat_app, C, <- app_assoc. reflexivity.
Qed.

(* THE THEOREM (3): what format() returns is print_lines ls for a list of lines ls such that
   - every line fits and the inserted breaks follow the discipline (as before),
   - the lines are a layout of exactly the words of the source text, in order, words and explicit breaks, '\N' resolved
     by the text-box rule (lines_src),
   - the characters of the output without the inserted breaks and spaces are the concatenation of the words of the source
     text with each word \N replaced by \n or \l,
   - and the words of the source text, concatenated, are the characters of the source text (line feeds count as spaces)
     without the spaces outside braces (and without the first of two adjacent backslashes, see dropbs). *)
Theorem format_text_from_source fc txt0 maxW cursor fontID numLines out :
  let txt := map (fun c => if (c =? 10)%N then 32%N else c) txt0 in
  let spaceW := rune_width fc 32%N fontID in
  let width := fun w => word_width fc w fontID in
  format_text fc txt0 maxW cursor fontID numLines = Some out ->
  exists ls, out = print_lines ls /\
    Forall2 (fun i l => line_ok text width spaceW maxW cursor numLines i l /\ disc_ok text numLines i l) (indices text 0 ls) ls /\
    lines_src text numLines 0 ls (map classify (words_of txt)) /\
    (exists ws', Forall2 resolved (words_of txt) ws' /\ flat_map line_chars ls = List.concat ws') /\
    (exists txt', dropbs txt txt' /\ List.concat (words_of txt) = despace 0 txt') /\
    (has_bsbs txt = false -> List.concat (words_of txt) = despace 0 txt).
Proof.
  intros txt spaceW width HF.
  destruct (format_text_refines_total fc txt0 maxW cursor fontID numLines) as [E|E]; [congruence|].
  fold txt spaceW in E. rewrite E in HF. inversion HF; subst out. clear HF E.
  eexists. split; [reflexivity|]. split; [apply layout_fits_and_discipline|].
  pose proof (layout_keeps_tokens text width spaceW maxW cursor numLines (map classify (words_of txt))) as LS.
  split; [exact LS|]. split; [eapply lines_src_chars; [exact LS|reflexivity]|].
  split; [apply words_keep_characters|apply words_are_the_nonspace_characters].
Qed.

(* the plain reading: a text without adjacent backslashes and without the word \N comes out with exactly its own
   characters, the spaces outside braces replaced by single spaces or by inserted breaks *)
Corollary format_text_same_characters fc txt0 maxW cursor fontID numLines out :
  let txt := map (fun c => if (c =? 10)%N then 32%N else c) txt0 in
  format_text fc txt0 maxW cursor fontID numLines = Some out ->
  has_bsbs txt = false -> Forall (fun w => w <> bs 78) (words_of txt) ->
  exists ls, out = print_lines ls /\ flat_map line_chars ls = despace 0 txt.
Proof.
  intros txt HF NB NN.
  destruct (format_text_from_source fc txt0 maxW cursor fontID numLines out HF) as (ls & EO & _ & _ & (ws' & F & C) & _ & EX).
  exists ls. split; [exact EO|]. fold txt in F, EX. rewrite C, <- (EX NB). f_equal.
  clear - F NN. induction F as [|w w' l l' R F IH]; [reflexivity|].
  inversion NN as [|? ? N1 N2]; subst. f_equal; [|apply IH, N2].
  destruct R as [R|(R & _)]; [exact R|congruence].
Qed.

(* the hypotheses are satisfiable on a non-trivial input (control code with a space, explicit \n and \p, a forced wrap) *)
Example format_text_same_characters_example :
  let fc := {| fcDefault := t "TEST"; fcFonts := [] |} in
  let txt0 := t "Hello  {COLOR  RED}there\nmy friend\pbye" in
  let txt := map (fun c => if (c =? 10)%N then 32%N else c) txt0 in
  format_text fc txt0 100 0 (t "TEST") 2 = Some (t "Hello" ++ bs 110 ++ [10%N] ++ t "{COLOR  RED}there\n" ++ [10%N] ++ t "my friend\p" ++ [10%N] ++ t "bye") /\
  has_bsbs txt = false /\ Forall (fun w => w <> bs 78) (words_of txt) /\
  despace 0 txt = t "Hello{COLOR  RED}there\nmyfriend\pbye".
Proof.
  cbv zeta. split; [vm_compute; reflexivity|]. split; [vm_compute; reflexivity|]. split; [|vm_compute; reflexivity].
  vm_compute. repeat constructor; discriminate.
Qed.
