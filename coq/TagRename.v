(* C12 / C13 / C17 - the emitter is invariant under injective renaming of loop / switch tags and never reads command ids;
   programs of the same shape compile to the same text; what a statement poryswitch contributes to the block around it.

   Loop / switch tags (SWhile tg, SDoWhile tg, SSwitch tg, and the SBreak tg / SContinue tg that refer to them) and command
   ids (Ast.cid) are `List.length` of the token stream still to read, so the AST of a program and the AST of its
   poryswitch-free twin differ in these numbers.  This file removes that obstacle.

   Definitions.  `mp_stmts g h` renames every tag by g and maps every command (in statements and in condition preambles)
   by h; `cmd_same h`: h keeps name, arguments and token (it may change the id only); `rn_stmts g` = tags only;
   `recid_stmts k` = ids only; `atags body` = all tags occurring in a body (loops, switches, break, continue);
   `inj_on g T`; `shape body` = the body with all tags and all command ids set to 0; `shape_program`.

   FINDING: the emitter reads tags only as keys of the break / continue maps (work: brk, org) and never reads a command id;
   the ids survive into the instruction list inside `ICmd c` but `print_instr` ignores them.  The *parser* reads the ids
   (Parser.apply_patches: inline texts / movements are patched into the command with that id).

   Main statements (each closed under the global context):
   1  emit_script_renamed       cmd_same h -> inj_on g (atags body) ->
                                emit_script .. (mp_stmts g h body) = map_res (map (mp_instr h)) (emit_script .. body)
                                (same instructions up to h on the commands; same error, same error token)
   2  emit_script_tag_renaming  inj_on g (atags body) -> emit_script .. (rn_stmts g body) = emit_script .. body
   3  script_text_renamed, emit_script_cids_ignored   the printed text is unchanged by a tag renaming together with ANY
                                change of command ids
      non_injective_renaming_changes_output (Example)  the hypothesis is needed: two loops in sequence, both tags sent to 0:
                                the `break` of the first loop then leaves the second loop - different text
   4  emit_program_sim          program_sim p1 p2 -> emit_program optimize mp p1 = emit_program optimize mp p2
                                (scripts, map scripts, table entries related body by body, each by its own renaming)
   5  same_shape_body_sim       same shape + well scoped + pairwise distinct tags (both: what the parser guarantees)
                                -> equal up to an injective renaming;  converse: body_sim_same_shape
   6  same_shape_same_output    shape_program p1 = shape_program p2 -> bodies well scoped with distinct tags ->
                                emit_program optimize mp p1 = emit_program optimize mp p2
   7  compile_same_shape        two sources whose parsed programs have the same shape have the same compile outcome
                                (premise-free apart from the two parses: ProgSrc.accepted_bodies_are_src_ok supplies the rest)
      poryswitch_twin_same_shape (Example)  a script with a 3-case poryswitch and its twin (selected case in place of the
                                poryswitch, same layout): different ASTs, same shape, same output, by theorem 7
   Second part (Module BlockStep):
   8  block_poryswitch_step, switch_block_poryswitch_step, pory_stmts_poryswitch_step
                                a poryswitch met in a block / switch-case body / poryswitch case: parsing goes on after its
                                closing brace with exactly the statements and inline texts of the selected case appended
   9  stmt_cases_table          the case table of a statement poryswitch = the written cases in source order, reversed
   10 block_poryswitch_contributes  the appended statements are those of one written case (last case with the -s value, else
                                last '_'), parsed in place with the break / continue scopes of the block; nothing else

   NOT proved: the program-level twin theorem itself (parse of tokens-with-poryswitch has the same shape as parse of the
   tokens with the poryswitch replaced by the selected case).  With 7 it reduces to: "the parsing functions, up to shape,
   depend only on the tokens they consume" (prefix locality of parse_stmt & co, ~15 mutual functions) and "patching by
   command id commutes with an injective renaming of ids" (Parser.pstmt / apply_patches).  NOTE: token positions (lines,
   columns) are part of the shape - they reach the output through line markers and error positions - so the twin must be
   taken on tokens (keeping their positions), not on re-laid-out source text. *)
From Coq Require Import List String Ascii ZArith NArith Lia Bool.
From Pory Require Import Lexer Ast Emitter.
From Pory Require LabelSim Worklist Tr ProgWf ProgSrc Compile Parser Format C13Proofs PorySwitchLists.
Import ListNotations.
Open Scope list_scope.

(* ---------- the renaming ---------- *)
(* h may change a command in any way that keeps its name, arguments and token (i.e. it may change the id only) *)
Definition cmd_same (h : cmd -> cmd) : Prop :=
  forall c, cname (h c) = cname c /\ cargs (h c) = cargs c /\ ctok (h c) = ctok c.

Definition mp_case_with (F : stmt -> stmt) (c : scase) : scase :=
  (fst (fst (fst c)), snd (fst (fst c)), snd (fst c), map F (snd c)).

Section MAP.
Variable g : nat -> nat.
Variable h : cmd -> cmd.

Definition mp_leaf (l : leaf) : leaf :=
  {| lk := lk l; loperand := loperand l; lline := lline l; lop := lop l; lvalue := lvalue l; lstrict := lstrict l;
     lpre := option_map h (lpre l) |}.
Fixpoint mp_bexp (e : bexp) : bexp :=
  match e with BLeaf l => BLeaf (mp_leaf l) | BBin o a b => BBin o (mp_bexp a) (mp_bexp b) end.

Fixpoint mp_stmt (s : stmt) : stmt :=
  match s with
  | SCmd c => SCmd (h c)
  | SLabel n gl tk => SLabel n gl tk
  | SIf conds els => SIf (map (fun cb : bexp * list stmt => (mp_bexp (fst cb), map mp_stmt (snd cb))) conds)
                         (option_map (map mp_stmt) els)
  | SWhile tg c b => SWhile (g tg) (option_map mp_bexp c) (map mp_stmt b)
  | SDoWhile tg b c => SDoWhile (g tg) (map mp_stmt b) (mp_bexp c)
  | SBreak tg => SBreak (g tg)
  | SContinue tg => SContinue (g tg)
  | SSwitch tg o ol cases => SSwitch (g tg) o ol (map (mp_case_with mp_stmt) cases)
  end.
Definition mp_stmts : list stmt -> list stmt := map mp_stmt.
Definition mp_cond (cb : bexp * list stmt) : bexp * list stmt := (mp_bexp (fst cb), mp_stmts (snd cb)).
Definition mp_case : scase -> scase := mp_case_with mp_stmt.

Definition mp_br (b : brancher) : brancher :=
  match b with BrLeaf l tr fa => BrLeaf (mp_leaf l) tr fa | other => other end.
Definition mp_chunk (c : chunk) : chunk :=
  {| cid := cid c; cret := cret c; cend := cend c; cstmts := mp_stmts (cstmts c); cbr := option_map mp_br (cbr c) |}.
Definition mp_tm (m : tagmap) : tagmap := map (fun kv : nat * Z => (g (fst kv), snd kv)) m.
Definition mp_wst (w : wst) : wst :=
  {| remaining := map mp_chunk (remaining w); finals := map mp_chunk (finals w); counter := counter w;
     brk := mp_tm (brk w); org := mp_tm (org w) |}.
Definition mp_instr (i : instr) : instr := match i with ICmd c => ICmd (h c) | other => other end.
Definition map_res {A B} (F : A -> B) (r : res A) : res B :=
  match r with Ok a => Ok (F a) | ErrBreak => ErrBreak | ErrContinue => ErrContinue | OutOfFuel => OutOfFuel
          | ErrLabel tk b => ErrLabel tk b end.

Lemma mp_mk i r ss b : mp_chunk (mk i r ss b) = mk i r (mp_stmts ss) (option_map mp_br b).
Proof. reflexivity. Qed.

Lemma sfb_mp cur i cn :
  split_for_branch (mp_chunk cur) i cn = let '(p, r, c) := split_for_branch cur i cn in (map mp_chunk p, r, c).
Proof.
  unfold split_for_branch. cbn [cstmts mp_chunk cret]. unfold mp_stmts. rewrite map_length.
  destruct (Nat.eqb i (List.length (cstmts cur) - 1)); [reflexivity|]. cbn [map]. rewrite mp_mk. unfold mp_stmts.
  rewrite skipn_map. reflexivity.
Qed.

Lemma split_bexp_mp e : forall cn s f fi,
  split_bexp (mp_bexp e) cn s f fi = let '(cs, a, b, c) := split_bexp e cn s f fi in (map mp_chunk cs, a, b, c).
Proof.
  induction e as [l|o a IHa b IHb]; intros cn s f fi.
  - reflexivity.
  - destruct o; cbn [mp_bexp split_bexp]; rewrite IHa;
      match goal with |- context[split_bexp a ?x ?y ?z ?u] => destruct (split_bexp a x y z u) as [[[ra la] f1] c1] end;
      rewrite IHb;
      match goal with |- context[split_bexp b ?x ?y ?z ?u] => destruct (split_bexp b x y z u) as [[[rb lb] f2] c2] end;
      rewrite !map_app; reflexivity.
Qed.

Lemma mk_body_chunks_mp bodies : forall cn ret,
  mk_body_chunks (map mp_stmts bodies) cn ret = let '(cs, c) := mk_body_chunks bodies cn ret in (map mp_chunk cs, c).
Proof.
  induction bodies as [|b r IH]; intros cn ret; [reflexivity|]. cbn [map mk_body_chunks]. rewrite IH.
  destruct (mk_body_chunks r (cn + 1) ret) as [cs c']. reflexivity.
Qed.

Definition mp_ez (p : bexp * Z) : bexp * Z := (mp_bexp (fst p), snd p).
Lemma stitch_elifs_mp l : forall cn fail,
  stitch_elifs (map mp_ez l) cn fail = let '(cs, e, c) := stitch_elifs l cn fail in (map mp_chunk cs, e, c).
Proof.
  induction l as [|[e z] r IH]; intros cn fail; [reflexivity|]. cbn [map stitch_elifs mp_ez fst snd].
  rewrite split_bexp_mp. destruct (split_bexp e cn z fail (-1)) as [[[cs x] first] c1]. rewrite IH.
  destruct (stitch_elifs r c1 first) as [[cs2 entry] c2]. rewrite map_app. reflexivity.
Qed.

Lemma combine_mp es ids : combine (map mp_bexp es) ids = map mp_ez (combine es ids).
Proof. revert ids. induction es as [|e r IH]; intros [|i ids]; try reflexivity. cbn. rewrite IH. reflexivity. Qed.

Lemma map_cid_mp cs : map cid (map mp_chunk cs) = map cid cs.
Proof. rewrite map_map. reflexivity. Qed.

Lemma create_if_mp conds els cur i cn :
  create_if (map mp_cond conds) (option_map mp_stmts els) (mp_chunk cur) i cn =
  let '(news, br, ret, c) := create_if conds els cur i cn in (map mp_chunk news, mp_br br, ret, c).
Proof.
  unfold create_if. rewrite sfb_mp. destruct (split_for_branch cur i cn) as [[post ret] c0].
  replace (map snd (map mp_cond conds)) with (map mp_stmts (map snd conds)) by (rewrite !map_map; reflexivity).
  rewrite mk_body_chunks_mp. destruct (mk_body_chunks (map snd conds) c0 ret) as [bodychunks c1].
  replace (map fst (map mp_cond conds)) with (map mp_bexp (map fst conds)) by (rewrite !map_map; reflexivity).
  rewrite map_cid_mp, combine_mp.
  destruct els as [eb|]; cbn [option_map]; cbv zeta;
    (destruct (combine (map fst conds) (map cid bodychunks)) as [|first elifs]; [reflexivity|]; cbn [map];
     rewrite <- map_rev, stitch_elifs_mp;
     match goal with |- context[stitch_elifs (rev elifs) ?a ?b] => destruct (stitch_elifs (rev elifs) a b) as [[cs entryfail] c3] end;
     cbn [mp_ez fst snd]; rewrite split_bexp_mp;
     destruct (split_bexp (fst first) c3 (snd first) entryfail (-1)) as [[[cs1 x] entry] c4];
     rewrite !map_app; reflexivity).
Qed.

Lemma create_while_mp c body cur i cn :
  create_while (option_map mp_bexp c) (mp_stmts body) (mp_chunk cur) i cn =
  let '(news, br, ret, c') := create_while c body cur i cn in (map mp_chunk news, mp_br br, ret, c').
Proof.
  unfold create_while. rewrite sfb_mp. destruct (split_for_branch cur i cn) as [[post ret] c0].
  destruct c as [e|]; cbn [option_map].
  - rewrite split_bexp_mp. destruct (split_bexp e (c0 + 2) (c0 + 2) ret (-1)) as [[[cs x] entry] c1].
    rewrite !map_app. reflexivity.
  - rewrite !map_app. reflexivity.
Qed.

Lemma create_dowhile_mp body e cur i cn :
  create_dowhile (mp_stmts body) (mp_bexp e) (mp_chunk cur) i cn =
  let '(news, br, ret, c') := create_dowhile body e cur i cn in (map mp_chunk news, mp_br br, ret, c').
Proof.
  unfold create_dowhile. rewrite sfb_mp. destruct (split_for_branch cur i cn) as [[post ret] c0].
  rewrite split_bexp_mp. destruct (split_bexp e (c0 + 2) (c0 + 2) ret (-1)) as [[[cs x] entry] c1].
  rewrite !map_app. reflexivity.
Qed.

(* switch *)
Lemma sc_body_mp c : sc_body (mp_case c) = mp_stmts (sc_body c). Proof. reflexivity. Qed.
Lemma sc_def_mp c : sc_def (mp_case c) = sc_def c. Proof. reflexivity. Qed.
Lemma sc_val_mp c : sc_val (mp_case c) = sc_val c. Proof. reflexivity. Qed.
Lemma sc_line_mp c : sc_line (mp_case c) = sc_line c. Proof. reflexivity. Qed.

Lemma find_bodied_mp cs : forall j,
  find_bodied (map mp_case cs) j = option_map (fun p : nat * scase => (fst p, mp_case (snd p))) (find_bodied cs j).
Proof.
  induction cs as [|c r IH]; intros j; [reflexivity|]. cbn [map find_bodied]. rewrite sc_body_mp.
  destruct (sc_body c) as [|s b]; [apply IH|reflexivity].
Qed.

Definition mp_swst (st : swst) : swst :=
  {| sw_new := map mp_chunk (sw_new st); sw_cases := sw_cases st; sw_def := sw_def st; sw_counter := sw_counter st |}.

Lemma flat_case_mp id l :
  flat_map (fun c' : scase => if sc_def c' then [] else [(sc_val c', sc_line c', id)]) (map mp_case l) =
  flat_map (fun c' : scase => if sc_def c' then [] else [(sc_val c', sc_line c', id : Z)]) l.
Proof. induction l as [|c r IH]; [reflexivity|]. cbn [map flat_map]. rewrite IH. reflexivity. Qed.
Lemma existsb_def_mp l : existsb sc_def (map mp_case l) = existsb sc_def l.
Proof. induction l as [|c r IH]; [reflexivity|]. cbn [map existsb]. rewrite IH. reflexivity. Qed.

Lemma sw_loop_mp f : forall all i ret st,
  sw_loop f (map mp_case all) i ret (mp_swst st) = let '(st', el) := sw_loop f all i ret st in (mp_swst st', el).
Proof.
  induction f as [|f IH]; intros all i ret st; [reflexivity|]. cbn [sw_loop].
  rewrite nth_error_map. destruct (nth_error all i) as [c|]; [|reflexivity]. cbn [option_map]. rewrite sc_body_mp.
  destruct (sc_body c) as [|s0 b0] eqn:Bc.
  - cbn [mp_stmts map]. rewrite skipn_map, find_bodied_mp.
    destruct (find_bodied (skipn (S i) all) (S i)) as [[j cj]|]; cbn [option_map fst snd].
    + rewrite sc_body_mp, sc_def_mp, sc_val_mp, sc_line_mp. rewrite skipn_map, firstn_map, flat_case_mp, existsb_def_mp.
      match goal with |- sw_loop f _ _ _ ?S1 = let '(_, _) := sw_loop f _ _ _ ?S2 in _ =>
        replace S1 with (mp_swst S2) by (unfold mp_swst; cbn; rewrite map_app; reflexivity) end.
      apply IH.
    + cbn [mp_swst sw_cases sw_def]. destruct (sw_cases st) as [|x xs]; destruct (sw_def st) as [dd|]; try reflexivity;
        cbn [sw_new sw_counter]; rewrite skipn_map, flat_case_mp; unfold mp_swst; cbn; rewrite map_app; reflexivity.
  - cbn [mp_stmts map]. rewrite sc_def_mp, sc_val_mp, sc_line_mp.
    match goal with |- sw_loop f _ _ _ ?S1 = let '(_, _) := sw_loop f _ _ _ ?S2 in _ =>
      replace S1 with (mp_swst S2) by (unfold mp_swst; cbn; rewrite map_app; reflexivity) end.
    apply IH.
Qed.

Lemma create_switch_mp op ol cases cur i cn :
  create_switch op ol (map mp_case cases) (mp_chunk cur) i cn =
  let '(news, br, ret, c') := create_switch op ol cases cur i cn in (map mp_chunk news, mp_br br, ret, c').
Proof.
  unfold create_switch. rewrite sfb_mp. destruct (split_for_branch cur i cn) as [[post ret] c0]. rewrite map_length.
  change {| sw_new := []; sw_cases := []; sw_def := None; sw_counter := (c0 + 1)%Z |}
    with (mp_swst {| sw_new := []; sw_cases := []; sw_def := None; sw_counter := (c0 + 1)%Z |}) at 1.
  rewrite sw_loop_mp.
  destruct (sw_loop (S (List.length cases)) cases 0 ret {| sw_new := []; sw_cases := []; sw_def := None; sw_counter := (c0 + 1)%Z |}) as [st el].
  cbn [mp_swst sw_new sw_cases sw_def sw_counter]. rewrite !map_app. cbn [map]. rewrite mp_mk.
  destruct el; reflexivity.
Qed.

Lemma jump_of_mp br : match mp_br br with BrJump d => d | _ => 0%Z end = match br with BrJump d => d | _ => 0%Z end.
Proof. destruct br; reflexivity. Qed.

Lemma set_final_mp fs c : set_final (map mp_chunk fs) (mp_chunk c) = map mp_chunk (set_final fs c).
Proof.
  unfold set_final. cbn [map]. f_equal. change (cid (mp_chunk c)) with (cid c). induction fs as [|x r IH]; [reflexivity|]. cbn [map filter mp_chunk cid].
  destruct (negb (Z.eqb (cid x) (cid c))); cbn [map]; rewrite IH; reflexivity.
Qed.

(* ---------- the worklist commutes with the renaming ---------- *)
Hypothesis Hh : cmd_same h.
Hypothesis Hg : forall a b, g a = g b -> a = b.

Lemma is_endret_mp s : is_endret (mp_stmt s) = is_endret s.
Proof. destruct s; try reflexivity. cbn. destruct (Hh c) as (-> & -> & _). reflexivity. Qed.

Lemma scan_mp ss : forall i n, scan (mp_stmts ss) i n = scan ss i n.
Proof.
  induction ss as [|s r IH]; intros i n; [reflexivity|].
  destruct s; cbn [mp_stmts map mp_stmt scan]; try reflexivity; try apply IH.
  change (is_endret (SCmd (h c))) with (is_endret (mp_stmt (SCmd c))). rewrite is_endret_mp.
  fold (mp_stmts r). rewrite !IH. reflexivity.
Qed.

Lemma tm_get_mp m k : tm_get (mp_tm m) (g k) = tm_get m k.
Proof.
  induction m as [|[k' v] r IH]; [reflexivity|]. cbn [mp_tm map tm_get fst snd]. fold (mp_tm r). rewrite IH.
  destruct (Nat.eqb_spec k k') as [->|N]; [rewrite Nat.eqb_refl; reflexivity|].
  destruct (Nat.eqb_spec (g k) (g k')) as [E|_]; [exfalso; apply N, Hg, E|reflexivity].
Qed.

Ltac st_eq :=
  unfold mp_wst; cbn [remaining finals counter brk org mp_tm map fst snd];
  rewrite <- ?set_final_mp, ?map_app; unfold mp_chunk at 1; cbn [cid cret cend cstmts cbr option_map]; unfold mp_stmts;
  rewrite ?firstn_map; reflexivity.

Lemma work_mp f : forall w, work f (mp_wst w) = map_res mp_wst (work f w).
Proof.
  induction f as [|f IH]; intros w; [reflexivity|]. cbn [work]. cbn [mp_wst remaining].
  destruct (remaining w) as [|cur rest]; [reflexivity|]. cbn [map]. cbn [mp_chunk cstmts].
  rewrite scan_mp. unfold mp_stmts at 1. rewrite map_length. fold (mp_chunk cur).
  destruct (scan (cstmts cur) 0 (List.length (cstmts cur))) as [i er]. destruct er as [e|].
  { rewrite <- IH. f_equal. st_eq. }
  unfold mp_stmts at 1. rewrite map_length.
  destruct (Nat.eqb i (List.length (cstmts cur))).
  { rewrite <- IH. f_equal. st_eq. }
  unfold mp_stmts at 1. rewrite nth_error_map.
  destruct (nth_error (cstmts cur) i) as [s|]; cbn [option_map]; [|rewrite <- IH; f_equal; st_eq].
  destruct s as [c|n gl tk|conds els|tg c body|tg body c|tg|tg|tg op ol cases]; cbn [mp_stmt].
  - rewrite <- IH; f_equal; st_eq.
  - rewrite <- IH; f_equal; st_eq.
  - change (map (fun cb : bexp * list stmt => (mp_bexp (fst cb), map mp_stmt (snd cb))) conds) with (map mp_cond conds).
    change (option_map (map mp_stmt) els) with (option_map mp_stmts els).
    cbn [finals counter brk org mp_wst]. rewrite create_if_mp.
    destruct (create_if conds els cur i (counter w)) as [[[news br] ret] c']. rewrite <- IH. f_equal. st_eq.
  - fold (mp_stmts body). cbn [finals counter brk org mp_wst]. rewrite create_while_mp.
    destruct (create_while c body cur i (counter w)) as [[[news br] ret] c']. rewrite <- IH, jump_of_mp. f_equal. st_eq.
  - fold (mp_stmts body). cbn [finals counter brk org mp_wst]. rewrite create_dowhile_mp.
    destruct (create_dowhile body c cur i (counter w)) as [[[news br] ret] c']. rewrite <- IH, jump_of_mp. f_equal. st_eq.
  - cbn [brk mp_wst]. rewrite tm_get_mp. destruct (tm_get (brk w) tg) as [d|]; [|reflexivity].
    cbn [counter mp_wst]. rewrite sfb_mp. destruct (split_for_branch cur i (counter w)) as [[post ret] c']. rewrite <- IH. f_equal. st_eq.
  - cbn [org mp_wst]. rewrite tm_get_mp. destruct (tm_get (org w) tg) as [d|]; [|reflexivity].
    cbn [counter mp_wst]. rewrite sfb_mp. destruct (split_for_branch cur i (counter w)) as [[post ret] c']. rewrite <- IH. f_equal. st_eq.
  - fold mp_case. cbn [finals counter brk org mp_wst]. rewrite create_switch_mp.
    destruct (create_switch op ol cases cur i (counter w)) as [[[news br] ret] c']. rewrite <- IH, jump_of_mp. f_equal. st_eq.
Qed.

(* ---------- rendering commutes with the renaming ---------- *)
Lemma marker_mp mp line : map mp_instr (marker mp line) = marker mp line.
Proof. unfold marker. destruct mp; reflexivity. Qed.

Lemma render_stmt_mp mp s : render_stmt mp (mp_stmt s) = map mp_instr (render_stmt mp s).
Proof.
  destruct s; try reflexivity; cbn [mp_stmt render_stmt]; rewrite map_app, marker_mp; [|reflexivity].
  destruct (Hh c) as (_ & _ & ->). reflexivity.
Qed.
Lemma render_stmts_mp mp ss : flat_map (render_stmt mp) (mp_stmts ss) = map mp_instr (flat_map (render_stmt mp) ss).
Proof.
  induction ss as [|s r IH]; [reflexivity|]. cbn [mp_stmts map flat_map]. fold (mp_stmts r).
  rewrite map_app, render_stmt_mp, IH. reflexivity.
Qed.
Lemma clash_mp tl labels ss : clash tl labels (mp_stmts ss) = clash tl labels ss.
Proof.
  induction ss as [|s r IH]; [reflexivity|]. destruct s; cbn [mp_stmts map mp_stmt clash]; fold (mp_stmts r); rewrite ?IH; reflexivity.
Qed.

Lemma leaf_cmp_mp name l d : render_leaf_cmp name (mp_leaf l) d = render_leaf_cmp name l d.
Proof. reflexivity. Qed.
Lemma leaf_cmp_fix name l d : map mp_instr (render_leaf_cmp name l d) = render_leaf_cmp name l d.
Proof. unfold render_leaf_cmp. destruct (lk l); try reflexivity. cbn [map]. destruct (flag_truthy l); reflexivity. Qed.
Lemma gof_fix name d next b : map mp_instr (fst (fst (goto_or_fall name d next b))) = fst (fst (goto_or_fall name d next b)).
Proof. unfold goto_or_fall. destruct (b && (d =? -1)%Z); [reflexivity|]. destruct (d =? next)%Z; reflexivity. Qed.
Lemma cases_fix mp name (cases : list (text * Z * Z)) :
  map mp_instr (flat_map (fun '(v, vl, d) => marker mp vl ++ [ICase v (lbl name d)]) cases) =
  flat_map (fun '(v, vl, d) => marker mp vl ++ [ICase v (lbl name d)]) cases.
Proof.
  induction cases as [|[[v vl] d] r IH]; [reflexivity|]. cbn [flat_map]. rewrite !map_app, marker_mp, IH. reflexivity.
Qed.

Lemma render_branch_mp mp name c next :
  render_branch mp name (mp_chunk c) next =
  let '(is, regs, fall) := render_branch mp name c next in (map mp_instr is, regs, fall).
Proof.
  unfold render_branch. cbn [mp_chunk cbr cret cend].
  destruct (cbr c) as [[d|d|l tr fa|op ol cases def dest]|]; cbn [option_map mp_br].
  - pose proof (gof_fix name d next false) as E. destruct (goto_or_fall name d next false) as [[x regs] fall]. cbn in E. rewrite E. reflexivity.
  - pose proof (gof_fix name d next true) as E. destruct (goto_or_fall name d next true) as [[x regs] fall]. cbn in E. rewrite E. reflexivity.
  - pose proof (gof_fix name fa next true) as E. destruct (goto_or_fall name fa next true) as [[x regs] fall]. cbn [fst] in E.
    rewrite leaf_cmp_mp. rewrite !map_app, marker_mp, leaf_cmp_fix, E. cbn [mp_leaf lpre lline].
    destruct (lpre l) as [p|]; reflexivity.
  - pose proof (cases_fix mp name cases) as E.
    destruct def as [dd|]; [destruct (dd =? next)%Z|destruct (dest =? next)%Z; [|destruct (dest =? -1)%Z]];
      rewrite ?map_app, E, marker_mp; reflexivity.
  - destruct (cret c =? -1)%Z; [destruct (cend c); reflexivity|]. destruct (cret c =? next)%Z; reflexivity.
Qed.

Lemma get_chunk_mp fs i : get_chunk (map mp_chunk fs) i = option_map mp_chunk (get_chunk fs i).
Proof. induction fs as [|c r IH]; [reflexivity|]. cbn [map get_chunk mp_chunk cid]. destruct (cid c =? i)%Z; [reflexivity|apply IH]. Qed.

Definition mp_bodies (p : list (Z * list instr) * list Z) : list (Z * list instr) * list Z :=
  (map (fun ib : Z * list instr => (fst ib, map mp_instr (snd ib))) (fst p), snd p).

Lemma render_bodies_mp mp tl name fs labels order :
  render_bodies mp tl name (map mp_chunk fs) labels order = map_res mp_bodies (render_bodies mp tl name fs labels order).
Proof.
  induction order as [|i r IH]; [reflexivity|]. cbn [render_bodies]. rewrite get_chunk_mp.
  destruct (get_chunk fs i) as [c|]; cbn [option_map]; [|exact IH].
  change (cstmts (mp_chunk c)) with (mp_stmts (cstmts c)). rewrite clash_mp.
  destruct (clash tl labels (cstmts c)) as [[tk b]|]; [reflexivity|].
  rewrite render_branch_mp. destruct (render_branch mp name c _) as [[b regs] fall]. rewrite IH.
  destruct (render_bodies mp tl name fs labels r) as [[rest regs']| | | |tk b']; try reflexivity.
  cbn [map_res]. unfold mp_bodies. cbn [fst snd map]. rewrite render_stmts_mp, !map_app. destruct fall; reflexivity.
Qed.

Lemma labels_mp name fs : map (chunk_label name) (map mp_chunk fs) = map (chunk_label name) fs.
Proof. rewrite map_map. reflexivity. Qed.

Lemma render_chunks_mp mp tl name glob fs order :
  render_chunks mp tl name glob (map mp_chunk fs) order = map_res (map mp_instr) (render_chunks mp tl name glob fs order).
Proof.
  unfold render_chunks. rewrite labels_mp, render_bodies_mp.
  destruct (render_bodies mp tl name fs (map (chunk_label name) fs) order) as [[bodies regs]| | | |tk b]; try reflexivity.
  cbn [map_res mp_bodies fst snd]. f_equal. induction bodies as [|[i b] r IH]; [reflexivity|].
  cbn [map flat_map fst snd]. rewrite !map_app, IH. f_equal. f_equal.
  destruct (i =? 0)%Z; [reflexivity|]. destruct (zmem i regs); reflexivity.
Qed.

Lemma tail_of_mp c : tail_of (mp_chunk c) = tail_of c.
Proof. unfold tail_of. cbn [mp_chunk cbr cret]. destruct (cbr c) as [[d|d|l tr fa|op ol cases def dest]|]; reflexivity. Qed.

Lemma opt_order_mp f : forall fs n acc, opt_order f (map mp_chunk fs) n acc = opt_order f fs n acc.
Proof.
  induction f as [|f IH]; intros fs n acc; [reflexivity|]. cbn [opt_order].
  destruct (Nat.leb n (List.length acc)); [reflexivity|]. destruct acc as [|last acc']; [apply IH|].
  rewrite get_chunk_mp. 
  assert (E : match option_map mp_chunk (get_chunk fs last) with Some c => tail_of c | None => (-1)%Z end =
              match get_chunk fs last with Some c => tail_of c | None => (-1)%Z end).
  { destruct (get_chunk fs last) as [c|]; [apply tail_of_mp|reflexivity]. }
  rewrite E. set (nxt := match get_chunk fs last with Some c => tail_of c | None => (-1)%Z end). rewrite get_chunk_mp.
  assert (E2 : match option_map mp_chunk (get_chunk fs nxt) with Some _ => true | None => false end =
               match get_chunk fs nxt with Some _ => true | None => false end) by (destruct (get_chunk fs nxt); reflexivity).
  rewrite E2, IH. destruct (first_unvisited (S n) 1 (Z.of_nat n) (last :: acc')) as [i|]; [rewrite IH|]; reflexivity.
Qed.

Lemma order_of_mp opt G : order_of opt (map mp_chunk G) = order_of opt G.
Proof. unfold order_of. rewrite map_length. destruct opt; [apply opt_order_mp|reflexivity]. Qed.

Lemma emit_graph_mp body : emit_graph (mp_stmts body) = map_res mp_wst (emit_graph body).
Proof. unfold emit_graph. rewrite <- work_mp. reflexivity. Qed.

Lemma emit_script_mp mp tl name glob opt body :
  emit_script mp tl name glob opt (mp_stmts body) = map_res (map mp_instr) (emit_script mp tl name glob opt body).
Proof.
  unfold emit_script. rewrite emit_graph_mp. destruct (emit_graph body) as [w| | | |tk b]; try reflexivity.
  cbn [map_res mp_wst finals]. rewrite order_of_mp. apply render_chunks_mp.
Qed.

Lemma print_instr_mp path i : print_instr path (mp_instr i) = print_instr path i.
Proof.
  destruct i; try reflexivity. cbn [mp_instr print_instr]. unfold render_cmd. destruct (Hh c) as (-> & -> & _). reflexivity.
Qed.
Lemma print_instrs_mp mp is : print_instrs mp (map mp_instr is) = print_instrs mp is.
Proof.
  unfold print_instrs. induction is as [|i r IH]; [reflexivity|]. cbn [map flat_map]. rewrite print_instr_mp, IH. reflexivity.
Qed.

End MAP.

(* ---------- the tags that occur in a body (loops, switches, break and continue statements) ---------- *)
Fixpoint atags1 (s : stmt) : list nat :=
  match s with
  | SIf conds els => flat_map (fun cb : bexp * list stmt => flat_map atags1 (snd cb)) conds ++
                     match els with Some b => flat_map atags1 b | None => [] end
  | SWhile tg _ b => tg :: flat_map atags1 b
  | SDoWhile tg b _ => tg :: flat_map atags1 b
  | SBreak tg => [tg]
  | SContinue tg => [tg]
  | SSwitch tg _ _ cases => tg :: flat_map (fun c : scase => flat_map atags1 (snd c)) cases
  | _ => []
  end.
Definition atags (ss : list stmt) : list nat := flat_map atags1 ss.

Definition inj_on (g : nat -> nat) (T : list nat) : Prop := forall a b, In a T -> In b T -> g a = g b -> a = b.

(* the renaming only looks at the tags that occur *)
Lemma mp_stmts_ext g g' h : forall ss, (forall x, In x (atags ss) -> g x = g' x) -> mp_stmts g h ss = mp_stmts g' h ss.
Proof.
  apply (LabelSim.stmts_ind2
           (fun s => (forall x, In x (atags1 s) -> g x = g' x) -> mp_stmt g h s = mp_stmt g' h s)
           (fun ss => (forall x, In x (atags ss) -> g x = g' x) -> mp_stmts g h ss = mp_stmts g' h ss)).
  - reflexivity.
  - intros s r IHs IHr H. cbn [mp_stmts map]. f_equal.
    + apply IHs. intros x Hx. apply H. unfold atags. cbn [flat_map]. apply in_or_app. left. exact Hx.
    + apply IHr. intros x Hx. apply H. unfold atags. cbn [flat_map]. apply in_or_app. right. exact Hx.
  - reflexivity.
  - reflexivity.
  - intros conds els Hc He H. cbn [mp_stmt]. f_equal.
    + apply map_ext_in. intros cb Hcb. f_equal. rewrite Forall_forall in Hc. apply (Hc cb Hcb).
      intros x Hx. apply H. cbn [atags1]. apply in_or_app. left. apply in_flat_map. exists cb. split; assumption.
    + destruct els as [b|]; [|reflexivity]. cbn [option_map]. f_equal. apply He.
      intros x Hx. apply H. cbn [atags1]. apply in_or_app. right. exact Hx.
  - intros tg c b Hb H. cbn [mp_stmt]. rewrite (H tg) by (left; reflexivity). f_equal. apply Hb.
    intros x Hx. apply H. right. exact Hx.
  - intros tg b c Hb H. cbn [mp_stmt]. rewrite (H tg) by (left; reflexivity). f_equal. apply Hb.
    intros x Hx. apply H. right. exact Hx.
  - intros tg H. cbn [mp_stmt]. rewrite (H tg) by (left; reflexivity). reflexivity.
  - intros tg H. cbn [mp_stmt]. rewrite (H tg) by (left; reflexivity). reflexivity.
  - intros tg o ol cases Hc H. cbn [mp_stmt]. rewrite (H tg) by (left; reflexivity). f_equal.
    apply map_ext_in. intros c Hin. unfold mp_case_with. f_equal. rewrite Forall_forall in Hc. apply (Hc c Hin).
    intros x Hx. apply H. right. apply in_flat_map. exists c. split; assumption.
Qed.

(* a renaming that is injective on a finite set agrees there with a renaming that is injective everywhere *)
Definition extend (g : nat -> nat) (T : list nat) (n : nat) : nat :=
  if existsb (Nat.eqb n) T then g n else S (list_max (map g T)) + n.
Lemma mem_spec n T : existsb (Nat.eqb n) T = true <-> In n T.
Proof.
  rewrite existsb_exists. split.
  - intros (x & Hx & E). apply Nat.eqb_eq in E. subst. exact Hx.
  - intros H. exists n. split; [exact H|apply Nat.eqb_refl].
Qed.
Lemma extend_agree g T n : In n T -> extend g T n = g n.
Proof. intros H. unfold extend. apply mem_spec in H. rewrite H. reflexivity. Qed.
Lemma le_list_max (g : nat -> nat) T a : In a T -> g a <= list_max (map g T).
Proof.
  intros H. assert (F : Forall (fun k => k <= list_max (map g T)) (map g T)) by (apply list_max_le; lia).
  rewrite Forall_forall in F. apply F. apply in_map. exact H.
Qed.
Lemma extend_inj g T : inj_on g T -> forall a b, extend g T a = extend g T b -> a = b.
Proof.
  intros Hg a b. unfold extend.
  destruct (existsb (Nat.eqb a) T) eqn:Ea; destruct (existsb (Nat.eqb b) T) eqn:Eb; intros E.
  - apply mem_spec in Ea, Eb. apply Hg; assumption.
  - apply mem_spec in Ea. pose proof (le_list_max g T a Ea). lia.
  - apply mem_spec in Eb. pose proof (le_list_max g T b Eb). lia.
  - lia.
Qed.

(* ---------- MAIN 1: a script body, renamed ---------- *)
Theorem emit_script_renamed : forall (g : nat -> nat) (h : cmd -> cmd) mp tl name glob optimize body,
  cmd_same h -> inj_on g (atags body) ->
  emit_script mp tl name glob optimize (mp_stmts g h body) =
  map_res (map (mp_instr h)) (emit_script mp tl name glob optimize body).
Proof.
  intros g h mp tl name glob optimize body Hh Hg.
  rewrite (mp_stmts_ext g (extend g (atags body)) h body) by (intros x Hx; symmetry; apply extend_agree; exact Hx).
  apply emit_script_mp; [exact Hh|apply extend_inj; exact Hg].
Qed.

(* renaming the tags only / changing the commands' ids only *)
Definition rn_stmts (g : nat -> nat) : list stmt -> list stmt := mp_stmts g (fun c => c).
Definition set_cid (k : cmd -> nat) (c : cmd) : cmd := {| cname := cname c; cargs := cargs c; ctok := ctok c; Ast.cid := k c |}.
Definition recid_stmts (k : cmd -> nat) : list stmt -> list stmt := mp_stmts (fun n => n) (set_cid k).

Lemma cmd_same_id : cmd_same (fun c => c).
Proof. intros c. repeat split. Qed.
Lemma cmd_same_set_cid k : cmd_same (set_cid k).
Proof. intros c. repeat split. Qed.
Lemma mp_instr_id i : mp_instr (fun c => c) i = i.
Proof. destruct i; reflexivity. Qed.
Lemma map_res_id (r : res (list instr)) : map_res (map (mp_instr (fun c => c))) r = r.
Proof.
  destruct r as [x| | | |tk b]; try reflexivity. cbn. f_equal. induction x as [|i r IH]; [reflexivity|]. cbn. now rewrite mp_instr_id, IH.
Qed.

(* MAIN 2: the emitter is invariant under a renaming of the loop / switch tags that is injective on the tags of the body *)
Theorem emit_script_tag_renaming : forall (g : nat -> nat) mp tl name glob optimize body,
  inj_on g (atags body) ->
  emit_script mp tl name glob optimize (rn_stmts g body) = emit_script mp tl name glob optimize body.
Proof.
  intros g mp tl name glob optimize body Hg. unfold rn_stmts.
  rewrite (emit_script_renamed g (fun c => c) mp tl name glob optimize body cmd_same_id Hg). apply map_res_id.
Qed.

(* the text printed for a script *)
Definition script_text mp tl name glob optimize body : res text :=
  map_res (print_instrs mp) (emit_script mp tl name glob optimize body).

Lemma map_res_map_res {A B C} (F : A -> B) (G : B -> C) (r : res A) : map_res G (map_res F r) = map_res (fun x => G (F x)) r.
Proof. destruct r; reflexivity. Qed.
Lemma map_res_ext {A B} (F G : A -> B) (r : res A) : (forall x, F x = G x) -> map_res F r = map_res G r.
Proof. intros H. destruct r; cbn; try reflexivity. now rewrite H. Qed.

(* MAIN 3: command ids are never read by the emitter: whatever ids the commands carry (in statements and in the
   preambles of conditions), the instruction list is the same up to those ids and the printed text is the same; together
   with a tag renaming *)
Theorem script_text_renamed : forall (g : nat -> nat) (h : cmd -> cmd) mp tl name glob optimize body,
  cmd_same h -> inj_on g (atags body) ->
  script_text mp tl name glob optimize (mp_stmts g h body) = script_text mp tl name glob optimize body.
Proof.
  intros g h mp tl name glob optimize body Hh Hg. unfold script_text.
  rewrite (emit_script_renamed g h mp tl name glob optimize body Hh Hg), map_res_map_res.
  apply map_res_ext. intros x. apply print_instrs_mp. exact Hh.
Qed.

Theorem emit_script_cids_ignored : forall (k : cmd -> nat) mp tl name glob optimize body,
  emit_script mp tl name glob optimize (recid_stmts k body) =
    map_res (map (mp_instr (set_cid k))) (emit_script mp tl name glob optimize body) /\
  script_text mp tl name glob optimize (recid_stmts k body) = script_text mp tl name glob optimize body.
Proof.
  intros k mp tl name glob optimize body.
  assert (I : inj_on (fun n : nat => n) (atags body)) by (intros a b _ _ E; exact E).
  split.
  - apply emit_script_renamed; [apply cmd_same_set_cid|exact I].
  - apply script_text_renamed; [apply cmd_same_set_cid|exact I].
Qed.

(* ---------- the hypothesis is needed: a renaming that identifies the tags of two loops changes the output ---------- *)
Definition tk0 (s : string) : token := {| ttype := IDENT; tlit := t s; tline := 1; tsb := 0; tsu := 0; teline := 1; teb := 0; teu := 0 |}.
Definition cmd0 (s : string) (i : nat) : cmd := {| cname := t s; cargs := []; ctok := tk0 s; Ast.cid := i |}.
(* script s { while { a  break } while { b  break } c } *)
Definition two_loops : list stmt :=
  [SWhile 9 None [SCmd (cmd0 "a" 8); SBreak 9]; SWhile 5 None [SCmd (cmd0 "b" 4); SBreak 5]; SCmd (cmd0 "c" 1)].
Example non_injective_renaming_changes_output :
  ~ inj_on (fun _ => 0) (atags two_loops) /\
  script_text None [] (t "s") true false (rn_stmts (fun _ => 0) two_loops) <> script_text None [] (t "s") true false two_loops /\
  (exists x, script_text None [] (t "s") true false (rn_stmts (fun _ => 0) two_loops) = Ok x) /\
  (exists x, script_text None [] (t "s") true false two_loops = Ok x).
Proof.
  split; [|split; [|split]].
  - intros H. specialize (H 9 5). cbn in H. assert (9 = 5) by (apply H; auto). discriminate.
  - intros H. vm_compute in H. discriminate H.
  - eexists. vm_compute. reflexivity.
  - eexists. vm_compute. reflexivity.
Qed.
(* an injective one does not *)
Example injective_renaming_same_output :
  inj_on (fun n => n + 100) (atags two_loops) /\
  rn_stmts (fun n => n + 100) two_loops <> two_loops /\
  script_text None [] (t "s") true false (rn_stmts (fun n => n + 100) two_loops) = script_text None [] (t "s") true false two_loops.
Proof.
  split; [|split].
  - intros a b _ _ E. lia.
  - intros H. vm_compute in H. discriminate H.
  - vm_compute. reflexivity.
Qed.

(* ---------- programs equal up to tags and command ids ---------- *)
Definition erase_cmd : cmd -> cmd := set_cid (fun _ => 0).
Definition erase_cids : list stmt -> list stmt := mp_stmts (fun n => n) erase_cmd.
Definition ei : instr -> instr := mp_instr erase_cmd.

(* b2 is b1 with its tags renamed injectively and the ids of its commands changed arbitrarily *)
Definition body_sim (b1 b2 : list stmt) : Prop :=
  exists g, inj_on g (atags b1) /\ mp_stmts g erase_cmd b1 = erase_cids b2.
Definition obody_sim (o1 o2 : option (list stmt)) : Prop :=
  match o1, o2 with Some a, Some b => body_sim a b | None, None => True | _, _ => False end.
Definition ms_sim (m1 m2 : mapscript) : Prop :=
  msType m1 = msType m2 /\ msName m1 = msName m2 /\ obody_sim (msScript m1) (msScript m2).
Definition te_sim (e1 e2 : tableentry) : Prop :=
  teCond e1 = teCond e2 /\ teCondLit e1 = teCondLit e2 /\ teCmp e1 = teCmp e2 /\ teName e1 = teName e2 /\
  obody_sim (teScript e1) (teScript e2).
Definition tm_sim (t1 t2 : tablems) : Prop :=
  tmType t1 = tmType t2 /\ tmName t1 = tmName t2 /\ Forall2 te_sim (tmEntries t1) (tmEntries t2).
Definition top_sim (t1 t2 : top) : Prop :=
  match t1, t2 with
  | TScript n1 g1 b1, TScript n2 g2 b2 => n1 = n2 /\ g1 = g2 /\ body_sim b1 b2
  | TMapScripts n1 g1 p1 tb1, TMapScripts n2 g2 p2 tb2 => n1 = n2 /\ g1 = g2 /\ Forall2 ms_sim p1 p2 /\ Forall2 tm_sim tb1 tb2
  | _, _ => t1 = t2
  end.
Definition program_sim (p1 p2 : program) : Prop := Forall2 top_sim (tops p1) (tops p2) /\ texts p1 = texts p2.

Lemma cmd_same_erase : cmd_same erase_cmd. Proof. apply cmd_same_set_cid. Qed.

(* two results equal up to command ids *)
Definition RS (r1 r2 : res (list instr)) : Prop := map_res (map ei) r1 = map_res (map ei) r2.

Lemma body_sim_emit mp tl name glob optimize b1 b2 :
  body_sim b1 b2 -> RS (emit_script mp tl name glob optimize b1) (emit_script mp tl name glob optimize b2).
Proof.
  intros (g & Hg & E). unfold RS, ei.
  assert (I : forall b, inj_on (fun n : nat => n) (atags b)) by (intros b x y _ _ Q; exact Q).
  rewrite <- (emit_script_renamed (fun n => n) erase_cmd mp tl name glob optimize b2 cmd_same_erase (I b2)).
  fold (erase_cids b2). rewrite <- E.
  rewrite (emit_script_renamed g erase_cmd mp tl name glob optimize b1 cmd_same_erase Hg). reflexivity.
Qed.

Lemma RS_refl r : RS r r. Proof. reflexivity. Qed.
Lemma RS_bind a1 a2 f1 f2 :
  RS a1 a2 -> (forall x1 x2, map ei x1 = map ei x2 -> RS (f1 x1) (f2 x2)) -> RS (bind_i a1 f1) (bind_i a2 f2).
Proof.
  unfold RS. intros H K. destruct a1 as [x1| | | |tk1 b1]; destruct a2 as [x2| | | |tk2 b2]; cbn in H; try discriminate H; try exact H.
  cbn [bind_i]. apply K. inversion H. reflexivity.
Qed.
Lemma RS_ok x1 x2 : map ei x1 = map ei x2 -> RS (Ok x1) (Ok x2).
Proof. intros H. unfold RS. cbn. now rewrite H. Qed.

Lemma emit_scripts_sim mp tl optimize : forall l1 l2,
  Forall2 (fun a b : text * option (list stmt) => fst a = fst b /\ obody_sim (snd a) (snd b)) l1 l2 ->
  RS (emit_scripts mp tl optimize l1) (emit_scripts mp tl optimize l2).
Proof.
  induction 1 as [|[n1 o1] [n2 o2] r1 r2 (En & Ho) _ IH]; [apply RS_refl|]. cbn [fst snd] in En, Ho. subst n2.
  destruct o1 as [b1|]; destruct o2 as [b2|]; cbn in Ho; try contradiction; cbn [emit_scripts]; [|exact IH].
  apply RS_bind; [apply body_sim_emit; exact Ho|]. intros x1 x2 Hx. apply RS_bind; [exact IH|].
  intros y1 y2 Hy. apply RS_ok. rewrite !map_app, Hx, Hy. reflexivity.
Qed.

Lemma Forall2_map {A B C D} (R : C -> D -> Prop) (S : A -> B -> Prop) (F : A -> C) (G : B -> D) l1 l2 :
  (forall a b, S a b -> R (F a) (G b)) -> Forall2 S l1 l2 -> Forall2 R (map F l1) (map G l2).
Proof. intros H. induction 1; cbn; constructor; auto. Qed.

Lemma ei_marker mp line : map ei (marker mp line) = marker mp line.
Proof. apply marker_mp. Qed.

Lemma table_head_sim mp (es1 es2 : list tableentry) : Forall2 te_sim es1 es2 ->
  flat_map (fun e => marker mp (tline (teCond e)) ++ [ILine (tab ++ t "map_script_2 " ++ teCondLit e ++ t ", " ++ teCmp e ++ t ", " ++ teName e)]) es1 =
  flat_map (fun e => marker mp (tline (teCond e)) ++ [ILine (tab ++ t "map_script_2 " ++ teCondLit e ++ t ", " ++ teCmp e ++ t ", " ++ teName e)]) es2.
Proof.
  induction 1 as [|e1 e2 r1 r2 (A & B & C & D & _) _ IH]; [reflexivity|]. cbn [flat_map]. rewrite A, B, C, D, IH. reflexivity.
Qed.

Definition no_cmd (l : list instr) : Prop := map ei l = l.
Lemma no_cmd_app a b : no_cmd a -> no_cmd b -> no_cmd (a ++ b).
Proof. unfold no_cmd. intros A B. now rewrite map_app, A, B. Qed.
Lemma no_cmd_flat {A} (F : A -> list instr) l : (forall x, no_cmd (F x)) -> no_cmd (flat_map F l).
Proof. intros H. induction l as [|x r IH]; [reflexivity|]. cbn. apply no_cmd_app; auto. Qed.
Lemma no_cmd_marker mp line : no_cmd (marker mp line). Proof. apply ei_marker. Qed.

Lemma emit_tables_sim mp tl optimize : forall l1 l2, Forall2 tm_sim l1 l2 ->
  RS (emit_tables mp tl optimize l1) (emit_tables mp tl optimize l2).
Proof.
  induction 1 as [|t1 t2 r1 r2 (A & B & C) _ IH]; [apply RS_refl|]. cbn [emit_tables].
  apply RS_bind.
  - apply emit_scripts_sim. eapply Forall2_map; [|exact C]. intros a b (_ & _ & _ & D & E). cbn. split; assumption.
  - intros x1 x2 Hx. apply RS_bind; [exact IH|]. intros y1 y2 Hy. apply RS_ok.
    rewrite B, (table_head_sim mp _ _ C). rewrite !map_app, Hx, Hy. reflexivity.
Qed.

Lemma plain_head_sim mp (p1 p2 : list mapscript) : Forall2 ms_sim p1 p2 ->
  flat_map (fun m => marker mp (tline (msType m)) ++ [ILine (tab ++ t "map_script " ++ tlit (msType m) ++ t ", " ++ msName m)]) p1 =
  flat_map (fun m => marker mp (tline (msType m)) ++ [ILine (tab ++ t "map_script " ++ tlit (msType m) ++ t ", " ++ msName m)]) p2.
Proof. induction 1 as [|m1 m2 r1 r2 (A & B & _) _ IH]; [reflexivity|]. cbn [flat_map]. rewrite A, B, IH. reflexivity. Qed.
Lemma tables_head_sim mp (p1 p2 : list tablems) : Forall2 tm_sim p1 p2 ->
  flat_map (fun tb => marker mp (tline (tmType tb)) ++ [ILine (tab ++ t "map_script " ++ tlit (tmType tb) ++ t ", " ++ tmName tb)]) p1 =
  flat_map (fun tb => marker mp (tline (tmType tb)) ++ [ILine (tab ++ t "map_script " ++ tlit (tmType tb) ++ t ", " ++ tmName tb)]) p2.
Proof. induction 1 as [|m1 m2 r1 r2 (A & B & _) _ IH]; [reflexivity|]. cbn [flat_map]. rewrite A, B, IH. reflexivity. Qed.

Lemma emit_mapscripts_sim mp tl optimize name glob p1 p2 tb1 tb2 :
  Forall2 ms_sim p1 p2 -> Forall2 tm_sim tb1 tb2 ->
  RS (emit_mapscripts mp tl optimize name glob p1 tb1) (emit_mapscripts mp tl optimize name glob p2 tb2).
Proof.
  intros HP HT. unfold emit_mapscripts. apply RS_bind.
  - apply emit_scripts_sim. eapply Forall2_map; [|exact HP]. intros a b (_ & D & E). cbn. split; assumption.
  - intros x1 x2 Hx. apply RS_bind; [apply emit_tables_sim; exact HT|]. intros y1 y2 Hy. apply RS_ok.
    rewrite (plain_head_sim mp _ _ HP), (tables_head_sim mp _ _ HT). rewrite !map_app, Hx, Hy. reflexivity.
Qed.

Lemma emit_top_sim mp tl optimize t1 t2 : top_sim t1 t2 ->
  match emit_top mp tl optimize t1, emit_top mp tl optimize t2 with
  | Some r1, Some r2 => RS r1 r2
  | None, None => True
  | _, _ => False
  end.
Proof.
  intros H.
  destruct t1 as [n1 g1 b1|v1 ln1| |n1 g1 tk1 st1|n1 g1 tk1 it1 itk1|n1 g1 p1 tb1];
    destruct t2 as [n2 g2 b2|v2 ln2| |n2 g2 tk2 st2|n2 g2 tk2 it2 itk2|n2 g2 p2 tb2]; cbn [top_sim] in H; try discriminate H;
    try (inversion H; subst; cbn [emit_top]; exact (RS_refl _)); cbn [emit_top].
  - destruct H as (-> & -> & H). apply body_sim_emit. exact H.
  - exact I.
  - destruct H as (-> & -> & HP & HT). apply emit_mapscripts_sim; assumption.
Qed.

Definition RS2 (r1 r2 : res (list instr * nat)) : Prop :=
  map_res (fun p => (map ei (fst p), snd p)) r1 = map_res (fun p => (map ei (fst p), snd p)) r2.

Lemma emit_tops_sim mp tl optimize : forall l1 l2, Forall2 top_sim l1 l2 ->
  forall i, RS2 (emit_tops mp tl optimize l1 i) (emit_tops mp tl optimize l2 i).
Proof.
  induction 1 as [|t1 t2 r1 r2 Ht _ IH]; intros i; [reflexivity|]. cbn [emit_tops].
  pose proof (emit_top_sim mp tl optimize t1 t2 Ht) as E.
  destruct (emit_top mp tl optimize t1) as [a1|]; destruct (emit_top mp tl optimize t2) as [a2|]; try contradiction; [|apply IH].
  unfold RS in E. unfold RS2.
  destruct a1 as [x1| | | |tk1 b1]; destruct a2 as [x2| | | |tk2 b2]; cbn in E; try discriminate E; try reflexivity;
    try (inversion E; subst; reflexivity).
  cbn [bind_i]. specialize (IH (S i)). unfold RS2 in IH.
  destruct (emit_tops mp tl optimize r1 (S i)) as [[y1 m1]| | | |tk1 b1];
    destruct (emit_tops mp tl optimize r2 (S i)) as [[y2 m2]| | | |tk2 b2]; cbn in IH; try discriminate IH; try reflexivity;
    try (inversion IH; subst; reflexivity).
  cbn [bind_i map_res fst snd]. inversion E as [Ex]. inversion IH as [[Ey Em]]. rewrite !map_app, Ex, Ey. destruct i; reflexivity.
Qed.

Lemma no_cmd_texts mp l : forall k, no_cmd (emit_texts mp l k).
Proof.
  induction l as [|x r IH]; intros k; [reflexivity|]. cbn [emit_texts]. apply no_cmd_app; [destruct k; reflexivity|].
  apply no_cmd_app; [|apply IH]. unfold emit_text. apply no_cmd_app; [reflexivity|]. apply no_cmd_app; [apply no_cmd_marker|].
  unfold no_cmd. rewrite map_map. reflexivity.
Qed.

(* MAIN 4: two programs whose scripts (top-level scripts, map scripts, table entries) are equal up to an injective renaming
   of tags per script body and arbitrary command ids, and which are otherwise equal, compile to the same text - equal
   output text, equal errors *)
Theorem emit_program_sim : forall optimize mp p1 p2,
  program_sim p1 p2 -> emit_program optimize mp p1 = emit_program optimize mp p2.
Proof.
  intros optimize mp p1 p2 (HT & HX). unfold emit_program, emit_program_instrs. rewrite <- HX.
  pose proof (emit_tops_sim mp (map xname (texts p1)) optimize _ _ HT 0) as E. unfold RS2 in E.
  destruct (emit_tops mp (map xname (texts p1)) optimize (tops p1) 0) as [[y1 m1]| | | |tk1 b1];
    destruct (emit_tops mp (map xname (texts p1)) optimize (tops p2) 0) as [[y2 m2]| | | |tk2 b2]; cbn in E; try discriminate E;
    try reflexivity; try (inversion E; subst; reflexivity).
  inversion E as [[Ey Em]]. f_equal.
  rewrite <- (print_instrs_mp erase_cmd cmd_same_erase mp (y1 ++ _)), <- (print_instrs_mp erase_cmd cmd_same_erase mp (y2 ++ _)).
  fold ei. rewrite !map_app, Ey. reflexivity.
Qed.

(* ---------- same shape ---------- *)
Definition z0 : nat -> nat := fun _ => 0.
Definition idn : nat -> nat := fun n => n.
(* the body with every tag and every command id set to 0 *)
Definition shape (ss : list stmt) : list stmt := mp_stmts z0 erase_cmd ss.

Definition orel (g : nat -> nat) (o1 o2 : option nat) : Prop :=
  match o1, o2 with Some a, Some b => g a = b | _, _ => True end.
Definition pairs_ok (g : nat -> nat) (T1 T2 : list nat) : Prop := forall a b, In (a, b) (combine T1 T2) -> g a = b.

Lemma combine_app_eq {A B} (a1 b1 : list A) (a2 b2 : list B) :
  List.length a1 = List.length a2 -> combine (a1 ++ b1) (a2 ++ b2) = combine a1 a2 ++ combine b1 b2.
Proof.
  revert a2. induction a1 as [|x r IH]; intros [|y a2] H; cbn in H; try discriminate H; [reflexivity|].
  cbn. rewrite IH by lia. reflexivity.
Qed.
Lemma pairs_ok_app g a1 b1 a2 b2 : List.length a1 = List.length a2 ->
  pairs_ok g (a1 ++ b1) (a2 ++ b2) -> pairs_ok g a1 a2 /\ pairs_ok g b1 b2.
Proof.
  intros L H. unfold pairs_ok in *. rewrite combine_app_eq in H by exact L.
  split; intros a b Hab; apply H; apply in_or_app; [left|right]; exact Hab.
Qed.

Definition Claim (T1 T2 : list nat) (bt1 lt1 bt2 lt2 : option nat) (X : (nat -> nat) -> Prop) : Prop :=
  List.length T1 = List.length T2 /\
  forall g, pairs_ok g T1 T2 -> orel g bt1 bt2 -> orel g lt1 lt2 -> X g.

Definition PP (s1 : stmt) : Prop := forall s2 bt1 lt1 bt2 lt2,
  mp_stmt z0 erase_cmd s1 = mp_stmt z0 erase_cmd s2 -> Tr.scoped1 bt1 lt1 s1 -> Tr.scoped1 bt2 lt2 s2 ->
  Claim (Worklist.tags1 s1) (Worklist.tags1 s2) bt1 lt1 bt2 lt2 (fun g => mp_stmt g erase_cmd s1 = mp_stmt idn erase_cmd s2).
Definition QQ (b1 : list stmt) : Prop := forall b2 bt1 lt1 bt2 lt2,
  shape b1 = shape b2 -> Tr.scoped bt1 lt1 b1 -> Tr.scoped bt2 lt2 b2 ->
  Claim (Worklist.tags b1) (Worklist.tags b2) bt1 lt1 bt2 lt2 (fun g => mp_stmts g erase_cmd b1 = mp_stmts idn erase_cmd b2).

Lemma QQ_nil : QQ [].
Proof.
  intros b2 bt1 lt1 bt2 lt2 H _ _. destruct b2; [|discriminate H]. split; [reflexivity|]. intros; reflexivity.
Qed.

Lemma QQ_cons s r : PP s -> QQ r -> QQ (s :: r).
Proof.
  intros Hs Hr b2 bt1 lt1 bt2 lt2 H S1 S2. destruct b2 as [|s2 r2]; [discriminate H|].
  unfold shape in H. cbn [mp_stmts map] in H. injection H as Es Er.
  inversion S1 as [|? ? ? ? S1a S1b]; subst. inversion S2 as [|? ? ? ? S2a S2b]; subst.
  destruct (Hs s2 _ _ _ _ Es S1a S2a) as [L1 K1]. destruct (Hr r2 _ _ _ _ Er S1b S2b) as [L2 K2].
  split.
  - cbn [Worklist.tags]. rewrite !app_length. lia.
  - intros g Hp Hb Hl. cbn [Worklist.tags] in Hp. apply pairs_ok_app in Hp; [|exact L1]. destruct Hp as [Hp1 Hp2].
    cbn [mp_stmts map]. f_equal; [apply K1|apply K2]; assumption.
Qed.

Lemma conds_claim conds1 : Forall (fun cb : bexp * list stmt => QQ (snd cb)) conds1 ->
  forall conds2 bt1 lt1 bt2 lt2,
  map (mp_cond z0 erase_cmd) conds1 = map (mp_cond z0 erase_cmd) conds2 ->
  Tr.scoped_conds bt1 lt1 conds1 -> Tr.scoped_conds bt2 lt2 conds2 ->
  Claim (Worklist.tags_conds conds1) (Worklist.tags_conds conds2) bt1 lt1 bt2 lt2
        (fun g => map (mp_cond g erase_cmd) conds1 = map (mp_cond idn erase_cmd) conds2).
Proof.
  induction 1 as [|[e1 b1] r1 Hb _ IH]; intros conds2 bt1 lt1 bt2 lt2 H S1 S2.
  - destruct conds2; [|discriminate H]. split; [reflexivity|]. intros; reflexivity.
  - destruct conds2 as [|[e2 b2] r2]; [discriminate H|]. cbn [map] in H. injection H as Ee Eb Er.
    inversion S1 as [|? ? ? ? ? S1a S1b]; subst. inversion S2 as [|? ? ? ? ? S2a S2b]; subst.
    cbn [snd] in Hb. destruct (Hb b2 _ _ _ _ Eb S1a S2a) as [L1 K1]. destruct (IH r2 _ _ _ _ Er S1b S2b) as [L2 K2].
    unfold Worklist.tags_conds in *. cbn [map List.concat snd]. split.
    + rewrite !app_length. lia.
    + intros g Hp Hbk Hl. apply pairs_ok_app in Hp; [|exact L1]. destruct Hp as [Hp1 Hp2].
      cbn [map]. f_equal; [|apply K2; assumption]. unfold mp_cond. cbn [fst snd]. f_equal; [exact Ee|apply K1; assumption].
Qed.

Lemma cases_claim cases1 : Forall (fun c : scase => QQ (sc_body c)) cases1 ->
  forall cases2 bt1 lt1 bt2 lt2,
  map (mp_case z0 erase_cmd) cases1 = map (mp_case z0 erase_cmd) cases2 ->
  Tr.scoped_cases bt1 lt1 cases1 -> Tr.scoped_cases bt2 lt2 cases2 ->
  Claim (Worklist.tags_cases cases1) (Worklist.tags_cases cases2) bt1 lt1 bt2 lt2
        (fun g => map (mp_case g erase_cmd) cases1 = map (mp_case idn erase_cmd) cases2).
Proof.
  induction 1 as [|c1 r1 Hb _ IH]; intros cases2 bt1 lt1 bt2 lt2 H S1 S2.
  - destruct cases2; [|discriminate H]. split; [reflexivity|]. intros; reflexivity.
  - destruct cases2 as [|c2 r2]; [discriminate H|].
    inversion S1 as [|? ? ? ? S1a S1b]; subst. inversion S2 as [|? ? ? ? S2a S2b]; subst.
    destruct c1 as [[[d1 v1] l1] b1]. destruct c2 as [[[d2 v2] l2] b2]. unfold sc_body in *. cbn [snd] in *.
    cbn [map] in H. unfold mp_case at 1 3 in H. unfold mp_case_with in H. cbn [fst snd] in H. injection H as Ed Ev El Eb Er.
    destruct (Hb b2 _ _ _ _ Eb S1a S2a) as [L1 K1]. destruct (IH r2 _ _ _ _ Er S1b S2b) as [L2 K2].
    unfold Worklist.tags_cases in *. cbn [map List.concat sc_body snd]. split.
    + rewrite !app_length. lia.
    + intros g Hp Hbk Hl. apply pairs_ok_app in Hp; [|exact L1]. destruct Hp as [Hp1 Hp2].
      cbn [map]. f_equal; [|apply K2; assumption]. unfold mp_case, mp_case_with. cbn [fst snd]. subst.
      f_equal. apply K1; assumption.
Qed.

Ltac pp_start := intros s2 bt1 lt1 bt2 lt2 H S1 S2; destruct s2; cbn [mp_stmt] in H; try discriminate H.

Lemma pairs_ok_cons g a b T1 T2 : pairs_ok g (a :: T1) (b :: T2) -> g a = b /\ pairs_ok g T1 T2.
Proof. intros H. split; [apply H; left; reflexivity|]. intros x y Hxy. apply H. right. exact Hxy. Qed.

Lemma PP_cmd c : PP (SCmd c).
Proof. pp_start. split; [reflexivity|]. intros g _ _ _. exact H. Qed.
Lemma PP_label n gl tk : PP (SLabel n gl tk).
Proof. pp_start. split; [reflexivity|]. intros g _ _ _. exact H. Qed.
Lemma PP_break tg : PP (SBreak tg).
Proof.
  pp_start. inversion S1; subst. inversion S2; subst. split; [reflexivity|]. intros g _ Hb _. cbn in Hb. cbn [mp_stmt]. now rewrite Hb.
Qed.
Lemma PP_continue tg : PP (SContinue tg).
Proof.
  pp_start. inversion S1; subst. inversion S2; subst. split; [reflexivity|]. intros g _ _ Hl. cbn in Hl. cbn [mp_stmt]. now rewrite Hl.
Qed.
Lemma PP_while tg c b : QQ b -> PP (SWhile tg c b).
Proof.
  intros Hb. pp_start. injection H as Ec Eb. inversion S1; subst. inversion S2; subst.
  match goal with A : Tr.scoped _ _ b, B : Tr.scoped _ _ ?b2 |- _ => destruct (Hb b2 _ _ _ _ Eb A B) as [L K] end.
  rewrite !Worklist.tags1_while. split; [cbn; lia|]. intros g Hp _ _. apply pairs_ok_cons in Hp. destruct Hp as [E Hp].
  cbn [mp_stmt]. rewrite E, Ec. unfold idn at 1. f_equal. apply K; [exact Hp|exact E|exact E].
Qed.
Lemma PP_dowhile tg b c : QQ b -> PP (SDoWhile tg b c).
Proof.
  intros Hb. pp_start. injection H as Eb Ec. inversion S1; subst. inversion S2; subst.
  match goal with A : Tr.scoped _ _ b, B : Tr.scoped _ _ ?b2 |- _ => destruct (Hb b2 _ _ _ _ Eb A B) as [L K] end.
  rewrite !Worklist.tags1_dowhile. split; [cbn; lia|]. intros g Hp _ _. apply pairs_ok_cons in Hp. destruct Hp as [E Hp].
  cbn [mp_stmt]. rewrite E, Ec. unfold idn at 1. f_equal. apply K; [exact Hp|exact E|exact E].
Qed.
Lemma PP_switch tg o ol cases : Forall (fun c : scase => QQ (sc_body c)) cases -> PP (SSwitch tg o ol cases).
Proof.
  intros Hc. pp_start. injection H as Eo Eol Ecs. inversion S1; subst. inversion S2; subst.
  match goal with A : Tr.scoped_cases _ _ cases, B : Tr.scoped_cases _ _ ?c2 |- _ =>
    destruct (cases_claim cases Hc c2 _ _ _ _ Ecs A B) as [L K] end.
  rewrite !Worklist.tags1_switch. split; [cbn; lia|]. intros g Hp _ Hl. apply pairs_ok_cons in Hp. destruct Hp as [E Hp].
  cbn [mp_stmt]. rewrite E. unfold idn at 1. f_equal. apply K; [exact Hp|exact E|exact Hl].
Qed.
Lemma PP_if conds els : Forall (fun cb : bexp * list stmt => QQ (snd cb)) conds ->
  match els with Some b => QQ b | None => True end -> PP (SIf conds els).
Proof.
  intros Hc He. pp_start. injection H as Ec Ee. inversion S1; subst. inversion S2; subst.
  match goal with A : Tr.scoped_conds _ _ conds, B : Tr.scoped_conds _ _ ?c2 |- _ =>
    destruct (conds_claim conds Hc c2 _ _ _ _ Ec A B) as [L K] end.
  rewrite !Worklist.tags1_if.
  match goal with A : Tr.scoped_opt _ _ els, B : Tr.scoped_opt _ _ ?e2 |- _ => rename A into O1; rename B into O2; rename e2 into els2 end.
  destruct els as [b|]; destruct els2 as [b2|]; cbn [option_map] in Ee; try discriminate Ee.
  - injection Ee as Ee. inversion O1; subst. inversion O2; subst.
    match goal with A : Tr.scoped _ _ b, B : Tr.scoped _ _ b2 |- _ => destruct (He b2 _ _ _ _ Ee A B) as [L2 K2] end.
    cbn [Worklist.tags_opt]. split; [rewrite !app_length; lia|]. intros g Hp Hb Hl. apply pairs_ok_app in Hp; [|exact L].
    destruct Hp as [Hp1 Hp2]. cbn [mp_stmt option_map]. f_equal; [apply K; assumption|]. f_equal. apply K2; assumption.
  - cbn [Worklist.tags_opt]. rewrite !app_nil_r. split; [exact L|]. intros g Hp Hb Hl. cbn [mp_stmt option_map]. f_equal. apply K; assumption.
Qed.

Lemma QQ_all : forall b, QQ b.
Proof.
  apply (LabelSim.stmts_ind2 PP QQ).
  - exact QQ_nil.
  - exact QQ_cons.
  - exact PP_cmd.
  - exact PP_label.
  - exact PP_if.
  - exact PP_while.
  - exact PP_dowhile.
  - exact PP_break.
  - exact PP_continue.
  - exact PP_switch.
Qed.

(* in a well scoped body the tags of break / continue statements are tags of enclosing loops / switches *)
Definition SubP (s : stmt) : Prop := forall bt lt, Tr.scoped1 bt lt s ->
  forall x, In x (atags1 s) -> In x (Worklist.tags1 s) \/ bt = Some x \/ lt = Some x.
Definition SubQ (b : list stmt) : Prop := forall bt lt, Tr.scoped bt lt b ->
  forall x, In x (atags b) -> In x (Worklist.tags b) \/ bt = Some x \/ lt = Some x.

Lemma sub_all : forall b, SubQ b.
Proof.
  apply (LabelSim.stmts_ind2 SubP SubQ).
  - intros bt lt _ x [].
  - intros s r Hs Hr bt lt S x Hx. inversion S as [|? ? ? ? Sa Sb]; subst. unfold atags in Hx. cbn [flat_map] in Hx.
    cbn [Worklist.tags]. apply in_app_or in Hx. destruct Hx as [Hx|Hx].
    + destruct (Hs _ _ Sa x Hx) as [A|A]; [left; apply in_or_app; left; exact A|right; exact A].
    + destruct (Hr _ _ Sb x Hx) as [A|A]; [left; apply in_or_app; right; exact A|right; exact A].
  - intros c bt lt _ x [].
  - intros n gl tk bt lt _ x [].
  - intros conds els Hc He bt lt S x Hx. inversion S as [| | | |? ? ? ? SC SO| | |]; subst. rewrite Worklist.tags1_if.
    cbn [atags1] in Hx. apply in_app_or in Hx. destruct Hx as [Hx|Hx].
    + assert (A : In x (Worklist.tags_conds conds) \/ bt = Some x \/ lt = Some x).
      { clear SO He S. induction Hc as [|[e b] r Hb _ IH]; [destruct Hx|]. inversion SC; subst. cbn [flat_map snd] in Hx.
        unfold Worklist.tags_conds. cbn [map List.concat snd]. apply in_app_or in Hx. destruct Hx as [Hx|Hx].
        - match goal with A : Tr.scoped _ _ b |- _ => destruct (Hb _ _ A x Hx) as [B|B] end;
            [left; apply in_or_app; left; exact B|right; exact B].
        - match goal with A : Tr.scoped_conds _ _ r |- _ => destruct (IH Hx A) as [B|B] end;
            [left; apply in_or_app; right; exact B|right; exact B]. }
      destruct A as [A|A]; [left; apply in_or_app; left; exact A|right; exact A].
    + destruct els as [b|]; [|destruct Hx]. inversion SO; subst.
      match goal with A : Tr.scoped _ _ b |- _ => destruct (He _ _ A x Hx) as [B|B] end;
        [left; apply in_or_app; right; exact B|right; exact B].
  - intros tg c b Hb bt lt S x Hx. inversion S; subst. rewrite Worklist.tags1_while. cbn [atags1] in Hx.
    destruct Hx as [<-|Hx]; [left; left; reflexivity|].
    match goal with A : Tr.scoped _ _ b |- _ => destruct (Hb _ _ A x Hx) as [B|[B|B]] end;
      [left; right; exact B|inversion B; left; left; reflexivity|inversion B; left; left; reflexivity].
  - intros tg b c Hb bt lt S x Hx. inversion S; subst. rewrite Worklist.tags1_dowhile. cbn [atags1] in Hx.
    destruct Hx as [<-|Hx]; [left; left; reflexivity|].
    match goal with A : Tr.scoped _ _ b |- _ => destruct (Hb _ _ A x Hx) as [B|[B|B]] end;
      [left; right; exact B|inversion B; left; left; reflexivity|inversion B; left; left; reflexivity].
  - intros tg bt lt S x Hx. inversion S; subst. destruct Hx as [<-|[]]. right; left; reflexivity.
  - intros tg bt lt S x Hx. inversion S; subst. destruct Hx as [<-|[]]. right; right; reflexivity.
  - intros tg o ol cases Hc bt lt S x Hx. inversion S as [| | | | | | |? ? ? ? ? ? SC]; subst. rewrite Worklist.tags1_switch.
    cbn [atags1] in Hx. destruct Hx as [<-|Hx]; [left; left; reflexivity|].
    assert (A : In x (Worklist.tags_cases cases) \/ Some tg = Some x \/ lt = Some x).
    { clear S. induction Hc as [|c r Hb _ IH]; [destruct Hx|]. inversion SC; subst. cbn [flat_map] in Hx.
      unfold Worklist.tags_cases. cbn [map List.concat]. apply in_app_or in Hx. destruct Hx as [Hx|Hx].
      - match goal with A : Tr.scoped _ _ (sc_body c) |- _ => destruct (Hb _ _ A x Hx) as [B|B] end;
          [left; apply in_or_app; left; exact B|right; exact B].
      - match goal with A : Tr.scoped_cases _ _ r |- _ => destruct (IH Hx A) as [B|B] end;
          [left; apply in_or_app; right; exact B|right; exact B]. }
    destruct A as [A|[A|A]]; [left; right; exact A|inversion A; left; left; reflexivity|right; right; exact A].
Qed.

Lemma atags_in_tags b x : Tr.scoped None None b -> In x (atags b) -> In x (Worklist.tags b).
Proof. intros S Hx. destruct (sub_all b None None S x Hx) as [A|[A|A]]; [exact A|discriminate A|discriminate A]. Qed.

(* the renaming read off two tag lists *)
Fixpoint lookup (l : list (nat * nat)) (a : nat) : nat :=
  match l with [] => 0 | (x, y) :: r => if Nat.eqb a x then y else lookup r a end.
Lemma lookup_in l : NoDup (map fst l) -> forall a b, In (a, b) l -> lookup l a = b.
Proof.
  induction l as [|[x y] r IH]; intros N a b H; [destruct H|]. cbn [map fst] in N. inversion N as [|? ? N1 N2]; subst.
  cbn [lookup]. destruct H as [E|H].
  - inversion E; subst. now rewrite Nat.eqb_refl.
  - destruct (Nat.eqb_spec a x) as [->|_]; [|apply IH; assumption]. exfalso. apply N1. apply (in_map fst) in H. exact H.
Qed.
Lemma snd_inj l : NoDup (map snd l) -> forall a a' b : nat, In (a, b) l -> In (a', b) l -> a = a'.
Proof.
  induction l as [|[x y] r IH]; intros N a a' b H H'; [destruct H|]. cbn [map snd] in N. inversion N as [|? ? N1 N2]; subst.
  destruct H as [E|H]; destruct H' as [E'|H'].
  - congruence.
  - inversion E; subst. exfalso. apply N1. apply (in_map snd) in H'. exact H'.
  - inversion E'; subst. exfalso. apply N1. apply (in_map snd) in H. exact H.
  - eapply IH; eassumption.
Qed.
Lemma fst_combine (a b : list nat) : List.length a = List.length b -> map fst (combine a b) = a.
Proof. revert b. induction a as [|x r IH]; intros [|y b] H; cbn in H; try discriminate H; [reflexivity|]. cbn. rewrite IH by lia. reflexivity. Qed.
Lemma snd_combine (a b : list nat) : List.length a = List.length b -> map snd (combine a b) = b.
Proof. revert b. induction a as [|x r IH]; intros [|y b] H; cbn in H; try discriminate H; [reflexivity|]. cbn. rewrite IH by lia. reflexivity. Qed.
Lemma in_fst_combine (a b : list nat) x : List.length a = List.length b -> In x a -> exists y, In (x, y) (combine a b).
Proof.
  intros L H. rewrite <- (fst_combine a b L) in H. apply in_map_iff in H. destruct H as ([x' y] & E & H). cbn in E. subst. exists y. exact H.
Qed.

(* MAIN 5: two well scoped bodies with pairwise distinct loop / switch tags (what the parser guarantees) that have the same
   shape are equal up to an injective renaming of tags and a change of command ids *)
Theorem same_shape_body_sim : forall b1 b2,
  shape b1 = shape b2 ->
  Tr.scoped None None b1 -> Tr.scoped None None b2 -> NoDup (Worklist.tags b1) -> NoDup (Worklist.tags b2) ->
  body_sim b1 b2.
Proof.
  intros b1 b2 H S1 S2 N1 N2. destruct (QQ_all b1 b2 None None None None H S1 S2) as [L K].
  set (G := combine (Worklist.tags b1) (Worklist.tags b2)).
  assert (NF : NoDup (map fst G)) by (unfold G; rewrite fst_combine by exact L; exact N1).
  assert (NS : NoDup (map snd G)) by (unfold G; rewrite snd_combine by exact L; exact N2).
  exists (lookup G). split.
  - intros a a' Ha Ha' E. apply (atags_in_tags _ _ S1) in Ha. apply (atags_in_tags _ _ S1) in Ha'.
    destruct (in_fst_combine _ (Worklist.tags b2) a L Ha) as (y & Hy). destruct (in_fst_combine _ (Worklist.tags b2) a' L Ha') as (y' & Hy').
    fold G in Hy, Hy'. rewrite (lookup_in G NF _ _ Hy), (lookup_in G NF _ _ Hy') in E. subst y'. eapply snd_inj; eassumption.
  - apply K; [|exact I|exact I]. intros a b Hab. apply lookup_in; assumption.
Qed.

(* ---------- programs of the same shape ---------- *)
Definition shape_opt (o : option (list stmt)) : option (list stmt) := option_map shape o.
Definition shape_ms (m : mapscript) : mapscript :=
  {| msType := msType m; msName := msName m; msScript := shape_opt (msScript m) |}.
Definition shape_te (e : tableentry) : tableentry :=
  {| teCond := teCond e; teCondLit := teCondLit e; teCmp := teCmp e; teName := teName e; teScript := shape_opt (teScript e) |}.
Definition shape_tm (tb : tablems) : tablems :=
  {| tmType := tmType tb; tmName := tmName tb; tmEntries := map shape_te (tmEntries tb) |}.
Definition shape_top (tp : top) : top :=
  match tp with
  | TScript n g b => TScript n g (shape b)
  | TMapScripts n g plain tables => TMapScripts n g (map shape_ms plain) (map shape_tm tables)
  | other => other
  end.
(* the program with every loop / switch tag and every command id set to 0 *)
Definition shape_program (p : program) : program := {| tops := map shape_top (tops p); texts := texts p |}.

(* what the parser guarantees of every script body *)
Definition body_ok (b : list stmt) : Prop := Tr.scoped None None b /\ NoDup (Worklist.tags b).

Lemma obody_sim_shape o1 o2 :
  shape_opt o1 = shape_opt o2 ->
  Forall body_ok (match o1 with Some b => [b] | None => [] end) ->
  Forall body_ok (match o2 with Some b => [b] | None => [] end) -> obody_sim o1 o2.
Proof.
  intros H F1 F2. destruct o1 as [b1|]; destruct o2 as [b2|]; cbn in H; try discriminate H; [|exact I].
  injection H as H. inversion F1 as [|? ? (S1 & N1) _]; subst. inversion F2 as [|? ? (S2 & N2) _]; subst.
  apply same_shape_body_sim; assumption.
Qed.

Lemma ms_sim_shape : forall p1 p2,
  map shape_ms p1 = map shape_ms p2 ->
  Forall body_ok (flat_map (fun m => match msScript m with Some b => [b] | None => [] end) p1) ->
  Forall body_ok (flat_map (fun m => match msScript m with Some b => [b] | None => [] end) p2) ->
  Forall2 ms_sim p1 p2.
Proof.
  induction p1 as [|m1 r1 IH]; intros [|m2 r2] H F1 F2; try discriminate H; [constructor|].
  cbn [map] in H. unfold shape_ms at 1 3 in H. injection H; intros. cbn [flat_map] in F1, F2. apply Forall_app in F1, F2. destruct F1 as [F1a F1b]. destruct F2 as [F2a F2b].
  constructor; [|apply IH; assumption]. repeat split; try assumption.
  apply obody_sim_shape; assumption.
Qed.

Lemma te_sim_shape : forall p1 p2,
  map shape_te p1 = map shape_te p2 ->
  Forall body_ok (flat_map (fun e => match teScript e with Some b => [b] | None => [] end) p1) ->
  Forall body_ok (flat_map (fun e => match teScript e with Some b => [b] | None => [] end) p2) ->
  Forall2 te_sim p1 p2.
Proof.
  induction p1 as [|m1 r1 IH]; intros [|m2 r2] H F1 F2; try discriminate H; [constructor|].
  cbn [map] in H. unfold shape_te at 1 3 in H. injection H; intros. cbn [flat_map] in F1, F2. apply Forall_app in F1, F2. destruct F1 as [F1a F1b]. destruct F2 as [F2a F2b].
  constructor; [|apply IH; assumption]. repeat split; try assumption.
  apply obody_sim_shape; assumption.
Qed.

Lemma tm_sim_shape : forall p1 p2,
  map shape_tm p1 = map shape_tm p2 ->
  Forall body_ok (flat_map (fun tb => flat_map (fun e => match teScript e with Some b => [b] | None => [] end) (tmEntries tb)) p1) ->
  Forall body_ok (flat_map (fun tb => flat_map (fun e => match teScript e with Some b => [b] | None => [] end) (tmEntries tb)) p2) ->
  Forall2 tm_sim p1 p2.
Proof.
  induction p1 as [|m1 r1 IH]; intros [|m2 r2] H F1 F2; try discriminate H; [constructor|].
  cbn [map] in H. unfold shape_tm at 1 3 in H. injection H; intros. cbn [flat_map] in F1, F2. apply Forall_app in F1, F2. destruct F1 as [F1a F1b]. destruct F2 as [F2a F2b].
  constructor; [|apply IH; assumption]. repeat split; try assumption.
  apply te_sim_shape; assumption.
Qed.

Lemma top_sim_shape t1 t2 :
  shape_top t1 = shape_top t2 -> Forall body_ok (ProgWf.bodies_of_top t1) -> Forall body_ok (ProgWf.bodies_of_top t2) -> top_sim t1 t2.
Proof.
  intros H F1 F2.
  destruct t1 as [n1 g1 b1|v1 ln1| |n1 g1 tk1 st1|n1 g1 tk1 it1 itk1|n1 g1 p1 tb1];
    destruct t2 as [n2 g2 b2|v2 ln2| |n2 g2 tk2 st2|n2 g2 tk2 it2 itk2|n2 g2 p2 tb2]; cbn [shape_top] in H; try discriminate H;
    cbn [top_sim]; try exact H.
  - injection H as A B C. cbn in F1, F2. inversion F1 as [|? ? (S1 & N1) _]; subst. inversion F2 as [|? ? (S2 & N2) _]; subst.
    repeat split. apply same_shape_body_sim; assumption.
  - injection H as A B C D. cbn [ProgWf.bodies_of_top] in F1, F2. apply Forall_app in F1, F2. destruct F1 as [F1a F1b]. destruct F2 as [F2a F2b].
    split; [exact A|]. split; [exact B|]. split; [apply ms_sim_shape; assumption|apply tm_sim_shape; assumption].
Qed.

Lemma tops_sim_shape : forall l1 l2,
  map shape_top l1 = map shape_top l2 -> Forall body_ok (ProgWf.bodies_of l1) -> Forall body_ok (ProgWf.bodies_of l2) ->
  Forall2 top_sim l1 l2.
Proof.
  induction l1 as [|t1 r1 IH]; intros [|t2 r2] H F1 F2; try discriminate H; [constructor|].
  cbn [map] in H. injection H as Ht Hr. unfold ProgWf.bodies_of in F1, F2. cbn [flat_map] in F1, F2.
  apply Forall_app in F1, F2. destruct F1 as [F1a F1b]. destruct F2 as [F2a F2b].
  constructor; [apply top_sim_shape; assumption|apply IH; assumption].
Qed.

(* MAIN 6: the text emitted for a program whose script bodies are well scoped with pairwise distinct tags depends only on
   the shape of the program *)
Theorem same_shape_same_output : forall optimize mp p1 p2,
  shape_program p1 = shape_program p2 ->
  Forall body_ok (ProgWf.bodies_of (tops p1)) -> Forall body_ok (ProgWf.bodies_of (tops p2)) ->
  emit_program optimize mp p1 = emit_program optimize mp p2.
Proof.
  intros optimize mp p1 p2 H F1 F2. apply emit_program_sim. unfold shape_program in H. injection H as HT HX.
  split; [apply tops_sim_shape; assumption|exact HX].
Qed.

(* MAIN 7: down to source texts: two sources (compiled with any command configurations, switch values, fonts, modes) whose
   parsed programs have the same shape compile to the same outcome *)
Theorem compile_same_shape :
  forall hl hd hs av1 av2 sw1 sw2 ee1 ee2 fc1 fc2 font1 font2 ml1 ml2 optimize mpath s1 s2 p1 p2,
  Parser.parse_program av1 sw1 ee1 (Format.parse_format fc1 font1 ml1 ee1) (lex hl hd hs s1) = Parser.Ok p1 ->
  Parser.parse_program av2 sw2 ee2 (Format.parse_format fc2 font2 ml2 ee2) (lex hl hd hs s2) = Parser.Ok p2 ->
  shape_program p1 = shape_program p2 ->
  Compile.compile hl hd hs av1 sw1 ee1 fc1 font1 ml1 optimize mpath s1 =
  Compile.compile hl hd hs av2 sw2 ee2 fc2 font2 ml2 optimize mpath s2.
Proof.
  intros hl hd hs av1 av2 sw1 sw2 ee1 ee2 fc1 fc2 font1 font2 ml1 ml2 optimize mpath s1 s2 p1 p2 H1 H2 HS.
  unfold Compile.compile. rewrite H1, H2.
  rewrite (same_shape_same_output optimize mpath p1 p2 HS); [reflexivity| |].
  - pose proof (ProgSrc.accepted_bodies_are_src_ok _ _ _ _ _ _ _ _ _ _ _ H1) as A. eapply Forall_impl; [|exact A].
    intros b ((_ & N) & S). split; assumption.
  - pose proof (ProgSrc.accepted_bodies_are_src_ok _ _ _ _ _ _ _ _ _ _ _ H2) as A. eapply Forall_impl; [|exact A].
    intros b ((_ & N) & S). split; assumption.
Qed.

(* ---------- the hypotheses are satisfiable: a script with a poryswitch and its poryswitch-free twin ---------- *)
Open Scope string_scope.
Definition nf : N -> bool := fun _ => false.
Definition fc0 : Format.fontcfg := {| Format.fcDefault := []; Format.fcFonts := [] |}.
Definition nl1 : string := String (ascii_of_nat 10) "".
Definition sw0 : list (text * text) := [(t "GAME", t "RUBY")].
Definition src_pory : string :=
  "script A {" ++ nl1 ++ " lock" ++ nl1 ++
  " poryswitch(GAME) {" ++ nl1 ++
  "   SAPPHIRE: release" ++ nl1 ++
  "   RUBY { while (flag(F)) { msgbox(""hi"") break } }" ++ nl1 ++
  "   _ { switch (var(V)) { case 1: end } }" ++ nl1 ++
  " }" ++ nl1 ++
  " do { faceplayer continue } while (var(X) == 2)" ++ nl1 ++ " msgbox(""bye"")" ++ nl1 ++ "}".
Definition src_twin : string :=
  "script A {" ++ nl1 ++ " lock" ++ nl1 ++ nl1 ++ nl1 ++
  "          while (flag(F)) { msgbox(""hi"") break }" ++ nl1 ++ nl1 ++ nl1 ++
  " do { faceplayer continue } while (var(X) == 2)" ++ nl1 ++ " msgbox(""bye"")" ++ nl1 ++ "}".
Definition parse0 (s : string) : Parser.res program :=
  Parser.parse_program [] sw0 true (Format.parse_format fc0 [] 0%Z true) (lex nf nf nf (t s)).
Definition comp0 (s : string) : Compile.outcome := Compile.compile nf nf nf [] sw0 true fc0 [] 0%Z false None (t s).
Definition show (x : text) : string := string_of_list_ascii (map ascii_of_N x).

Example poryswitch_twin_same_shape :
  exists p1 p2, parse0 src_pory = Parser.Ok p1 /\ parse0 src_twin = Parser.Ok p2 /\
                tops p1 <> tops p2 /\ shape_program p1 = shape_program p2 /\
                comp0 src_pory = comp0 src_twin /\ exists x, comp0 src_pory = Compile.OutText x.
Proof.
  eexists. eexists. split; [vm_compute; reflexivity|]. split; [vm_compute; reflexivity|].
  split; [intros H; vm_compute in H; discriminate H|]. split; [vm_compute; reflexivity|].
  split; [|eexists; vm_compute; reflexivity].
  unfold comp0. eapply compile_same_shape; [vm_compute; reflexivity|vm_compute; reflexivity|vm_compute; reflexivity].
Qed.

(* ---------- second part: what a statement poryswitch contributes to the block around it ---------- *)
Module BlockStep.
Import Parser.
Section P.
Variable autovars : list (text * autovar).
Variable switches : list (text * text).
Variable env_errors : bool.
Variable parse_format : toks -> res (token * text * text * toks).
Variable consts : list (text * text).
Notation parse_block := (parse_block autovars switches env_errors parse_format consts).
Notation parse_switch_block := (parse_switch_block autovars switches env_errors parse_format consts).
Notation parse_pory_stmts := (parse_pory_stmts autovars switches env_errors parse_format consts).
Notation parse_pory_cases := (parse_pory_cases autovars switches env_errors parse_format consts).
Notation parse_pory := (parse_pory autovars switches env_errors parse_format consts).
Notation parse_stmt := (parse_stmt autovars switches env_errors parse_format consts).

Lemma curis_type ty ts : curis ty ts = true -> ttype (cur ts) = ty.
Proof. unfold curis, is. apply PorySwitchLists.tt_eqb_true. Qed.

Lemma parse_pory_select f script bs cs ts sc sv ts1 cases ts2 :
  poryswitch_header switches env_errors ts = Ok (sc, sv, ts1) ->
  parse_pory_cases f script bs cs (cur ts1) ts1 [] = Ok (cases, ts2) ->
  parse_pory (S f) script bs cs ts =
    match PorySwitchLists.pory_select cases sv with
    | Some (ss, imp) => Ok (ss, imp, ts2)
    | None => if env_errors then err_tok (cur ts) "no poryswitch case found" else Ok ([], imp0, ts2)
    end.
Proof.
  intros H1 H2. rewrite (C13Proofs.parse_pory_selected _ _ _ _ _ _ _ _ _ _ _ _ _ _ _ H1 H2). unfold PorySwitchLists.pory_select.
  destruct (assoc cases (sval sv)) as [[ss imp]|]; [reflexivity|]. destruct (assoc cases (t "_")) as [[ss imp]|]; reflexivity.
Qed.

(* a poryswitch met in a block: the block goes on after the poryswitch's closing brace with the statements (and inline
   texts / movements) of the selected case appended - nothing else of the poryswitch reaches the block *)
Theorem block_poryswitch_step : forall f script bs cs start ts acc imp sc sv ts1 cases ts2,
  curis PORYSWITCH ts = true ->
  poryswitch_header switches env_errors ts = Ok (sc, sv, ts1) ->
  parse_pory_cases f script bs cs (cur ts1) ts1 [] = Ok (cases, ts2) ->
  parse_block (S (S (S f))) script bs cs start ts acc imp =
    match PorySwitchLists.pory_select cases sv with
    | Some (ss, imp') => parse_block (S (S f)) script bs cs start (adv ts2) (acc ++ ss) (impadd imp imp')
    | None => if env_errors then err_tok (cur ts) "no poryswitch case found"
              else parse_block (S (S f)) script bs cs start (adv ts2) (acc ++ []) (impadd imp imp0)
    end.
Proof.
  intros f script bs cs start ts acc imp sc sv ts1 cases ts2 HC H1 H2. pose proof (curis_type _ _ HC) as TY.
  rewrite parse_block_unfold. unfold curis, is. rewrite TY. cbn [tt_eqb]. 
  replace (tt_eqb PORYSWITCH RBRACE) with false by reflexivity. replace (tt_eqb PORYSWITCH EOF) with false by reflexivity.
  rewrite parse_stmt_unfold, TY. rewrite (parse_pory_select _ _ _ _ _ _ _ _ _ _ H1 H2).
  destruct (PorySwitchLists.pory_select cases sv) as [[ss imp']|]; [reflexivity|]. destruct env_errors; reflexivity.
Qed.

(* the same inside a switch case body *)
Theorem switch_block_poryswitch_step : forall f script bs cs start ts acc imp sc sv ts1 cases ts2,
  curis PORYSWITCH ts = true ->
  poryswitch_header switches env_errors ts = Ok (sc, sv, ts1) ->
  parse_pory_cases f script bs cs (cur ts1) ts1 [] = Ok (cases, ts2) ->
  parse_switch_block (S (S (S f))) script bs cs start ts acc imp =
    match PorySwitchLists.pory_select cases sv with
    | Some (ss, imp') => parse_switch_block (S (S f)) script bs cs start (adv ts2) (acc ++ ss) (impadd imp imp')
    | None => if env_errors then err_tok (cur ts) "no poryswitch case found"
              else parse_switch_block (S (S f)) script bs cs start (adv ts2) (acc ++ []) (impadd imp imp0)
    end.
Proof.
  intros f script bs cs start ts acc imp sc sv ts1 cases ts2 HC H1 H2. pose proof (curis_type _ _ HC) as TY.
  rewrite parse_switch_block_unfold. unfold curis, is. rewrite TY.
  replace (tt_eqb PORYSWITCH RBRACE) with false by reflexivity. replace (tt_eqb PORYSWITCH EOF) with false by reflexivity.
  replace (tt_eqb PORYSWITCH CASE) with false by reflexivity. replace (tt_eqb PORYSWITCH DEFAULT) with false by reflexivity.
  cbn [orb]. rewrite parse_stmt_unfold, TY. rewrite (parse_pory_select _ _ _ _ _ _ _ _ _ _ H1 H2).
  destruct (PorySwitchLists.pory_select cases sv) as [[ss imp']|]; [reflexivity|]. destruct env_errors; reflexivity.
Qed.

(* a poryswitch nested in a case of another statement poryswitch *)
Theorem pory_stmts_poryswitch_step : forall f script bs cs multi ts acc imp sc sv ts1 cases ts2,
  curis PORYSWITCH ts = true ->
  poryswitch_header switches env_errors ts = Ok (sc, sv, ts1) ->
  parse_pory_cases f script bs cs (cur ts1) ts1 [] = Ok (cases, ts2) ->
  parse_pory_stmts (S (S f)) script bs cs multi ts acc imp =
    (let continue ss imp' := if multi then parse_pory_stmts (S f) script bs cs multi (adv ts2) (acc ++ ss) (impadd imp imp')
                             else Ok (acc ++ ss, impadd imp imp', adv ts2) in
     match PorySwitchLists.pory_select cases sv with
     | Some (ss, imp') => continue ss imp'
     | None => if env_errors then err_tok (cur ts) "no poryswitch case found" else continue [] imp0
     end).
Proof.
  intros f script bs cs multi ts acc imp sc sv ts1 cases ts2 HC H1 H2. pose proof (curis_type _ _ HC) as TY.
  rewrite parse_pory_stmts_unfold. rewrite HC. unfold curis, is. rewrite TY.
  replace (tt_eqb PORYSWITCH RBRACE) with false by reflexivity.
  rewrite (parse_pory_select _ _ _ _ _ _ _ _ _ _ H1 H2). cbv zeta.
  destruct (PorySwitchLists.pory_select cases sv) as [[ss imp']|]; [reflexivity|]. destruct env_errors; reflexivity.
Qed.

(* the case table of a statement poryswitch: the cases in source order; each case is a label (identifier or integer), ':' or
   '{', and a body parsed in place - with the break / continue scopes of the block around the poryswitch - as one statement
   (':' form) or as statements up to the closing brace ('{' form) *)
Definition stmt_case_step script bs cs (ts : toks) (x : text) (ss : list stmt) (imp : impdata) (ts' : toks) : Prop :=
  (curis IDENT ts = true \/ curis INT ts = true) /\ x = tlit (cur ts) /\
  exists f ts2,
    (curis COLON (adv ts) = true /\ curis LBRACE (adv ts) = false /\
     parse_pory_stmts f script bs cs false (adv (adv ts)) [] imp0 = Ok (ss, imp, ts2) /\ ts' = ts2) \/
    (curis LBRACE (adv ts) = true /\
     parse_pory_stmts f script bs cs true (adv (adv ts)) [] imp0 = Ok (ss, imp, ts2) /\ curis RBRACE ts2 = true /\ ts' = adv ts2).
Inductive stmt_case_seq script bs cs : toks -> list (text * (list stmt * impdata)) -> toks -> Prop :=
| scs_done ts : stmt_case_seq script bs cs ts [] ts
| scs_more ts x ss imp ts1 l ts' :
    curis RBRACE ts = false -> stmt_case_step script bs cs ts x ss imp ts1 -> stmt_case_seq script bs cs ts1 l ts' ->
    stmt_case_seq script bs cs ts ((x, (ss, imp)) :: l) ts'.

Lemma stmt_cases_acc : forall f script bs cs start ts acc cases ts',
  parse_pory_cases f script bs cs start ts acc = Ok (cases, ts') ->
  exists l, stmt_case_seq script bs cs ts l ts' /\ curis RBRACE ts' = true /\ cases = rev l ++ acc.
Proof.
  induction f as [|f IH]; intros script bs cs start ts acc cases ts' H; [discriminate H|].
  rewrite parse_pory_cases_unfold in H.
  destruct (curis RBRACE ts) eqn:ER.
  { inversion H; subst. exists []. split; [constructor|]. split; [exact ER|reflexivity]. }
  destruct (curis EOF ts); [discriminate H|].
  destruct (negb (curis IDENT ts) && negb (curis INT ts)) eqn:EI; [discriminate H|].
  assert (LAB : curis IDENT ts = true \/ curis INT ts = true).
  { destruct (curis IDENT ts); [left; reflexivity|]. destruct (curis INT ts); [right; reflexivity|discriminate EI]. }
  cbv zeta in H. destruct (curis COLON (adv ts) || curis LBRACE (adv ts)) eqn:EC; [|discriminate H].
  destruct (parse_pory_stmts f script bs cs (curis LBRACE (adv ts)) (adv (adv ts)) [] imp0) as [[[ss imp] ts2]|e| |] eqn:EP;
    try discriminate H. cbv beta iota in H.
  destruct (curis LBRACE (adv ts)) eqn:EB.
  - destruct (curis RBRACE ts2) eqn:ER2; cbn [negb] in H; [|discriminate H].
    destruct (IH _ _ _ _ _ _ _ _ H) as (l & SQ & RB & EQ). exists ((tlit (cur ts), (ss, imp)) :: l).
    split; [|split; [exact RB|]].
    + econstructor; [exact ER| |exact SQ]. split; [exact LAB|]. split; [reflexivity|]. exists f, ts2. right. auto.
    + rewrite EQ. cbn [rev]. rewrite <- app_assoc. reflexivity.
  - destruct (IH _ _ _ _ _ _ _ _ H) as (l & SQ & RB & EQ). exists ((tlit (cur ts), (ss, imp)) :: l).
    split; [|split; [exact RB|]].
    + econstructor; [exact ER| |exact SQ]. split; [exact LAB|]. split; [reflexivity|]. exists f, ts2. left.
      rewrite orb_false_r in EC. auto.
    + rewrite EQ. cbn [rev]. rewrite <- app_assoc. reflexivity.
Qed.

Theorem stmt_cases_table : forall f script bs cs start ts cases ts',
  parse_pory_cases f script bs cs start ts [] = Ok (cases, ts') ->
  exists l, stmt_case_seq script bs cs ts l ts' /\ curis RBRACE ts' = true /\ cases = rev l.
Proof.
  intros f script bs cs start ts cases ts' H. destruct (stmt_cases_acc _ _ _ _ _ _ _ _ _ H) as (l & A & B & C).
  exists l. rewrite app_nil_r in C. auto.
Qed.

Lemma stmt_case_seq_split script bs cs : forall ts l ts', stmt_case_seq script bs cs ts l ts' ->
  forall l1 x ss imp l2, l = l1 ++ (x, (ss, imp)) :: l2 ->
  exists tsc tsn, stmt_case_seq script bs cs ts l1 tsc /\ stmt_case_step script bs cs tsc x ss imp tsn /\
                  stmt_case_seq script bs cs tsn l2 ts'.
Proof.
  induction 1 as [ts|ts x0 ss0 imp0' ts1 l ts' NR ST SQ IH]; intros l1 x ss imp l2 E.
  - destruct l1; discriminate E.
  - destruct l1 as [|y l1]; cbn in E.
    + inversion E; subst. exists ts, ts1. split; [constructor|]. split; assumption.
    + inversion E; subst. destruct (IH _ _ _ _ _ eq_refl) as (tsc & tsn & A & B & C).
      exists tsc, tsn. split; [econstructor; eassumption|]. split; assumption.
Qed.

(* SECOND PART, main statement: the statements a poryswitch hands to the block are those of one written case - the last
   case labelled with the -s value, else the last case labelled '_' - parsed in place with the scopes of the block; no
   other case reaches the block *)
Theorem block_poryswitch_contributes : forall f script bs cs start ts acc imp sc sv ts1 cases ts2 ss imp',
  curis PORYSWITCH ts = true ->
  poryswitch_header switches env_errors ts = Ok (sc, sv, ts1) ->
  parse_pory_cases f script bs cs (cur ts1) ts1 [] = Ok (cases, ts2) ->
  PorySwitchLists.pory_select cases sv = Some (ss, imp') ->
  parse_block (S (S (S f))) script bs cs start ts acc imp =
    parse_block (S (S f)) script bs cs start (adv ts2) (acc ++ ss) (impadd imp imp') /\
  curis RBRACE ts2 = true /\
  exists l x l1 l2 tsc tsn,
    cases = rev l /\ l = l1 ++ (x, (ss, imp')) :: l2 /\ assoc l2 x = None /\
    (x = sval sv \/ (x = t "_" /\ assoc l (sval sv) = None)) /\
    stmt_case_seq script bs cs ts1 l1 tsc /\ stmt_case_step script bs cs tsc x ss imp' tsn /\
    stmt_case_seq script bs cs tsn l2 ts2.
Proof.
  intros f script bs cs start ts acc imp sc sv ts1 cases ts2 ss imp' HC H1 H2 SEL. split.
  - rewrite (block_poryswitch_step _ _ _ _ _ _ _ _ _ _ _ _ _ HC H1 H2), SEL. reflexivity.
  - destruct (stmt_cases_table _ _ _ _ _ _ _ _ H2) as (l & SQ & RB & EQ). split; [exact RB|]. subst cases.
    apply PorySwitchLists.poryswitch_last_case_wins in SEL. destruct SEL as (x & l1 & l2 & E & N & W).
    destruct (stmt_case_seq_split _ _ _ _ _ _ SQ _ _ _ _ _ E) as (tsc & tsn & A & B & C).
    exists l, x, l1, l2, tsc, tsn. auto 10.
Qed.
End P.
End BlockStep.

(* the hypotheses hold at the poryswitch of src_pory (token 4 of the source): three cases, the RUBY case - a while loop - is selected *)
Example block_poryswitch_example :
  let pf := Format.parse_format fc0 [] 0%Z true in
  let ts := skipn 4 (lex nf nf nf (t src_pory)) in
  exists sc sv ts1 cases ts2 ss imp',
    Parser.curis PORYSWITCH ts = true /\
    Parser.poryswitch_header sw0 true ts = Parser.Ok (sc, sv, ts1) /\
    Parser.parse_pory_cases [] sw0 true pf [] 60 (t "A") [] [] (Parser.cur ts1) ts1 [] = Parser.Ok (cases, ts2) /\
    PorySwitchLists.pory_select cases sv = Some (ss, imp') /\
    List.length cases = 3 /\ exists tg c b, ss = [SWhile tg c b].
Proof.
  cbv zeta. do 7 eexists. split; [vm_compute; reflexivity|]. split; [vm_compute; reflexivity|].
  split; [vm_compute; reflexivity|]. split; [vm_compute; reflexivity|]. split; [vm_compute; reflexivity|].
  do 3 eexists. vm_compute. reflexivity.
Qed.

(* ---------- conversely: bodies equal up to tags and command ids have the same shape ---------- *)
Lemma erase_same h c : cmd_same h -> erase_cmd (h c) = erase_cmd c.
Proof. intros Hh. destruct (Hh c) as (A & B & C). unfold erase_cmd, set_cid. rewrite A, B, C. reflexivity. Qed.
Lemma shape_bexp h e : cmd_same h -> mp_bexp erase_cmd (mp_bexp h e) = mp_bexp erase_cmd e.
Proof.
  intros Hh. induction e as [l|o a IHa b IHb]; cbn [mp_bexp]; [|rewrite IHa, IHb; reflexivity].
  f_equal. unfold mp_leaf. cbn. f_equal. destruct (lpre l) as [p|]; [|reflexivity]. cbn. f_equal. apply erase_same. exact Hh.
Qed.
Lemma shape_renamed g h : cmd_same h -> forall b, shape (mp_stmts g h b) = shape b.
Proof.
  intros Hh. unfold shape.
  apply (LabelSim.stmts_ind2
           (fun s => mp_stmt z0 erase_cmd (mp_stmt g h s) = mp_stmt z0 erase_cmd s)
           (fun b => mp_stmts z0 erase_cmd (mp_stmts g h b) = mp_stmts z0 erase_cmd b)).
  - reflexivity.
  - intros s r Hs Hr. cbn [mp_stmts map]. f_equal; assumption.
  - intros c. cbn [mp_stmt]. f_equal. apply erase_same. exact Hh.
  - reflexivity.
  - intros conds els Hc He. cbn [mp_stmt]. f_equal.
    + rewrite map_map. apply map_ext_in. intros cb Hin. cbn [fst snd]. rewrite Forall_forall in Hc. f_equal; [apply shape_bexp; exact Hh|apply (Hc cb Hin)].
    + destruct els as [b|]; [|reflexivity]. cbn [option_map]. f_equal. exact He.
  - intros tg c b Hb. cbn [mp_stmt]. f_equal; [|exact Hb]. destruct c as [e|]; [|reflexivity]. cbn [option_map]. f_equal. apply shape_bexp. exact Hh.
  - intros tg b c Hb. cbn [mp_stmt]. f_equal; [exact Hb|apply shape_bexp; exact Hh].
  - reflexivity.
  - reflexivity.
  - intros tg o ol cases Hc. cbn [mp_stmt]. f_equal. rewrite map_map. apply map_ext_in. intros c Hin. unfold mp_case_with. cbn [fst snd].
    f_equal. rewrite Forall_forall in Hc. apply (Hc c Hin).
Qed.

Theorem body_sim_same_shape b1 b2 : body_sim b1 b2 -> shape b1 = shape b2.
Proof.
  intros (g & _ & E). rewrite <- (shape_renamed g erase_cmd cmd_same_erase b1), E. unfold erase_cids. apply shape_renamed. exact cmd_same_erase.
Qed.
