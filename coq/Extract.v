From Coq Require Import ExtrOcamlBasic ExtrOcamlString.
From Pory Require Import Lexer Ast Parser Emitter Compile Format Sem2 SemTgt Tr Check RenderSim RenderCheck LabelSim C01Final Oracle.
Extraction "model.ml" compile lex format_text oracle checker validator parse_model read_asm.
