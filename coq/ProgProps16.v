(* C16 for whole programs: removing the marker instructions from the -lm output gives exactly the -lm=false output. *)
From Coq Require Import List String Ascii ZArith NArith Lia Bool.
From Pory Require Import Lexer Ast Emitter Props16.
Import ListNotations.
Open Scope list_scope.

(* two results are related when both fail the same way or both succeed with related values *)
Definition rel_res {A B} (R : A -> B -> Prop) (x : res A) (y : res B) : Prop :=
  match x, y with
  | Ok a, Ok b => R a b
  | ErrLabel t1 x1, ErrLabel t2 x2 => t1 = t2 /\ x1 = x2
  | ErrBreak, ErrBreak | ErrContinue, ErrContinue | OutOfFuel, OutOfFuel => True
  | _, _ => False
  end.

Lemma rel_bind {A B A' B'} (R : A -> B -> Prop) (R' : A' -> B' -> Prop) x y f g :
  rel_res R x y -> (forall a b, R a b -> rel_res R' (f a) (g b)) -> rel_res R' (bind_i x f) (bind_i y g).
Proof. destruct x, y; cbn; intros H K; try contradiction; auto. Qed.

Section T.
Variable p : text.
Variable tl : list text.
Notation ON := (Some p).
Notation OFF := (@None text).
Definition S (a b : list instr) : Prop := strip a = b.

Ltac st := repeat (rewrite ?strip_app, ?strip_marker; cbn [strip filter notmarker app]).

Lemma strip_text x : strip (emit_text ON x) = emit_text OFF x.
Proof.
  unfold emit_text. st. f_equal. cbn. induction (split_nl (xvalue x) []) as [|l r IH]; [reflexivity|].
  cbn. f_equal. exact IH.
Qed.

Lemma strip_steps steps : strip (emit_steps ON steps) = emit_steps OFF steps.
Proof.
  induction steps as [|s r IH]; [reflexivity|]. cbn [emit_steps]. st.
  destruct (text_eqb (tlit s) (t "step_end")); cbn; [reflexivity|]. fold (strip (emit_steps ON r)). rewrite IH. reflexivity.
Qed.
Lemma strip_movement n g tk steps : strip (emit_movement ON n g tk steps) = emit_movement OFF n g tk steps.
Proof. unfold emit_movement. st. rewrite strip_steps. reflexivity. Qed.

Lemma strip_items items itoks : strip (emit_items ON items itoks) = emit_items OFF items itoks.
Proof.
  revert itoks. induction items as [|i r IH]; intros [|tk rt]; try reflexivity. cbn [emit_items].
  destruct (text_eqb i (t "ITEM_NONE")); [reflexivity|]. st. rewrite IH. reflexivity.
Qed.
Lemma strip_mart n g tk items itoks : strip (emit_mart ON n g tk items itoks) = emit_mart OFF n g tk items itoks.
Proof. unfold emit_mart. st. rewrite strip_items. reflexivity. Qed.

Lemma strip_raw_lines lines line : strip (emit_raw_lines ON lines line) = emit_raw_lines OFF lines line.
Proof. revert line. induction lines as [|l r IH]; intros line; [reflexivity|]. cbn [emit_raw_lines]. st. rewrite IH. reflexivity. Qed.

Lemma est n g opt b : rel_res S (emit_script ON tl n g opt b) (emit_script OFF tl n g opt b).
Proof.
  pose proof (emit_script_transparent p tl n g opt b) as H.
  destruct (emit_script ON tl n g opt b); destruct (emit_script OFF tl n g opt b); exact H.
Qed.
Local Opaque emit_script.

Lemma rel_scripts opt l : rel_res S (emit_scripts ON tl opt l) (emit_scripts OFF tl opt l).
Proof.
  induction l as [|[n [b|]] r IH].
  - exact (eq_refl : strip [] = []).
  - change (emit_scripts ON tl opt ((n, Some b) :: r)) with (bind_i (emit_script ON tl n false opt b) (fun x => bind_i (emit_scripts ON tl opt r) (fun y => Ok (x ++ y)))).
    change (emit_scripts OFF tl opt ((n, Some b) :: r)) with (bind_i (emit_script OFF tl n false opt b) (fun x => bind_i (emit_scripts OFF tl opt r) (fun y => Ok (x ++ y)))).
    eapply rel_bind; [apply est|].
    intros a b0 Hab. eapply rel_bind; [exact IH|]. intros x y Hxy. unfold rel_res, S in *. rewrite strip_app. congruence.
  - exact IH.
Qed.

Lemma rel_mapscripts opt name glob plain tables :
  rel_res S (emit_mapscripts ON tl opt name glob plain tables) (emit_mapscripts OFF tl opt name glob plain tables).
Proof.
  unfold emit_mapscripts.
  eapply rel_bind; [apply rel_scripts|]. intros inl1 inl2 Hinl.
  eapply rel_bind with (R := S).
  - induction tables as [|tb r IH]; [reflexivity|]. cbn [emit_tables].
    eapply rel_bind; [apply rel_scripts|]. intros x1 x2 Hx.
    eapply rel_bind; [exact IH|]. intros y1 y2 Hy. cbn. unfold S in *. st.
    rewrite (strip_flat_map _ (fun e => marker OFF (tline (teCond e)) ++ [ILine (tab ++ t "map_script_2 " ++ teCondLit e ++ t ", " ++ teCmp e ++ t ", " ++ teName e)]))
      by (intros e; reflexivity).
    cbn. rewrite Hx, Hy. reflexivity.
  - intros t1 t2 Ht. cbn. unfold S in *. st.
    rewrite (strip_flat_map _ (fun m => marker OFF (tline (msType m)) ++ [ILine (tab ++ t "map_script " ++ tlit (msType m) ++ t ", " ++ msName m)])) by (intros m; reflexivity).
    rewrite (strip_flat_map _ (fun tb => marker OFF (tline (tmType tb)) ++ [ILine (tab ++ t "map_script " ++ tlit (tmType tb) ++ t ", " ++ tmName tb)])) by (intros m; reflexivity).
    cbn. rewrite Hinl, Ht. reflexivity.
Qed.

Lemma rel_tops opt l i :
  rel_res (fun a b => strip (fst a) = fst b /\ snd a = snd b) (emit_tops ON tl opt l i) (emit_tops OFF tl opt l i).
Proof.
  revert i. induction l as [|tp r IH]; intros i; cbn [emit_tops]; [cbn; auto|].
  assert (K : forall (x y : res (list instr)), rel_res S x y ->
    rel_res (fun a b => strip (fst a) = fst b /\ snd a = snd b)
      (bind_i x (fun x0 => bind_i (emit_tops ON tl opt r (Datatypes.S i)) (fun '(y0, n) => Ok ((match i with O => [] | _ => [IBlank] end) ++ x0 ++ y0, n))))
      (bind_i y (fun x0 => bind_i (emit_tops OFF tl opt r (Datatypes.S i)) (fun '(y0, n) => Ok ((match i with O => [] | _ => [IBlank] end) ++ x0 ++ y0, n))))).
  { intros x y Hxy. eapply rel_bind; [exact Hxy|]. intros a b Hab.
    eapply rel_bind; [apply IH|]. intros [y1 n1] [y2 n2] [H1 H2]. cbn in *. subst. unfold S in Hab.
    split; [|reflexivity]. rewrite !strip_app, Hab. destruct i; reflexivity. }
  destruct tp as [n g b|v ln| |n g tk steps|n g tk items itoks|n g plain tables]; cbn [emit_top].
  - apply K. apply est.
  - apply K. cbn. unfold S, emit_raw. apply strip_raw_lines.
  - apply IH.
  - apply K. cbn. apply strip_movement.
  - apply K. cbn. apply strip_mart.
  - apply K. apply rel_mapscripts.
Qed.

Lemma strip_texts l k : strip (emit_texts ON l k) = emit_texts OFF l k.
Proof.
  revert k. induction l as [|x r IH]; intros k; [reflexivity|]. cbn [emit_texts]. rewrite !strip_app, strip_text, IH.
  destruct k; reflexivity.
Qed.
End T.

Theorem emit_program_transparent opt p prog :
  rel_res (fun a b => strip a = b) (emit_program_instrs opt (Some p) prog) (emit_program_instrs opt None prog).
Proof.
  unfold emit_program_instrs.
  pose proof (rel_tops p (map xname (texts prog)) opt (tops prog) 0) as H.
  destruct (emit_tops (Some p) _ opt (tops prog) 0) as [[x n]| | | |];
  destruct (emit_tops None _ opt (tops prog) 0) as [[y m]| | | |]; cbn in H; try contradiction; auto.
  destruct H as [H1 H2]. cbn in *. subst. rewrite strip_app, strip_texts. reflexivity.
Qed.

(* without a path no marker is emitted at all *)
Theorem no_markers_without_path opt prog is :
  emit_program_instrs opt None prog = Ok is -> strip is = is.
Proof.
  intros H. pose proof (emit_program_transparent opt [] prog) as T. unfold rel_res in T.
  rewrite H in T. match type of T with match ?x with _ => _ end => destruct x as [a| | | |] end; try contradiction.
  rewrite <- T. clear T H. unfold strip.
  induction a as [|x r IH]; cbn; auto. destruct (notmarker x) eqn:E; cbn; rewrite ?E, IH; reflexivity.
Qed.
