(* C16 - Line markers are transparent and name the right source line. *)
From Coq Require Import List ZArith NArith.
From Pory Require Import Lexer Ast Parser Emitter Props16 ProgProps16.
Import ListNotations.

(* removing the marker instructions from the -lm output of a script gives exactly its -lm=false output
   (errors included), for every body, scope, chunk order, path and text-label set *)
Theorem emit_script_transparent : forall (p : text) (tl : list text) name glob opt body,
  match emit_script (Some p) tl name glob opt body, emit_script None tl name glob opt body with
  | Ok a, Ok b => strip a = b
  | ErrLabel t1 x1, ErrLabel t2 x2 => t1 = t2 /\ x1 = x2
  | ErrBreak, ErrBreak | ErrContinue, ErrContinue | OutOfFuel, OutOfFuel => True
  | _, _ => False
  end.
Proof. exact Props16.emit_script_transparent. Qed.
Print Assumptions emit_script_transparent.

(* the same for whole programs: scripts, raw blocks, movements, marts, mapscripts with inline scripts and tables, texts *)
Theorem emit_program_transparent : forall opt p prog,
  rel_res (fun a b => strip a = b) (emit_program_instrs opt (Some p) prog) (emit_program_instrs opt None prog).
Proof. exact ProgProps16.emit_program_transparent. Qed.
Print Assumptions emit_program_transparent.

(* without an input path no marker is emitted *)
Theorem no_markers_without_path : forall opt prog is, emit_program_instrs opt None prog = Ok is -> strip is = is.
Proof. exact ProgProps16.no_markers_without_path. Qed.
Print Assumptions no_markers_without_path.
