(* C16 - Line markers are transparent and name the right source line. *)
From Coq Require Import List ZArith NArith.
From Pory Require Import Lexer Ast Parser Emitter Props16 ProgProps16.
Import ListNotations.

(* removing the marker instructions from the -lm output of a script gives exactly its -lm=false output
   (errors included), for every body, scope, chunk order, path and text-label set *)
Theorem emit_script_transparent : forall (p : text) (tl : list text) name glob opt body,
  match emit_script (Some p) tl name glob opt body, emit_script None tl name glob opt body with
  | Ok a, Ok b => strip a = b
  | ErrLabel t1 x1, ErrLabel t2 x2 => t1 = t2 /\ x1 = x2
  | ErrBreak, ErrBreak | ErrContinue, ErrContinue | OutOfFuel, OutOfFuel => True
  | _, _ => False
  end.
Proof. exact Props16.emit_script_transparent. Qed.
Print Assumptions emit_script_transparent.

(* the same for whole programs: scripts, raw blocks, movements, marts, mapscripts with inline scripts and tables, texts *)
Theorem emit_program_transparent : forall opt p prog,
  rel_res (fun a b => strip a = b) (emit_program_instrs opt (Some p) prog) (emit_program_instrs opt None prog).
Proof. exact ProgProps16.emit_program_transparent. Qed.
Print Assumptions emit_program_transparent.

(* without an input path no marker is emitted *)
Theorem no_markers_without_path : forall opt prog is, emit_program_instrs opt None prog = Ok is -> strip is = is.
Proof. exact ProgProps16.no_markers_without_path. Qed.
Print Assumptions no_markers_without_path.

(* ---------- which line a marker names (MarkerLines.v) ---------- *)
(* `construct`: command, label, condition, switch, case, text, movement, step, mart, item, raw line, map script, table entry;
   `kline k`: the line the AST records for it; `shows k i`: instruction i renders construct k.  Emitter, for all programs: every
   marker is directly followed by the instruction of a construct of the program and carries that construct's line
   (marker_names_following_construct).  Parser, site by site: the token whose line is recorded is the first token of the construct in the
   source stream - command / label: the name token; condition: the first token of the operand (AutoVar: the command token);
   switch: the first token of the operand; case: the first token of the value; item / step: the token itself; raw: the line of the
   raw text.  Whole pipeline: every marker of the compiled output names a line between 1 and the number of source lines on which
   that construct's token starts (markers_name_source_lines, compile_markers_name_source_lines; positions: LexPos.tokens_are_located). *)
From Pory Require Import Format Consume ConstSites LexInv LexPos MarkerLines.
Theorem marker_names_following_construct :
  forall (opt : bool) (p : text) (prog : program) (is : list instr),
  emit_program_instrs opt (Some p) prog = Ok is ->
  forall (pre : list instr) (l : Z) (post : list instr),
  is = pre ++ IMarker l :: post ->
  exists (k : construct) (i : instr) (post' : list instr), post = i :: post' /\ In k (program_constructs prog) /\ kline k = l /\ shows k i.
Proof. exact MarkerLines.marker_names_following_construct. Qed.
Print Assumptions marker_names_following_construct.

Theorem script_marker_names_following_construct :
  forall (p : text) (tl : list text) (name : text) (glob opt : bool) (body : list stmt) (is : list instr),
  emit_script (Some p) tl name glob opt body = Ok is ->
  forall (pre : list instr) (l : Z) (post : list instr),
  is = pre ++ IMarker l :: post ->
  exists (k : construct) (i : instr) (post' : list instr), post = i :: post' /\ In k (body_constructs body) /\ kline k = l /\ shows k i.
Proof. exact MarkerLines.script_marker_names_following_construct. Qed.
Print Assumptions script_marker_names_following_construct.

Theorem command_marker_site :
  forall (switches : list (text * text)) (env_errors : bool) (parse_format : toks -> Parser.res (token * text * text * toks))
    (consts : list (text * text)) (f : nat) (script : text) (ts : toks) (c : cmd) (imp : impdata) (ts' : toks),
  command_stmt switches env_errors parse_format consts f script ts = Parser.Ok (c, imp, ts') -> ctok c = cur ts /\ cname c = tlit (cur ts).
Proof. exact MarkerLines.command_marker_site. Qed.
Print Assumptions command_marker_site.

Theorem label_marker_site :
  forall (ts : toks) (s : stmt) (ts' : toks), try_label ts = Some (s, ts') -> exists g : bool, s = SLabel (tlit (cur ts)) g (cur ts).
Proof. exact MarkerLines.label_marker_site. Qed.
Print Assumptions label_marker_site.

Theorem condition_marker_site :
  forall (autovars : list (text * autovar)) (switches : list (text * text)) (env_errors : bool)
    (parse_format : toks -> Parser.res (token * text * text * toks)) (consts : list (text * text)) (f : nat) (script : text) 
    (ts0 : toks) (l : leaf) (imp : impdata) (ts' : toks),
  leaf_expr autovars switches env_errors parse_format consts f script ts0 = Parser.Ok (l, imp, ts') ->
  eof_ended ts0 ->
  lpre l = None ->
  exists (pre : list token) (op lp first : token) (seg : list token) (rp : token) (rest : list token),
    ts0 = pre ++ op :: lp :: first :: seg ++ rp :: rest /\
    (pre = [cur ts0] /\ peekis NOT ts0 = false \/ (exists nt : token, pre = [cur ts0; nt] /\ is NOT nt = true /\ peekis NOT ts0 = true)) /\
    (ttype op = VAR \/ ttype op = FLAG \/ ttype op = DEFEATED) /\
    is LPAREN lp = true /\
    Forall (fun tk : token => is RPAREN tk = false) (first :: seg) /\
    is RPAREN rp = true /\ loperand l = Parser.join sp (map (subst consts) (first :: seg)) /\ lline l = tline first.
Proof. exact MarkerLines.condition_marker_site. Qed.
Print Assumptions condition_marker_site.

Theorem condition_autovar_marker_site :
  forall (autovars : list (text * autovar)) (switches : list (text * text)) (env_errors : bool)
    (parse_format : toks -> Parser.res (token * text * text * toks)) (consts : list (text * text)) (f : nat) (script : text) 
    (ts0 : toks) (l : leaf) (imp : impdata) (ts' : toks) (c : cmd),
  leaf_expr autovars switches env_errors parse_format consts f script ts0 = Parser.Ok (l, imp, ts') ->
  eof_ended ts0 ->
  lpre l = Some c ->
  exists pre rest : list token,
    ts0 = pre ++ ctok c :: rest /\
    (pre = [cur ts0] /\ peekis NOT ts0 = false \/ (exists nt : token, pre = [cur ts0; nt] /\ is NOT nt = true /\ peekis NOT ts0 = true)) /\
    is IDENT (ctok c) = true /\ cname c = tlit (ctok c) /\ lline l = tline (ctok c).
Proof. exact MarkerLines.condition_autovar_marker_site. Qed.
Print Assumptions condition_autovar_marker_site.

Theorem switch_marker_site :
  forall (autovars : list (text * autovar)) (switches : list (text * text)) (env_errors : bool)
    (parse_format : toks -> Parser.res (token * text * text * toks)) (consts : list (text * text)) (f : nat) (script : text) 
    (bs cs : list nat) (ts : toks) (ss : list stmt) (imp : impdata) (ts' : toks),
  parse_switch autovars switches env_errors parse_format consts f script bs cs ts = Parser.Ok (ss, imp, ts') ->
  eof_ended ts ->
  (peekis VAR (adv ts) = true ->
   exists (tg : nat) (operand : text) (oline : Z) (cases : list (bool * text * Z * list stmt)) (lp vr lp2 first : token) 
   (rest : list token),
     ss = [SSwitch tg operand oline cases] /\
     ts = cur ts :: lp :: vr :: lp2 :: first :: rest /\ is LPAREN lp = true /\ is VAR vr = true /\ is LPAREN lp2 = true /\ oline = tline first) /\
  (peekis VAR (adv ts) = false ->
   exists (c : cmd) (tg : nat) (operand : text) (oline : Z) (cases : list (bool * text * Z * list stmt)) (lp : token) 
   (rest : list token),
     ss = [SCmd c; SSwitch tg operand oline cases] /\
     ts = cur ts :: lp :: ctok c :: rest /\ is LPAREN lp = true /\ cname c = tlit (ctok c) /\ oline = tline (ctok c)).
Proof. exact MarkerLines.switch_marker_site. Qed.
Print Assumptions switch_marker_site.

Theorem switch_cases_marker_site :
  forall (autovars : list (text * autovar)) (switches : list (text * text)) (env_errors : bool)
    (parse_format : toks -> Parser.res (token * text * text * toks)) (consts : list (text * text)),
  (forall (ts : toks) (tk : token) (v sty : text) (ts' : toks),
   parse_format ts = Parser.Ok (tk, v, sty, ts') -> forall a : toks, advs a ts -> advs a ts') ->
  forall (f : nat) (script : text) (bs cs : list nat) (ts : toks) (ss : list stmt) (imp : impdata) (ts' : toks),
  parse_switch autovars switches env_errors parse_format consts f script bs cs ts = Parser.Ok (ss, imp, ts') ->
  eof_ended ts ->
  exists (pre : list stmt) (tg : nat) (operand : text) (oline : Z) (cases : list (bool * text * Z * list stmt)),
    ss = pre ++ [SSwitch tg operand oline cases] /\ Forall (case_marker_from consts ts) cases.
Proof. exact MarkerLines.switch_cases_marker_site. Qed.
Print Assumptions switch_cases_marker_site.

Theorem text_marker_site :
  forall (switches : list (text * text)) (env_errors : bool) (parse_format : toks -> Parser.res (token * text * text * toks)) 
    (f : nat) (ts : toks) (td : textdef) (ts' : toks),
  parse_text switches env_errors parse_format f ts = Parser.Ok (td, ts') -> xtok td = cur ts.
Proof. exact MarkerLines.text_marker_site. Qed.
Print Assumptions text_marker_site.

Theorem movement_marker_site :
  forall (switches : list (text * text)) (env_errors : bool) (f : nat) (ts : toks) (tp : top) (ts' : toks),
  parse_movement switches env_errors f ts = Parser.Ok (tp, ts') ->
  exists (name : text) (g : bool) (steps : list token), tp = TMovement name g (cur ts) steps /\ Forall (src_ident ts) steps.
Proof. exact MarkerLines.movement_marker_site. Qed.
Print Assumptions movement_marker_site.

Theorem mart_marker_site :
  forall (switches : list (text * text)) (env_errors : bool) (consts : list (text * text)) (f : nat) (ts : toks) (tp : top) (ts' : toks),
  parse_mart switches env_errors consts f ts = Parser.Ok (tp, ts') ->
  eof_ended ts ->
  exists (name : text) (g : bool) (itoks : list token),
    tp = TMart name g (cur ts) (map (subst consts) itoks) itoks /\ Forall (src_ident ts) itoks.
Proof. exact MarkerLines.mart_marker_site. Qed.
Print Assumptions mart_marker_site.

Theorem raw_marker_site :
  forall (ts : toks) (tp : top) (ts' : toks),
  parse_raw ts = Parser.Ok (tp, ts') ->
  eof_ended ts -> exists (rt : token) (rest : list token), ts = cur ts :: rt :: rest /\ is RAWSTRING rt = true /\ tp = TRaw (tlit rt) (tline rt).
Proof. exact MarkerLines.raw_marker_site. Qed.
Print Assumptions raw_marker_site.

Theorem table_entry_marker_site :
  forall (autovars : list (text * autovar)) (switches : list (text * text)) (env_errors : bool)
    (parse_format : toks -> Parser.res (token * text * text * toks)) (consts : list (text * text)),
  (forall (ts : toks) (tk : token) (v sty : text) (ts' : toks),
   parse_format ts = Parser.Ok (tk, v, sty, ts') -> forall a : toks, advs a ts -> advs a ts') ->
  forall (f : nat) (mapname tyname : text) (ts : toks) (i : nat) (acc : list tableentry) (imp : impdata) (r : list tableentry * impdata * toks),
  ms_table autovars switches env_errors parse_format consts (Datatypes.S f) mapname tyname ts i acc imp = Parser.Ok r ->
  eof_ended ts ->
  curis RBRACKET ts = false ->
  exists (e : tableentry) (imp1 : impdata) (ts1 : toks),
    teCond e = cur ts /\
    ms_table autovars switches env_errors parse_format consts f mapname tyname ts1 (Datatypes.S i) (acc ++ [e]) imp1 = Parser.Ok r.
Proof. exact MarkerLines.table_entry_marker_site. Qed.
Print Assumptions table_entry_marker_site.

Theorem program_lines_from_stream :
  forall (autovars : list (text * autovar)) (switches : list (text * text)) (env_errors : bool)
    (parse_format : toks -> Parser.res (token * text * text * toks)),
  (forall (ts : toks) (tk : token) (v sty : text) (ts' : toks),
   parse_format ts = Parser.Ok (tk, v, sty, ts') -> forall a : toks, advs a ts -> advs a ts') ->
  (forall (ts : toks) (tk : token) (v sty : text) (ts' : toks), parse_format ts = Parser.Ok (tk, v, sty, ts') -> ts <> [] -> In tk ts) ->
  forall (ts : toks) (p : program),
  parse_program autovars switches env_errors parse_format ts = Parser.Ok p -> eof_ended ts -> Forall (origin ts) (program_constructs p).
Proof. exact MarkerLines.program_lines_from_stream. Qed.
Print Assumptions program_lines_from_stream.

Theorem raw_strings_located :
  forall (is_letter_hi is_digit_hi is_space_hi : N -> bool) (s : text), Forall (raw_located s) (lex is_letter_hi is_digit_hi is_space_hi s).
Proof. exact MarkerLines.raw_strings_located. Qed.
Print Assumptions raw_strings_located.

Theorem constructs_on_source_lines :
  forall (is_letter_hi is_digit_hi is_space_hi : N -> bool) (autovars : list (text * autovar)) (switches : list (text * text))
    (env_errors : bool) (fc : fontcfg) (cli_font : text) (cli_maxlen : Z) (src : text) (prog : program),
  parse_program autovars switches env_errors (parse_format fc cli_font cli_maxlen env_errors) (lex is_letter_hi is_digit_hi is_space_hi src) =
  Parser.Ok prog ->
  Forall (fun k : construct => on_source_line src (lex is_letter_hi is_digit_hi is_space_hi src) k /\ (1 <= kline k <= 1 + nl src)%Z)
    (program_constructs prog).
Proof. exact MarkerLines.constructs_on_source_lines. Qed.
Print Assumptions constructs_on_source_lines.

Theorem markers_name_source_lines :
  forall (is_letter_hi is_digit_hi is_space_hi : N -> bool) (autovars : list (text * autovar)) (switches : list (text * text))
    (env_errors : bool) (fc : fontcfg) (cli_font : text) (cli_maxlen : Z) (opt : bool) (path src : text) (prog : program) 
    (is : list instr),
  parse_program autovars switches env_errors (parse_format fc cli_font cli_maxlen env_errors) (lex is_letter_hi is_digit_hi is_space_hi src) =
  Parser.Ok prog ->
  emit_program_instrs opt (Some path) prog = Ok is ->
  forall (pre : list instr) (l : Z) (post : list instr),
  is = pre ++ IMarker l :: post ->
  (1 <= l <= 1 + nl src)%Z /\
  (exists (k : construct) (i : instr) (post' : list instr),
     post = i :: post' /\
     In k (program_constructs prog) /\ shows k i /\ kline k = l /\ on_source_line src (lex is_letter_hi is_digit_hi is_space_hi src) k).
Proof. exact MarkerLines.markers_name_source_lines. Qed.
Print Assumptions markers_name_source_lines.

Theorem markers_in_range :
  forall (is_letter_hi is_digit_hi is_space_hi : N -> bool) (autovars : list (text * autovar)) (switches : list (text * text))
    (env_errors : bool) (fc : fontcfg) (cli_font : text) (cli_maxlen : Z) (opt : bool) (path src : text) (prog : program) 
    (is : list instr),
  parse_program autovars switches env_errors (parse_format fc cli_font cli_maxlen env_errors) (lex is_letter_hi is_digit_hi is_space_hi src) =
  Parser.Ok prog -> emit_program_instrs opt (Some path) prog = Ok is -> forall l : Z, In (IMarker l) is -> (1 <= l <= 1 + nl src)%Z.
Proof. exact MarkerLines.markers_in_range. Qed.
Print Assumptions markers_in_range.

Theorem compile_markers_name_source_lines :
  forall (is_letter_hi is_digit_hi is_space_hi : N -> bool) (autovars : list (text * autovar)) (switches : list (text * text))
    (env_errors : bool) (fc : fontcfg) (cli_font : text) (cli_maxlen : Z) (opt : bool) (path src out : text),
  Compile.compile is_letter_hi is_digit_hi is_space_hi autovars switches env_errors fc cli_font cli_maxlen opt (Some path) src =
  Compile.OutText out ->
  exists (prog : program) (is : list instr),
    parse_program autovars switches env_errors (parse_format fc cli_font cli_maxlen env_errors) (lex is_letter_hi is_digit_hi is_space_hi src) =
    Parser.Ok prog /\
    emit_program_instrs opt (Some path) prog = Ok is /\
    out = print_instrs (Some path) is /\
    (forall (pre : list instr) (l : Z) (post : list instr),
     is = pre ++ IMarker l :: post ->
     (1 <= l <= 1 + nl src)%Z /\
     (exists (k : construct) (i : instr) (post' : list instr),
        post = i :: post' /\
        In k (program_constructs prog) /\ shows k i /\ kline k = l /\ on_source_line src (lex is_letter_hi is_digit_hi is_space_hi src) k)).
Proof. exact MarkerLines.compile_markers_name_source_lines. Qed.
Print Assumptions compile_markers_name_source_lines.


(* ---- the converse: WHICH instructions have a marker (MarkerSites.v). No predicate on single instructions decides it
   (no_instruction_predicate_decides_markers: a written step_end has a marker, an added one has none); the true rule is
   positional. emit_program_sited: the -lm output is a word of a grammar: invented instructions | marker + the instruction of a
   construct | marker + first data line of a text + its further lines | AutoVar command + marker + the test of its condition.
   marker_rule / compile_marker_rule: every non-marker instruction either has a marker directly before it - naming the line of
   a construct of the program that it shows - or has none and is invented (goto, goto_if after a compare, return / end, blank,
   one of five fixed lines, a header label), a further data line of the same text, or the AutoVar command in front of its
   condition's marker. tests_switches_cases_are_marked, generated_kinds_are_unmarked, lines_are_marked, commands_are_marked,
   labels_are_marked, data_lines_marked_once. program_markers / marker_count: the markers in order and their number;
   *_from_source: the multiset of markers is the multiset of the lines of the constructs of the source bodies. ---- *)
From Coq Require Import Permutation. From Pory Require Import MarkerSites. Open Scope list_scope.
Theorem emit_script_sited :
  forall (p : text) (tl : list text) (name : text) (glob opt : bool) (body : list stmt) (is : list instr),
  emit_script (Some p) tl name glob opt body = Ok is -> sited (body_constructs body) (script_label name glob) is.
Proof. exact MarkerSites.emit_script_sited. Qed.
Print Assumptions emit_script_sited.

Theorem emit_program_sited :
  forall (opt : bool) (p : text) (prog : program) (is : list instr),
  emit_program_instrs opt (Some p) prog = Ok is -> sited (program_constructs prog) (header_label prog) is.
Proof. exact MarkerSites.emit_program_sited. Qed.
Print Assumptions emit_program_sited.

Theorem marker_rule :
  forall (opt : bool) (path : text) (prog : program) (is : list instr),
  emit_program_instrs opt (Some path) prog = Ok is ->
  forall (pre : list instr) (i : instr) (post : list instr),
  is = pre ++ i :: post ->
  notmarker i = true ->
  (exists (pre' : list instr) (l : Z) (k : construct), pre = pre' ++ [IMarker l] /\ In k (program_constructs prog) /\ kline k = l /\ shows k i) \/
  (forall (pre' : list instr) (l : Z), pre <> pre' ++ [IMarker l]) /\
  (invented (header_label prog) i \/
   (exists (pre' : list instr) (q : instr), pre = pre' ++ [q] /\ continues q i) \/ autovar_of (program_constructs prog) i post).
Proof. exact MarkerSites.marker_rule. Qed.
Print Assumptions marker_rule.

Theorem script_marker_rule :
  forall (path : text) (tl : list text) (name : text) (glob opt : bool) (body : list stmt) (is : list instr),
  emit_script (Some path) tl name glob opt body = Ok is ->
  forall (pre : list instr) (i : instr) (post : list instr),
  is = pre ++ i :: post ->
  notmarker i = true ->
  (exists (pre' : list instr) (l : Z) (k : construct), pre = pre' ++ [IMarker l] /\ In k (body_constructs body) /\ kline k = l /\ shows k i) \/
  (forall (pre' : list instr) (l : Z), pre <> pre' ++ [IMarker l]) /\
  (invented (script_label name glob) i \/
   (exists (pre' : list instr) (q : instr), pre = pre' ++ [q] /\ continues q i) \/ autovar_of (body_constructs body) i post).
Proof. exact MarkerSites.script_marker_rule. Qed.
Print Assumptions script_marker_rule.

Theorem tests_switches_cases_are_marked :
  forall (opt : bool) (path : text) (prog : program) (is : list instr),
  emit_program_instrs opt (Some path) prog = Ok is ->
  forall (pre : list instr) (i : instr) (post : list instr),
  is = pre ++ i :: post -> is_test_or_case i = true -> exists (pre' : list instr) (l : Z), pre = pre' ++ [IMarker l].
Proof. exact MarkerSites.tests_switches_cases_are_marked. Qed.
Print Assumptions tests_switches_cases_are_marked.

Theorem generated_kinds_are_unmarked :
  forall (opt : bool) (path : text) (prog : program) (is : list instr),
  emit_program_instrs opt (Some path) prog = Ok is ->
  forall (pre : list instr) (i : instr) (post : list instr),
  is = pre ++ i :: post -> is_generated_kind i = true -> forall (pre' : list instr) (l : Z), pre <> pre' ++ [IMarker l].
Proof. exact MarkerSites.generated_kinds_are_unmarked. Qed.
Print Assumptions generated_kinds_are_unmarked.

Theorem lines_are_marked :
  forall (opt : bool) (path : text) (prog : program) (is : list instr),
  emit_program_instrs opt (Some path) prog = Ok is ->
  forall (pre : list instr) (s : text) (post : list instr),
  is = pre ++ ILine s :: post -> ~ In s fixed_lines -> exists (pre' : list instr) (l : Z), pre = pre' ++ [IMarker l].
Proof. exact MarkerSites.lines_are_marked. Qed.
Print Assumptions lines_are_marked.

Theorem commands_are_marked :
  forall (opt : bool) (path : text) (prog : program) (is : list instr),
  emit_program_instrs opt (Some path) prog = Ok is ->
  forall (pre : list instr) (c : cmd) (post : list instr),
  is = pre ++ ICmd c :: post ->
  (exists (pre' : list instr) (l : Z), pre = pre' ++ [IMarker l] /\ In (KCommand c) (program_constructs prog) /\ l = tline (ctok c)) \/
  (forall (pre' : list instr) (l : Z), pre <> pre' ++ [IMarker l]) /\
  (exists (l : leaf) (j : instr) (post' : list instr),
     post = IMarker (lline l) :: j :: post' /\ In (KCond l) (program_constructs prog) /\ lpre l = Some c /\ shows (KCond l) j).
Proof. exact MarkerSites.commands_are_marked. Qed.
Print Assumptions commands_are_marked.

Theorem labels_are_marked :
  forall (opt : bool) (path : text) (prog : program) (is : list instr),
  emit_program_instrs opt (Some path) prog = Ok is ->
  forall (pre : list instr) (n : text) (g : bool) (post : list instr),
  is = pre ++ ILabel n g :: post -> ~ header_label prog n g -> exists (pre' : list instr) (l : Z), pre = pre' ++ [IMarker l].
Proof. exact MarkerSites.labels_are_marked. Qed.
Print Assumptions labels_are_marked.

Theorem data_lines_marked_once :
  forall (opt : bool) (path : text) (prog : program) (is : list instr),
  emit_program_instrs opt (Some path) prog = Ok is ->
  forall (pre : list instr) (d c : text) (post : list instr),
  is = pre ++ IData d c :: post ->
  (exists (pre' : list instr) (l : Z) (x : textdef),
     pre = pre' ++ [IMarker l] /\
     In x (texts prog) /\
     l = tline (xtok x) /\
     d =
     match xtype x with
     | [] =>
         t
           (String.String (Ascii.Ascii true true false false true true true false)
              (String.String (Ascii.Ascii false false true false true true true false)
                 (String.String (Ascii.Ascii false true false false true true true false)
                    (String.String (Ascii.Ascii true false false true false true true false)
                       (String.String (Ascii.Ascii false true true true false true true false)
                          (String.String (Ascii.Ascii true true true false false true true false) String.EmptyString))))))
     | n :: l0 => n :: l0
     end) \/ (exists (pre' : list instr) (c' : text), pre = pre' ++ [IData d c']).
Proof. exact MarkerSites.data_lines_marked_once. Qed.
Print Assumptions data_lines_marked_once.

Theorem program_markers :
  forall (opt : bool) (path : text) (prog : program) (is : list instr),
  emit_program_instrs opt (Some path) prog = Ok is -> markers_of is = program_lines opt prog.
Proof. exact MarkerSites.program_markers. Qed.
Print Assumptions program_markers.

Theorem script_markers :
  forall (path : text) (tl : list text) (name : text) (glob opt : bool) (body : list stmt) (is : list instr),
  emit_script (Some path) tl name glob opt body = Ok is -> markers_of is = script_lines opt body.
Proof. exact MarkerSites.script_markers. Qed.
Print Assumptions script_markers.

Theorem marker_count :
  forall (opt : bool) (path : text) (prog : program) (is is0 : list instr),
  emit_program_instrs opt (Some path) prog = Ok is ->
  emit_program_instrs opt None prog = Ok is0 ->
  length (markers_of is) = length (program_lines opt prog) /\ length is = length is0 + length (program_lines opt prog).
Proof. exact MarkerSites.marker_count. Qed.
Print Assumptions marker_count.

Theorem graph_sites_from_source :
  forall (body : list stmt) (w : wst),
  emit_graph body = Ok w -> Worklist.src_ok body -> Permutation (flat_map chunk_sites (finals w)) (block_sites body).
Proof. exact MarkerSites.graph_sites_from_source. Qed.
Print Assumptions graph_sites_from_source.

Theorem script_markers_from_source :
  forall (path : text) (tl : list text) (name : text) (glob opt : bool) (body : list stmt) (is : list instr),
  emit_script (Some path) tl name glob opt body = Ok is -> Worklist.src_ok body -> Permutation (markers_of is) (map kline (block_sites body)).
Proof. exact MarkerSites.script_markers_from_source. Qed.
Print Assumptions script_markers_from_source.

Theorem program_markers_from_source :
  forall (opt : bool) (path : text) (prog : program) (is : list instr),
  emit_program_instrs opt (Some path) prog = Ok is ->
  Forall Worklist.src_ok (ProgWf.bodies_of (tops prog)) -> Permutation (markers_of is) (program_src_lines prog).
Proof. exact MarkerSites.program_markers_from_source. Qed.
Print Assumptions program_markers_from_source.

Theorem program_marker_count_from_source :
  forall (opt : bool) (path : text) (prog : program) (is : list instr),
  emit_program_instrs opt (Some path) prog = Ok is ->
  Forall Worklist.src_ok (ProgWf.bodies_of (tops prog)) -> length (markers_of is) = length (program_src_lines prog).
Proof. exact MarkerSites.program_marker_count_from_source. Qed.
Print Assumptions program_marker_count_from_source.

Theorem compile_marker_rule :
  forall (is_letter_hi is_digit_hi is_space_hi : N -> bool) (autovars : list (text * autovar)) (switches : list (text * text))
    (env_errors : bool) (fc : fontcfg) (cli_font : text) (cli_maxlen : Z) (opt : bool) (path src out : text),
  Compile.compile is_letter_hi is_digit_hi is_space_hi autovars switches env_errors fc cli_font cli_maxlen opt (Some path) src =
  Compile.OutText out ->
  exists (prog : program) (is : list instr),
    parse_program autovars switches env_errors (parse_format fc cli_font cli_maxlen env_errors) (lex is_letter_hi is_digit_hi is_space_hi src) =
    Parser.Ok prog /\
    emit_program_instrs opt (Some path) prog = Ok is /\
    out = print_instrs (Some path) is /\
    markers_of is = program_lines opt prog /\
    (forall (pre : list instr) (i : instr) (post : list instr),
     is = pre ++ i :: post ->
     notmarker i = true ->
     (exists (pre' : list instr) (l : Z) (k : construct),
        pre = pre' ++ [IMarker l] /\ In k (program_constructs prog) /\ kline k = l /\ shows k i) \/
     (forall (pre' : list instr) (l : Z), pre <> pre' ++ [IMarker l]) /\
     (invented (header_label prog) i \/
      (exists (pre' : list instr) (q : instr), pre = pre' ++ [q] /\ continues q i) \/ autovar_of (program_constructs prog) i post)).
Proof. exact MarkerSites.compile_marker_rule. Qed.
Print Assumptions compile_marker_rule.

Theorem compile_markers_from_source :
  forall (is_letter_hi is_digit_hi is_space_hi : N -> bool) (autovars : list (text * autovar)) (switches : list (text * text))
    (env_errors : bool) (fc : fontcfg) (cli_font : text) (cli_maxlen : Z) (opt : bool) (path src out : text),
  Compile.compile is_letter_hi is_digit_hi is_space_hi autovars switches env_errors fc cli_font cli_maxlen opt (Some path) src =
  Compile.OutText out ->
  exists (prog : program) (is : list instr),
    parse_program autovars switches env_errors (parse_format fc cli_font cli_maxlen env_errors) (lex is_letter_hi is_digit_hi is_space_hi src) =
    Parser.Ok prog /\
    emit_program_instrs opt (Some path) prog = Ok is /\
    out = print_instrs (Some path) is /\ Permutation (markers_of is) (program_src_lines prog).
Proof. exact MarkerSites.compile_markers_from_source. Qed.
Print Assumptions compile_markers_from_source.

