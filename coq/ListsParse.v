(* C14 - movement and mart lists: the parser side for plain (poryswitch-free) lists, the composition with the emitter,
   and moves(...) inside a command.  Everything is about the model's own functions: Parser.list_value (kinds LMov c /
   LMart) = movement_value / mart_value, moves_operator, parse_movement, parse_mart, command_args, Emitter.emit_steps,
   emit_movement, emit_items, emit_mart, emit_top, emit_program_instrs.

   SOURCE GRAMMAR (token lists; the lexer has no newline token, so line breaks play no role)
     step_list   steps ::= ( IDENT | IDENT '*' INT | ',' )*      commas: optional, anywhere a step may stand, any number
     item_list   items ::= IDENT*                                 mart: NO commas, no multipliers (= Go parseMartValue)
     multipliers src = the INT tokens of src;  mult_ok n: go_parse_int (tlit n) = Some k with 1 <= k <= 9999
     expand src  = every step in source order, 'x * n' as (mult n) copies of the TOKEN x, commas dropped
     closing token c: '}' (statement) or ')' (moves());  stmt_header: KEYWORD [ '(' global|local ')' ] NAME '{'
     list_stop c rest v: how the plain part ends - closing token (v = None) or offending token b and message (Some (b,msg))

   MAIN THEOREMS
   (a) movement lists
     movement_list_accepted            grammar + multipliers ok + closing token => Ok (acc ++ expand src), stops ON the closing token
     movement_list_prefix              a grammatical prefix is consumed (1 fuel per step/comma) and expanded, whatever follows
     movement_list_rejected            behind a legal prefix the error is err_tok b msg for the offending token b of list_stop:
                                         'x * b', b not INT -> at b;  'x * n', n unreadable / <= 0 / > 9999 -> at n;
                                         any token that is not closing, poryswitch, IDENT, ',' -> at that token
     multiplier_out_of_range_rejected, multiplier_not_a_number_rejected, star_without_step_rejected,
     unclosed_movement_list_rejected   the cases named in the property, located
     movement_list_decided             EXACTNESS: every EOF-ended stream = legal plain prefix ++ rest, and the answer is
                                         exactly Ok (expansion, rest) / err_tok b msg / "a poryswitch stands at rest"
     movement_list_sound (+ _no_poryswitch)   accepted without meeting a poryswitch => in the grammar, multipliers ok, result = expansion
     movement_list_sound_poryswitch    ALL accepted lists: the erased source (PorySwitchLists.list_erase) is in the
                                         grammar with legal multipliers and the result is its expansion
     movement_list_unique              the list is the stretch up to the first closing token
     commas_are_irrelevant             removing the commas changes neither grammaticality nor multipliers nor expansion
     decimal_literal_value, decimal_multiplier_ok   a decimal literal (no leading 0) reads as its decimal value: accepted iff 1..9999
   (b) mart lists
     mart_list_accepted / _rejected / _decided / _sound / _sound_poryswitch   the same; result = the identifier tokens themselves;
                                         every other token (a comma too) is rejected, located at it
   (c) statements and emitter
     parse_movement_header, parse_mart_header      statement parser = header, then list_value on the body (errors included)
     movement_statement_accepted / _rejected / _sound, mart_statement_accepted / _rejected / _sound
     emit_steps_unterminated / _terminated         no step_end: all steps + exactly one step_end; else up to and including
                                                   the FIRST step_end, nothing after it (any line-marker setting)
     emit_items_unterminated / _terminated         the items before the first whose VALUE (after constant substitution) is ITEM_NONE
     movement_statement_compiles_unterminated / _terminated, mart_statement_compiles_unterminated / _terminated
                                                   source tokens -> emitted block, in one statement
     program_movement_statements, program_mart_statements   every author-written movement/mart top of an accepted program is
                                                   such a parse (steps = expand of a grammatical erased body)
     program_output_has_block, program_movement_block, program_mart_block   the block is in the program's output
   (d) moves(...) inside a command
     moves_operator_accepted / _rejected / _sound, command_args_at_moves (error = error of the list)
     moves_piece_wf                    moves(steps) is a legal argument piece of CmdArgs.v with movement list expand src
     moves_argument_becomes_label      after hoisting/patching the argument is the label l of the final movement table for
                                         the key of the expansion
     hoisted_moves_block, hoisted_moves_lines   that label is defined exactly once in the program, as a local movement with
                                         the step literals of the expansion; its block (terminated as in (c)) is in the output
     movement_table_grows             the table only grows during parse_tops: the label given when the script was hoisted
                                         (h' above; parse_tops continues with ph := h') is the label in the final table (ph st)
   NOT PROVED: moves_argument_becomes_label and hoisted_moves_block are not composed into ONE statement about a whole
   program text (the glue is the SCRIPT case of parse_tops and movement_table_grows); "identifiers contain no ':'" is a
   hypothesis of hoisted_moves_block (a lexer fact), needed because the table is keyed by literals joined with ':'.
   Examples (module Examples): hypotheses satisfiable on lexed input; octal 'a * 010' = 8 copies; 9999/10000/0/-1;
   '*' without step; mart comma rejected; tails behind step_end / ITEM_NONE are still syntax-checked; whole program with moves(). *)
From Coq Require Import List String Ascii ZArith NArith Lia Bool.
From Pory Require Import Lexer Ast Emitter Props1 TopProps Parser Consume PorySwitchLists.
From Pory Require CmdArgs Hoisting.
Import ListNotations.
Open Scope string_scope.
Open Scope list_scope.


(* ================================================================================================================ *)
(* 1. The source grammar of a plain step list (token level)                                                        *)
(* ================================================================================================================ *)

(* steps ::= ( IDENT | IDENT '*' INT | ',' )*
   Commas are optional and may stand anywhere where a step may stand (also leading, trailing, repeated); the lexer has
   no newline token, so line breaks play no role.  A '*' can only stand directly behind a step identifier. *)
Inductive step_list : list token -> Prop :=
| sl_nil : step_list []
| sl_step x s : ttype x = IDENT -> step_list s -> step_list (x :: s)
| sl_mul x m n s : ttype x = IDENT -> ttype m = MUL -> ttype n = INT -> step_list s -> step_list (x :: m :: n :: s)
| sl_comma c s : ttype c = COMMA -> step_list s -> step_list (c :: s).

(* the multipliers of a list are its INT tokens; each must read (strconv.ParseInt(.,0,64)) as a number in 1..9999 *)
Definition mult_ok (n : token) : Prop := exists k, go_parse_int (tlit n) = Some k /\ (1 <= k <= 9999)%Z.
Definition multipliers (src : list token) : list token := filter (is INT) src.
Definition mults_ok (src : list token) : Prop := Forall mult_ok (multipliers src).

(* the number a multiplier token stands for *)
Definition mult (n : token) : nat := match go_parse_int (tlit n) with Some k => Z.to_nat k | None => O end.

(* the expansion of a source list: every step in source order, 'x * n' as n copies of the token x, commas dropped *)
Fixpoint expand (src : list token) : list token :=
  match src with
  | [] => []
  | x :: s =>
      if is IDENT x then
        match s with
        | m :: n :: r => if is MUL m then repeat x (mult n) ++ expand r else x :: expand s
        | _ => x :: expand s
        end
      else expand s
  end.

(* fuel: one unit per step and per comma *)
Definition nelems (src : list token) : nat := List.length (filter (fun tk => negb (is MUL tk || is INT tk)) src).

(* ---------- small facts ---------- *)
Lemma is_true ty x : ttype x = ty -> is ty x = true.
Proof. intros <-. apply tt_eqb_refl. Qed.
Lemma is_false ty x : ttype x <> ty -> is ty x = false.
Proof. intros H. apply tt_eqb_false. exact H. Qed.
Lemma is_inv ty x : is ty x = true -> ttype x = ty.
Proof. apply tt_eqb_true. Qed.
Lemma is_inv_false ty x : is ty x = false -> ttype x <> ty.
Proof. intros H E. rewrite (is_true _ _ E) in H. discriminate. Qed.
Lemma cur_cons (x : token) l : cur (x :: l) = x. Proof. reflexivity. Qed.
Lemma curis_is ty (x : token) l : curis ty (x :: l) = is ty x. Proof. reflexivity. Qed.

Lemma expand_nil : expand [] = []. Proof. reflexivity. Qed.
Lemma expand_step x s : ttype x = IDENT -> (forall m r, s = m :: r -> ttype m <> MUL) -> expand (x :: s) = x :: expand s.
Proof.
  intros Hx N. cbn [expand]. rewrite (is_true _ _ Hx). destruct s as [|m [|n r]]; [reflexivity|reflexivity|].
  rewrite (is_false MUL m (N m _ eq_refl)). reflexivity.
Qed.
Lemma expand_mul x m n s : ttype x = IDENT -> ttype m = MUL -> expand (x :: m :: n :: s) = repeat x (mult n) ++ expand s.
Proof. intros Hx Hm. cbn [expand]. rewrite (is_true _ _ Hx), (is_true _ _ Hm). reflexivity. Qed.
Lemma expand_comma c s : ttype c = COMMA -> expand (c :: s) = expand s.
Proof. intros Hc. cbn [expand]. rewrite (is_false IDENT c) by (rewrite Hc; discriminate). reflexivity. Qed.

(* the head of a non-empty step list is never a '*' *)
Lemma step_list_head s : step_list s -> forall m r, s = m :: r -> ttype m <> MUL.
Proof. intros S m r E. destruct S; inversion E; subst; congruence. Qed.

Lemma expand_step_list_step x s : ttype x = IDENT -> step_list s -> expand (x :: s) = x :: expand s.
Proof. intros Hx S. apply expand_step; [exact Hx|apply step_list_head; exact S]. Qed.

Lemma step_list_app a b : step_list a -> step_list b -> step_list (a ++ b).
Proof. induction 1; intros B; cbn [app]; [exact B|apply sl_step; auto|apply sl_mul; auto|apply sl_comma; auto]. Qed.

Lemma expand_app a b : step_list a -> step_list b -> expand (a ++ b) = expand a ++ expand b.
Proof.
  intros A B. induction A as [|x s Hx S IH|x m n s Hx Hm Hn S IH|c s Hc S IH]; cbn [app].
  - reflexivity.
  - rewrite (expand_step_list_step x (s ++ b) Hx (step_list_app _ _ S B)), (expand_step_list_step x s Hx S), IH. reflexivity.
  - rewrite !(expand_mul x m n _ Hx Hm), IH, app_assoc. reflexivity.
  - rewrite !(expand_comma c _ Hc). exact IH.
Qed.

(* what the expansion consists of: only step identifiers of the source *)
Lemma expand_idents src : step_list src -> Forall (fun x => ttype x = IDENT /\ In x src) (expand src).
Proof.
  induction 1 as [|x s Hx S IH|x m n s Hx Hm Hn S IH|c s Hc S IH].
  - constructor.
  - rewrite (expand_step_list_step x s Hx S). constructor; [split; [exact Hx|now left]|].
    eapply Forall_impl; [|exact IH]. intros y [H1 H2]. split; [exact H1|now right].
  - rewrite (expand_mul x m n s Hx Hm). apply Forall_app. split.
    + apply Forall_forall. intros y Hy. apply repeat_spec in Hy. subst y. split; [exact Hx|now left].
    + eapply Forall_impl; [|exact IH]. intros y [H1 H2]. split; [exact H1|right; right; now right].
  - rewrite (expand_comma c s Hc). eapply Forall_impl; [|exact IH]. intros y [H1 H2]. split; [exact H1|now right].
Qed.

Lemma multipliers_step x s : ttype x = IDENT -> multipliers (x :: s) = multipliers s.
Proof. intros H. unfold multipliers. cbn [filter]. rewrite (is_false INT x) by (rewrite H; discriminate). reflexivity. Qed.
Lemma multipliers_comma x s : ttype x = COMMA -> multipliers (x :: s) = multipliers s.
Proof. intros H. unfold multipliers. cbn [filter]. rewrite (is_false INT x) by (rewrite H; discriminate). reflexivity. Qed.
Lemma multipliers_mul x m n s : ttype x = IDENT -> ttype m = MUL -> ttype n = INT -> multipliers (x :: m :: n :: s) = n :: multipliers s.
Proof.
  intros Hx Hm Hn. unfold multipliers. cbn [filter].
  rewrite (is_false INT x) by (rewrite Hx; discriminate). rewrite (is_false INT m) by (rewrite Hm; discriminate).
  rewrite (is_true INT n Hn). reflexivity.
Qed.
Lemma nelems_step x s : ttype x = IDENT -> nelems (x :: s) = S (nelems s).
Proof.
  intros H. unfold nelems. cbn [filter]. rewrite (is_false INT x), (is_false MUL x) by (rewrite H; discriminate). reflexivity.
Qed.
Lemma nelems_comma x s : ttype x = COMMA -> nelems (x :: s) = S (nelems s).
Proof.
  intros H. unfold nelems. cbn [filter]. rewrite (is_false INT x), (is_false MUL x) by (rewrite H; discriminate). reflexivity.
Qed.
Lemma nelems_mul x m n s : ttype x = IDENT -> ttype m = MUL -> ttype n = INT -> nelems (x :: m :: n :: s) = S (nelems s).
Proof.
  intros Hx Hm Hn. unfold nelems. cbn [filter].
  rewrite (is_false INT x), (is_false MUL x) by (rewrite Hx; discriminate).
  rewrite (is_true MUL m Hm). rewrite (is_true INT n Hn), orb_true_r. reflexivity.
Qed.
Lemma nelems_le src : (nelems src <= List.length src)%nat.
Proof.
  unfold nelems. induction src as [|x s IH]; [apply le_n|]. cbn [filter List.length].
  destruct (negb _); cbn [List.length]; lia.
Qed.

(* the tokens of a step list *)
Lemma step_list_types src : step_list src ->
  Forall (fun x => ttype x = IDENT \/ ttype x = MUL \/ ttype x = INT \/ ttype x = COMMA) src.
Proof. induction 1; repeat (apply Forall_cons; [tauto|]); [apply Forall_nil|assumption..]. Qed.

(* what may follow a list: a '*' must not stand behind a list that ends with a plain step (it would belong to it) *)
Definition follows_ok (src : list token) (nxt : token) : Prop :=
  ttype nxt = MUL -> forall s x, src = s ++ [x] -> ttype x <> IDENT.

Lemma follows_ok_not_mul src nxt : ttype nxt <> MUL -> follows_ok src nxt.
Proof. intros N M. contradiction. Qed.
Lemma follows_ok_nil nxt : follows_ok [] nxt.
Proof. intros _ s x E. destruct s; discriminate. Qed.
Lemma follows_ok_tail a s nxt : follows_ok (a ++ s) nxt -> follows_ok s nxt.
Proof. intros F M s' x E. apply (F M (a ++ s') x). rewrite E, app_assoc. reflexivity. Qed.
Lemma follows_ok_last src z nxt : ttype z <> IDENT -> follows_ok (src ++ [z]) nxt.
Proof. intros N _ s x E. apply app_inj_tail in E. destruct E as [_ <-]. exact N. Qed.

(* a list that does not end with a step identifier may be followed by anything *)
Definition no_open_step (src : list token) : Prop := forall s x, src = s ++ [x] -> ttype x <> IDENT.
Lemma no_open_step_follows src nxt : no_open_step src -> follows_ok src nxt.
Proof. intros H _. exact H. Qed.

(* ================================================================================================================ *)
(* 2. The movement list parser on plain lists                                                                      *)
(* ================================================================================================================ *)
Definition closing (c : toktype) : Prop := c = RBRACE \/ c = RPAREN.

(* how the plain part of a list ends: with the closing token (None), or with an offending token and the error reported
   at it (Some (token, message)) *)
Inductive list_stop (c : toktype) : toks -> option (token * string) -> Prop :=
| stop_close rest : ttype (cur rest) = c -> list_stop c rest None
| stop_nonint x m b r : ttype x = IDENT -> ttype m = MUL -> ttype b <> INT ->
    list_stop c (x :: m :: b :: r) (Some (b, "expected mulplier number for movement command"))
| stop_noparse x m n r : ttype x = IDENT -> ttype m = MUL -> ttype n = INT -> go_parse_int (tlit n) = None ->
    list_stop c (x :: m :: n :: r) (Some (n, "invalid movement mulplier integer"))
| stop_nonpos x m n r k : ttype x = IDENT -> ttype m = MUL -> ttype n = INT -> go_parse_int (tlit n) = Some k -> (k <= 0)%Z ->
    list_stop c (x :: m :: n :: r) (Some (n, "movement mulplier must be a positive integer"))
| stop_large x m n r k : ttype x = IDENT -> ttype m = MUL -> ttype n = INT -> go_parse_int (tlit n) = Some k -> (9999 < k)%Z ->
    list_stop c (x :: m :: n :: r) (Some (n, "movement mulplier is too large"))
| stop_unexpected rest :
    ttype (cur rest) <> c -> ttype (cur rest) <> PORYSWITCH -> ttype (cur rest) <> IDENT -> ttype (cur rest) <> COMMA ->
    list_stop c rest (Some (cur rest, "expected movement command")).

Lemma follows_ok_app a src nxt : follows_ok src nxt -> (src = [] -> follows_ok a nxt) -> follows_ok (a ++ src) nxt.
Proof.
  intros H1 H2 M s x E. destruct src as [|y src'].
  - rewrite app_nil_r in E. exact (H2 eq_refl M s x E).
  - destruct (@exists_last _ (y :: src') ltac:(discriminate)) as (l' & z & EL). rewrite EL, app_assoc in E.
    apply app_inj_tail in E. destruct E as [_ <-]. exact (H1 M l' z EL).
Qed.

Ltac tts :=
  repeat match goal with
  | |- context [tt_eqb ?a ?a] => rewrite (tt_eqb_refl a)
  | |- context [tt_eqb ?a ?b] => rewrite (tt_eqb_false a b) by discriminate
  end.
(* decide the token tests on a head token whose type is known: H : ttype x = T *)
Ltac known x H := unfold is; rewrite ?H; tts; fold (is MUL); fold (is INT).

Section MOVLIST.
Variable switches : list (text * text).
Variable env_errors : bool.
Notation list_value := (Parser.list_value switches env_errors).

Lemma list_value_0 k multi ts acc : list_value 0 k multi ts acc = Fuel.
Proof. reflexivity. Qed.

(* ---------- one step of the loop, for each form of the head of the stream ---------- *)
Lemma lv_close f c multi ts acc : ttype (cur ts) = c -> list_value (S f) (LMov c) multi ts acc = Parser.Ok (acc, ts).
Proof. intros H. rewrite list_value_unfold. cbv zeta. unfold curis. rewrite (is_true _ _ H). reflexivity. Qed.

Lemma lv_step f c x y r acc : closing c -> ttype x = IDENT -> ttype y <> MUL ->
  list_value (S f) (LMov c) true (x :: y :: r) acc = list_value f (LMov c) true (y :: r) (acc ++ [x]).
Proof.
  intros CK Hx Hy. rewrite list_value_unfold. cbv zeta. rewrite !curis_is, cur_cons.
  rewrite (adv_cons x (y :: r)) by discriminate. rewrite curis_is. rewrite (is_false MUL y Hy).
  destruct CK as [-> | ->]; unfold is; rewrite Hx; tts; reflexivity.
Qed.

Lemma lv_comma f c x y r acc : closing c -> ttype x = COMMA ->
  list_value (S f) (LMov c) true (x :: y :: r) acc = list_value f (LMov c) true (y :: r) acc.
Proof.
  intros CK Hx. rewrite list_value_unfold. cbv zeta. rewrite !curis_is.
  rewrite (adv_cons x (y :: r)) by discriminate.
  destruct CK as [-> | ->]; unfold is; rewrite Hx; tts; reflexivity.
Qed.

(* the four tests on the token behind '*' *)
Lemma lv_star f c x m n r acc (multi : bool) : closing c -> ttype x = IDENT -> ttype m = MUL ->
  list_value (S f) (LMov c) multi (x :: m :: n :: r) acc =
    if negb (is INT n) then err_tok n "expected mulplier number for movement command" else
    match go_parse_int (tlit n) with
    | None => err_tok n "invalid movement mulplier integer"
    | Some k => if (k <=? 0)%Z then err_tok n "movement mulplier must be a positive integer"
                else if (k >? 9999)%Z then err_tok n "movement mulplier is too large"
                else if multi then list_value f (LMov c) multi (adv (n :: r)) (acc ++ repeat x (Z.to_nat k))
                     else Parser.Ok (acc ++ repeat x (Z.to_nat k), adv (n :: r))
    end.
Proof.
  intros CK Hx Hm. rewrite list_value_unfold. cbv zeta. rewrite !curis_is, cur_cons.
  rewrite (adv_cons x (m :: n :: r)) by discriminate. rewrite curis_is. rewrite (is_true MUL m Hm).
  rewrite (adv_cons m (n :: r)) by discriminate. rewrite curis_is, cur_cons.
  destruct CK as [-> | ->]; unfold is at 1 2 3; rewrite Hx; tts; (destruct (negb (is INT n)); [reflexivity|]);
    (destruct (go_parse_int (tlit n)) as [k|]; [|reflexivity]); rewrite repeat_tok_spec; reflexivity.
Qed.

Lemma lv_unexpected f c multi ts acc :
  ttype (cur ts) <> c -> ttype (cur ts) <> PORYSWITCH -> ttype (cur ts) <> IDENT -> ttype (cur ts) <> COMMA ->
  list_value (S f) (LMov c) multi ts acc = err_tok (cur ts) "expected movement command".
Proof. intros H1 H2 H3 H4. rewrite list_value_unfold. cbv zeta. unfold curis. rewrite !is_false by assumption. reflexivity. Qed.

Lemma mult_ok_tests n : mult_ok n ->
  exists k, go_parse_int (tlit n) = Some k /\ (k <=? 0)%Z = false /\ (k >? 9999)%Z = false /\ mult n = Z.to_nat k /\ (1 <= k <= 9999)%Z.
Proof.
  intros (k & G & R). exists k. split; [exact G|]. split; [apply Z.leb_gt; lia|]. split; [|split; [unfold mult; rewrite G; reflexivity|exact R]].
  destruct (Z.gtb_spec k 9999); [lia|reflexivity].
Qed.

Lemma head_after_step x s rest : ttype x = IDENT -> step_list s -> rest <> [] -> follows_ok (x :: s) (cur rest) ->
  exists y r, s ++ rest = y :: r /\ ttype y <> MUL.
Proof.
  intros Hx S NE FO. destruct s as [|y s'].
  - destruct rest as [|y r]; [congruence|]. exists y, r. split; [reflexivity|]. intros M. exact (FO M [] x eq_refl Hx).
  - exists y, (s' ++ rest). split; [reflexivity|]. eapply step_list_head; [exact S|reflexivity].
Qed.

(* THE PREFIX EQUATION: a grammatical list with legal multipliers at the head of the stream is consumed, one unit of fuel
   per step / comma, and its expansion is appended to what was collected before *)
Lemma plain_prefix_run c src : closing c -> step_list src -> mults_ok src ->
  forall rest acc f, rest <> [] -> follows_ok src (cur rest) ->
    list_value f (LMov c) true (src ++ rest) acc = list_value (f - nelems src) (LMov c) true rest (acc ++ expand src).
Proof.
  intros CK S. induction S as [|x s Hx S IH|x m n s Hx Hm Hn S IH|cm s Hc S IH]; intros MO rest acc f NE FO.
  - cbn [app]. rewrite expand_nil, app_nil_r. change (nelems []) with O. rewrite Nat.sub_0_r. reflexivity.
  - rewrite (nelems_step x s Hx), (expand_step_list_step x s Hx S). destruct f as [|f]; [reflexivity|].
    cbn [Nat.sub app]. destruct (head_after_step x s rest Hx S NE FO) as (y & r & E & Hy).
    rewrite E, (lv_step _ _ _ _ _ _ CK Hx Hy), <- E.
    unfold mults_ok in MO. rewrite (multipliers_step x s Hx) in MO.
    rewrite (IH MO rest _ f NE (follows_ok_tail [x] s _ FO)), <- app_assoc. reflexivity.
  - rewrite (nelems_mul x m n s Hx Hm Hn), (expand_mul x m n s Hx Hm). destruct f as [|f]; [reflexivity|].
    cbn [Nat.sub app]. rewrite (lv_star _ _ _ _ _ _ _ _ CK Hx Hm).
    unfold mults_ok in MO. rewrite (multipliers_mul x m n s Hx Hm Hn) in MO.
    destruct (mult_ok_tests n (Forall_inv MO)) as (k & G & T1 & T2 & EM & _).
    rewrite (is_true INT n Hn), G, T1, T2. cbn [negb]. rewrite (adv_cons n (s ++ rest) (app_nonempty _ _ NE)).
    rewrite (IH (Forall_inv_tail MO) rest _ f NE (follows_ok_tail [x; m; n] s _ FO)), <- app_assoc, EM. reflexivity.
  - rewrite (nelems_comma cm s Hc), (expand_comma cm s Hc). destruct f as [|f]; [reflexivity|].
    cbn [Nat.sub app]. pose proof (app_nonempty s rest NE) as NE2. destruct (s ++ rest) as [|y r] eqn:E; [congruence|].
    rewrite (lv_comma _ _ _ _ _ _ CK Hc), <- E.
    unfold mults_ok in MO. rewrite (multipliers_comma cm s Hc) in MO.
    exact (IH MO rest acc f NE (follows_ok_tail [cm] s _ FO)).
Qed.

(* the outcome at the end of the plain part *)
Lemma list_stop_result c rest v : closing c -> list_stop c rest v -> forall f acc multi,
  list_value (S f) (LMov c) multi rest acc =
    match v with None => Parser.Ok (acc, rest) | Some (b, msg) => err_tok b msg end.
Proof.
  intros CK ST f acc multi. destruct ST as [rest H|x m b r Hx Hm Hb|x m n r Hx Hm Hn G|x m n r k Hx Hm Hn G K|x m n r k Hx Hm Hn G K|rest H1 H2 H3 H4].
  - apply lv_close. exact H.
  - rewrite (lv_star _ _ _ _ _ _ _ _ CK Hx Hm), (is_false INT b Hb). reflexivity.
  - rewrite (lv_star _ _ _ _ _ _ _ _ CK Hx Hm), (is_true INT n Hn), G. reflexivity.
  - rewrite (lv_star _ _ _ _ _ _ _ _ CK Hx Hm), (is_true INT n Hn), G. cbn [negb].
    destruct (Z.leb_spec k 0); [reflexivity|lia].
  - rewrite (lv_star _ _ _ _ _ _ _ _ CK Hx Hm), (is_true INT n Hn), G. cbn [negb].
    destruct (Z.leb_spec k 0); [lia|]. destruct (Z.gtb_spec k 9999); [reflexivity|lia].
  - apply lv_unexpected; assumption.
Qed.
End MOVLIST.

(* ---------- every stream splits into its plain list prefix and the point where the plain part stops ---------- *)
Lemma eof_ended_cons ts : eof_ended ts -> exists x r, ts = x :: r.
Proof. intros [N _]. destruct ts as [|x r]; [congruence|eauto]. Qed.

Lemma plain_list_decomposition c : closing c -> forall N ts, (List.length ts <= N)%nat -> eof_ended ts ->
  exists src rest, ts = src ++ rest /\ step_list src /\ mults_ok src /\ follows_ok src (cur rest) /\ eof_ended rest /\
    (ttype (cur rest) = PORYSWITCH \/ exists v, list_stop c rest v).
Proof.
  intros CK. induction N as [|N IH]; intros ts LE EO.
  { destruct (eof_ended_cons ts EO) as (x & r & ->). cbn in LE. lia. }
  assert (TRIV : forall v, list_stop c ts v -> exists src rest, ts = src ++ rest /\ step_list src /\ mults_ok src /\
             follows_ok src (cur rest) /\ eof_ended rest /\ (ttype (cur rest) = PORYSWITCH \/ exists v, list_stop c rest v)).
  { intros v ST. exists [], ts. split; [reflexivity|]. split; [constructor|]. split; [constructor|]. split; [apply follows_ok_nil|].
    split; [exact EO|]. right. exists v. exact ST. }
  destruct (toktype_eq_dec (ttype (cur ts)) c) as [C|C]; [eapply TRIV, stop_close; exact C|].
  destruct (toktype_eq_dec (ttype (cur ts)) PORYSWITCH) as [P|P].
  { exists [], ts. split; [reflexivity|]. split; [constructor|]. split; [constructor|]. split; [apply follows_ok_nil|]. split; [exact EO|]. left. exact P. }
  destruct (toktype_eq_dec (ttype (cur ts)) IDENT) as [I|I].
  - destruct (eof_ended_step ts EO ltac:(rewrite I; discriminate)) as [E1 EO1].
    set (x := cur ts) in *. set (ts1 := adv ts) in *.
    assert (L1 : (List.length ts1 <= N)%nat) by (rewrite E1 in LE; cbn [List.length] in LE; lia).
    destruct (toktype_eq_dec (ttype (cur ts1)) MUL) as [M|M].
    + destruct (eof_ended_step ts1 EO1 ltac:(rewrite M; discriminate)) as [E2 EO2].
      set (m := cur ts1) in *. set (ts2 := adv ts1) in *.
      destruct (eof_ended_cons ts2 EO2) as (n & r & E3).
      destruct (toktype_eq_dec (ttype n) INT) as [HI|HI].
      * destruct (go_parse_int (tlit n)) as [k|] eqn:G.
        -- destruct (Z_le_gt_dec k 0) as [K1|K1]; [eapply TRIV; rewrite E1, E2, E3; eapply stop_nonpos; eassumption|].
           destruct (Z_le_gt_dec k 9999) as [K2|K2]; [|eapply TRIV; rewrite E1, E2, E3; eapply stop_large; try eassumption; lia].
           assert (NE : ttype (cur ts2) <> EOF) by (rewrite E3; cbn [cur hd]; rewrite HI; discriminate).
           destruct (eof_ended_step ts2 EO2 NE) as [E4 EO3]. rewrite E3 in E4 at 2. cbn [cur hd] in E4.
           assert (L3 : (List.length (adv ts2) <= N)%nat).
           { rewrite E2 in L1. cbn [List.length] in L1. rewrite E4 in L1. cbn [List.length] in L1. lia. }
           destruct (IH (adv ts2) L3 EO3) as (src & rest & ES & S & MO & FO & EOR & V).
           exists (x :: m :: n :: src), rest. split; [rewrite E1 at 1; rewrite E2 at 1; rewrite E4 at 1; rewrite ES at 1; reflexivity|].
           split; [apply sl_mul; assumption|]. split.
           { unfold mults_ok. rewrite (multipliers_mul x m n src I M HI). constructor; [exists k; split; [exact G|lia]|exact MO]. }
           split; [|split; [exact EOR|exact V]].
           apply (follows_ok_app [x; m; n] src); [exact FO|]. intros _. apply (follows_ok_last [x; m] n). rewrite HI. discriminate.
        -- eapply TRIV. rewrite E1, E2, E3. eapply stop_noparse; eassumption.
      * eapply TRIV. rewrite E1, E2, E3. eapply stop_nonint; eassumption.
    + destruct (IH ts1 L1 EO1) as (src & rest & ES & S & MO & FO & EOR & V).
      exists (x :: src), rest. split; [rewrite E1 at 1; rewrite ES at 1; reflexivity|].
      split; [apply sl_step; assumption|]. split; [unfold mults_ok; rewrite (multipliers_step x src I); exact MO|].
      split; [|split; [exact EOR|exact V]].
      apply (follows_ok_app [x] src); [exact FO|]. intros ->. cbn [app] in ES. rewrite <- ES. apply follows_ok_not_mul. exact M.
  - destruct (toktype_eq_dec (ttype (cur ts)) COMMA) as [K|K]; [|eapply TRIV, stop_unexpected; assumption].
    destruct (eof_ended_step ts EO ltac:(rewrite K; discriminate)) as [E1 EO1].
    assert (L1 : (List.length (adv ts) <= N)%nat) by (rewrite E1 in LE; cbn [List.length] in LE; lia).
    destruct (IH (adv ts) L1 EO1) as (src & rest & ES & S & MO & FO & EOR & V).
    exists (cur ts :: src), rest. split; [rewrite E1 at 1; rewrite ES at 1; reflexivity|].
    split; [apply sl_comma; assumption|]. split; [unfold mults_ok; rewrite (multipliers_comma _ src K); exact MO|].
    split; [|split; [exact EOR|exact V]].
    apply (follows_ok_app [cur ts] src); [exact FO|]. intros _. apply (follows_ok_last [] (cur ts)). rewrite K. discriminate.
Qed.

(* ================================================================================================================ *)
(* 3. Main theorems for movement lists ([list_value] with kind [LMov c]: c = '}' for the statement, ')' for moves())  *)
(* ================================================================================================================ *)
Lemma closing_not_mul_tok c cl : closing c -> ttype cl = c -> ttype cl <> MUL.
Proof. intros [-> | ->] H; rewrite H; discriminate. Qed.

(* M1. COMPLETENESS and the value: a list of the grammar whose multipliers all read as numbers in 1..9999, followed by
   the closing token, is accepted; the result is the expansion, appended to what was collected before; the parser stops
   ON the closing token.  One unit of fuel per step / comma plus one. *)
Theorem movement_list_accepted : forall switches env_errors c src cl rest acc f,
  closing c -> step_list src -> mults_ok src -> ttype cl = c -> (nelems src < f)%nat ->
  list_value switches env_errors f (LMov c) true (src ++ cl :: rest) acc = Parser.Ok (acc ++ expand src, cl :: rest).
Proof.
  intros sw ee c src cl rest acc f CK S MO Hc LF.
  rewrite (plain_prefix_run sw ee c src CK S MO (cl :: rest) acc f ltac:(discriminate)
             (follows_ok_not_mul _ _ (closing_not_mul_tok c cl CK Hc))).
  destruct (f - nelems src)%nat as [|f'] eqn:E; [lia|]. apply lv_close. exact Hc.
Qed.

(* M2. the plain prefix is consumed and expanded, whatever follows it (another poryswitch, the end, an error) *)
Theorem movement_list_prefix : forall switches env_errors c src rest acc f,
  closing c -> step_list src -> mults_ok src -> rest <> [] -> follows_ok src (cur rest) ->
  list_value switches env_errors f (LMov c) true (src ++ rest) acc =
  list_value switches env_errors (f - nelems src) (LMov c) true rest (acc ++ expand src).
Proof. intros sw ee c src rest acc f CK S MO NE FO. apply plain_prefix_run; assumption. Qed.

(* M3. REJECTION: behind a legal plain prefix, the list stops at an offending token ([list_stop]): the result is the
   error with that message, located at that token:
     'x * b'  with b not an INT token (also: the closing token, the end of file)            -> at b
     'x * n'  with n an INT token that does not read as a 64-bit integer                       -> at n
     'x * n'  with n <= 0, with n > 9999                                                       -> at n
     any token that is neither the closing token nor 'poryswitch' nor IDENT nor ','            -> at that token
       (in particular a '*' that does not stand behind a step identifier, and the end of file) *)
Theorem movement_list_rejected : forall switches env_errors c src rest b msg acc f,
  closing c -> step_list src -> mults_ok src -> rest <> [] -> follows_ok src (cur rest) ->
  list_stop c rest (Some (b, msg)) -> (nelems src < f)%nat ->
  list_value switches env_errors f (LMov c) true (src ++ rest) acc = err_tok b msg.
Proof.
  intros sw ee c src rest b msg acc f CK S MO NE FO ST LF.
  rewrite (plain_prefix_run sw ee c src CK S MO rest acc f NE FO).
  destruct (f - nelems src)%nat as [|f'] eqn:E; [lia|].
  rewrite (list_stop_result sw ee c rest _ CK ST). reflexivity.
Qed.

(* the special cases named in the property *)
Theorem multiplier_out_of_range_rejected : forall switches env_errors c src x m n r k acc f,
  closing c -> step_list src -> mults_ok src ->
  ttype x = IDENT -> ttype m = MUL -> ttype n = INT -> go_parse_int (tlit n) = Some k -> ~ (1 <= k <= 9999)%Z ->
  (nelems src < f)%nat ->
  exists msg, list_value switches env_errors f (LMov c) true (src ++ x :: m :: n :: r) acc = err_tok n msg.
Proof.
  intros sw ee c src x m n r k acc f CK S MO Hx Hm Hn G K LF.
  assert (FO : follows_ok src (cur (x :: m :: n :: r))) by (apply follows_ok_not_mul; cbn [cur hd]; rewrite Hx; discriminate).
  destruct (Z_le_gt_dec k 0) as [K1|K1].
  - eexists. eapply movement_list_rejected; try eassumption; [discriminate|]. eapply stop_nonpos; eassumption.
  - eexists. eapply movement_list_rejected; try eassumption; [discriminate|]. eapply stop_large; try eassumption. lia.
Qed.

Theorem multiplier_not_a_number_rejected : forall switches env_errors c src x m b r acc f,
  closing c -> step_list src -> mults_ok src ->
  ttype x = IDENT -> ttype m = MUL -> (ttype b <> INT \/ go_parse_int (tlit b) = None) ->
  (nelems src < f)%nat ->
  exists msg, list_value switches env_errors f (LMov c) true (src ++ x :: m :: b :: r) acc = err_tok b msg.
Proof.
  intros sw ee c src x m b r acc f CK S MO Hx Hm Hb LF.
  assert (FO : follows_ok src (cur (x :: m :: b :: r))) by (apply follows_ok_not_mul; cbn [cur hd]; rewrite Hx; discriminate).
  destruct (toktype_eq_dec (ttype b) INT) as [HI|HI].
  - destruct Hb as [Hb|Hb]; [contradiction|].
    eexists. eapply movement_list_rejected; try eassumption; [discriminate|]. eapply stop_noparse; eassumption.
  - eexists. eapply movement_list_rejected; try eassumption; [discriminate|]. eapply stop_nonint; eassumption.
Qed.

(* a '*' without a step: at the start of the list, behind a comma, behind 'x * n' *)
Theorem star_without_step_rejected : forall switches env_errors c src b r acc f,
  closing c -> step_list src -> mults_ok src -> no_open_step src -> ttype b = MUL -> (nelems src < f)%nat ->
  list_value switches env_errors f (LMov c) true (src ++ b :: r) acc = err_tok b "expected movement command".
Proof.
  intros sw ee c src b r acc f CK S MO NO Hb LF.
  eapply movement_list_rejected; try eassumption; [discriminate|apply no_open_step_follows; exact NO|].
  apply (stop_unexpected c (b :: r)); cbn [cur hd]; rewrite Hb; try discriminate. destruct CK as [-> | ->]; discriminate.
Qed.

(* a list that is not closed: the end of file is the offending token *)
Theorem unclosed_movement_list_rejected : forall switches env_errors c src b r acc f,
  closing c -> step_list src -> mults_ok src -> ttype b = EOF -> (nelems src < f)%nat ->
  list_value switches env_errors f (LMov c) true (src ++ b :: r) acc = err_tok b "expected movement command".
Proof.
  intros sw ee c src b r acc f CK S MO Hb LF.
  eapply movement_list_rejected; try eassumption; [discriminate|apply follows_ok_not_mul; cbn [cur hd]; rewrite Hb; discriminate|].
  apply (stop_unexpected c (b :: r)); cbn [cur hd]; rewrite Hb; try discriminate. destruct CK as [-> | ->]; discriminate.
Qed.

(* M4. EXACTNESS: every token stream (as the lexer produces them: ended by EOF) splits into a grammatical plain list
   with legal multipliers and a rest; at the rest stands 'poryswitch' (the list is not plain: PorySwitchLists.v), or the
   list stops there ([list_stop]) and the parser's answer is exactly: the expansion of the prefix and the rest of the
   stream (cur = closing token), or the error at the offending token. *)
Theorem movement_list_decided : forall switches env_errors c ts,
  closing c -> eof_ended ts ->
  exists src rest,
    ts = src ++ rest /\ step_list src /\ mults_ok src /\ eof_ended rest /\
    (forall f acc, list_value switches env_errors f (LMov c) true ts acc =
                   list_value switches env_errors (f - nelems src) (LMov c) true rest (acc ++ expand src)) /\
    (ttype (cur rest) = PORYSWITCH \/
     exists v, list_stop c rest v /\
       forall f acc, (nelems src < f)%nat ->
         list_value switches env_errors f (LMov c) true ts acc =
           match v with None => Parser.Ok (acc ++ expand src, rest) | Some (b, msg) => err_tok b msg end).
Proof.
  intros sw ee c ts CK EO.
  destruct (plain_list_decomposition c CK (List.length ts) ts (le_n _) EO) as (src & rest & E & S & MO & FO & EOR & V).
  exists src, rest. split; [exact E|]. split; [exact S|]. split; [exact MO|]. split; [exact EOR|].
  assert (PR : forall f acc, list_value sw ee f (LMov c) true ts acc = list_value sw ee (f - nelems src) (LMov c) true rest (acc ++ expand src)).
  { intros f acc. rewrite E. apply plain_prefix_run; try assumption. destruct EOR; assumption. }
  split; [exact PR|]. destruct V as [P|(v & ST)]; [left; exact P|right].
  exists v. split; [exact ST|]. intros f acc LF. rewrite PR.
  destruct (f - nelems src)%nat as [|f'] eqn:E'; [lia|]. apply (list_stop_result sw ee c rest v CK ST).
Qed.

(* M5. SOUNDNESS for plain lists: whatever is accepted without meeting a poryswitch is a list of the grammar with legal
   multipliers, closed by the closing token, and the result is its expansion (any fuel) *)
Theorem movement_list_sound : forall switches env_errors c f ts acc items ts',
  closing c -> eof_ended ts ->
  list_value switches env_errors f (LMov c) true ts acc = Parser.Ok (items, ts') ->
  (exists src, ts = src ++ ts' /\ step_list src /\ mults_ok src /\ ttype (cur ts') = c /\ items = acc ++ expand src) \/
  (exists src rest, ts = src ++ rest /\ step_list src /\ ttype (cur rest) = PORYSWITCH).
Proof.
  intros sw ee c f ts acc items ts' CK EO H.
  destruct (movement_list_decided sw ee c ts CK EO) as (src & rest & E & S & MO & EOR & PR & V).
  destruct V as [P|(v & ST & R)]; [right; exists src, rest; auto|left].
  destruct (Nat.lt_ge_cases (nelems src) f) as [LF|LF].
  - rewrite (R f acc LF) in H. destruct v as [[b msg]|]; [discriminate H|]. inversion H; subst items ts'.
    exists src. split; [exact E|]. split; [exact S|]. split; [exact MO|]. split; [|reflexivity].
    clear - ST. remember (@None (token * string)) as v eqn:Ev. destruct ST; try discriminate Ev. assumption.
  - rewrite PR in H. replace (f - nelems src)%nat with O in H by lia. discriminate H.
Qed.

Corollary movement_list_sound_no_poryswitch : forall switches env_errors c f ts acc items ts',
  closing c -> eof_ended ts -> no_poryswitch ts ->
  list_value switches env_errors f (LMov c) true ts acc = Parser.Ok (items, ts') ->
  exists src, ts = src ++ ts' /\ step_list src /\ mults_ok src /\ ttype (cur ts') = c /\ items = acc ++ expand src.
Proof.
  intros sw ee c f ts acc items ts' CK EO NP H.
  destruct (movement_list_sound sw ee c f ts acc items ts' CK EO H) as [R|(src & rest & E & _ & P)]; [exact R|exfalso].
  rewrite E in NP. unfold no_poryswitch in NP. apply Forall_app in NP. destruct NP as [_ NP].
  destruct rest as [|y r]; [cbn in P; discriminate|]. apply Forall_inv in NP. exact (NP P).
Qed.

(* the decomposition is unique: the list is the stretch up to the first closing token *)
Theorem movement_list_unique : forall c src1 cl1 r1 src2 cl2 r2,
  closing c -> step_list src1 -> step_list src2 -> ttype cl1 = c -> ttype cl2 = c ->
  src1 ++ cl1 :: r1 = src2 ++ cl2 :: r2 -> src1 = src2 /\ cl1 = cl2 /\ r1 = r2.
Proof.
  intros c src1 cl1 r1 src2 cl2 r2 CK S1 S2 Hc1 Hc2.
  assert (NC : forall src, step_list src -> Forall (fun x => ttype x <> c) src).
  { intros src S. eapply Forall_impl; [|apply step_list_types; exact S]. intros x Hx E.
    destruct CK as [-> | ->]; destruct Hx as [Hx|[Hx|[Hx|Hx]]]; rewrite Hx in E; discriminate. }
  pose proof (NC _ S1) as F1. pose proof (NC _ S2) as F2. clear S1 S2 NC. revert src2 F2.
  induction src1 as [|a s1 IH]; intros [|b s2] F2 E; cbn [app] in E.
  - injection E as -> ->. auto.
  - injection E as Ea Eb. exfalso. apply (Forall_inv F2). rewrite <- Ea. exact Hc1.
  - injection E as Ea Eb. exfalso. apply (Forall_inv F1). rewrite Ea. exact Hc2.
  - injection E as Ea Eb. subst b. destruct (IH (Forall_inv_tail F1) s2 (Forall_inv_tail F2) Eb) as (-> & -> & ->). auto.
Qed.

(* ---------- lists WITH poryswitches: the erased source (PorySwitchLists.list_erase) is a list of the grammar ---------- *)
Lemma flat_mov_grammar nxt src its : ttype nxt <> MUL -> flat true nxt src its ->
  step_list src /\ mults_ok src /\ its = expand src.
Proof.
  intros N F. induction F as [|x s i Tx M F IH|x m n c s i Mv Tx Tm Tn G C1 C2 F IH|x s i Mv Tx F IH].
  - split; [constructor|]. split; [constructor|reflexivity].
  - destruct IH as (S & MO & ->). split; [apply sl_step; assumption|]. split.
    + unfold mults_ok. rewrite (multipliers_step x s Tx). exact MO.
    + rewrite (expand_step_list_step x s Tx S). reflexivity.
  - destruct IH as (S & MO & ->). split; [apply sl_mul; assumption|]. split.
    + unfold mults_ok. rewrite (multipliers_mul x m n s Tx Tm Tn). constructor; [|exact MO].
      exists c. split; [exact G|]. apply Z.leb_gt in C1. destruct (Z.gtb_spec c 9999); [discriminate|lia].
    + rewrite (expand_mul x m n s Tx Tm), repeat_tok_spec. unfold mult. rewrite G. reflexivity.
  - destruct IH as (S & MO & ->). split; [apply sl_comma; assumption|]. split.
    + unfold mults_ok. rewrite (multipliers_comma x s Tx). exact MO.
    + rewrite (expand_comma x s Tx). reflexivity.
Qed.

(* M6. SOUNDNESS for ALL accepted movement lists (any nesting of poryswitches): the source with every poryswitch
   replaced by the content of its selected case (PorySwitchLists.list_erase; poryswitch_list_erasure) is a list of the
   grammar with legal multipliers, and the result is its expansion *)
Theorem movement_list_sound_poryswitch : forall switches env_errors c f ts acc items ts',
  list_value switches env_errors f (LMov c) true ts acc = Parser.Ok (items, ts') ->
  exists src, list_erase switches env_errors f (LMov c) true ts [] = Parser.Ok (src, ts') /\
              step_list src /\ mults_ok src /\ items = acc ++ expand src /\ ttype (cur ts') = c.
Proof.
  intros sw ee c f ts acc items ts' H.
  destruct (proj1 (PV_PC_all sw ee f) _ _ _ _ _ _ H) as (src & its & -> & E & F).
  destruct (flat_mov_grammar eof0 src its ltac:(discriminate) (F eof0 ltac:(discriminate))) as (S & MO & ->).
  exists src. split; [exact (E [])|]. split; [exact S|]. split; [exact MO|]. split; [reflexivity|].
  apply list_value_ends_closing in H. cbn [closing_of] in H. apply is_inv. exact H.
Qed.

(* ================================================================================================================ *)
(* 4. Mart lists                                                                                                    *)
(* ================================================================================================================ *)
(* items ::= IDENT*      no commas, no multipliers (model = Go code: parseMartValue has no comma branch) *)
Definition item_list (src : list token) : Prop := Forall (fun x => ttype x = IDENT) src.

Inductive mart_stop : toks -> option (token * string) -> Prop :=
| mstop_close rest : ttype (cur rest) = RBRACE -> mart_stop rest None
| mstop_unexpected rest : ttype (cur rest) <> RBRACE -> ttype (cur rest) <> PORYSWITCH -> ttype (cur rest) <> IDENT ->
    mart_stop rest (Some (cur rest, "expected mart item")).

Section MARTLIST.
Variable switches : list (text * text).
Variable env_errors : bool.
Notation list_value := (Parser.list_value switches env_errors).

Lemma lm_close f multi ts acc : ttype (cur ts) = RBRACE -> list_value (S f) LMart multi ts acc = Parser.Ok (acc, ts).
Proof. intros H. rewrite list_value_unfold. cbv zeta. unfold curis. rewrite (is_true _ _ H). reflexivity. Qed.

Lemma lm_item f x y r acc : ttype x = IDENT ->
  list_value (S f) LMart true (x :: y :: r) acc = list_value f LMart true (y :: r) (acc ++ [x]).
Proof.
  intros Hx. rewrite list_value_unfold. cbv zeta. rewrite !curis_is, cur_cons.
  rewrite (adv_cons x (y :: r)) by discriminate. unfold is; rewrite Hx; tts; reflexivity.
Qed.

Lemma lm_unexpected f multi ts acc :
  ttype (cur ts) <> RBRACE -> ttype (cur ts) <> PORYSWITCH -> ttype (cur ts) <> IDENT ->
  list_value (S f) LMart multi ts acc = err_tok (cur ts) "expected mart item".
Proof. intros H1 H2 H3. rewrite list_value_unfold. cbv zeta. unfold curis. rewrite !is_false by assumption. reflexivity. Qed.

Lemma mart_prefix_run src : item_list src -> forall rest acc f, rest <> [] ->
  list_value f LMart true (src ++ rest) acc = list_value (f - List.length src) LMart true rest (acc ++ src).
Proof.
  induction 1 as [|x s Hx S IH]; intros rest acc f NE.
  - cbn [app List.length]. rewrite Nat.sub_0_r, app_nil_r. reflexivity.
  - destruct f as [|f]; [reflexivity|]. cbn [List.length Nat.sub app].
    pose proof (app_nonempty s rest NE) as NE2. destruct (s ++ rest) as [|y r] eqn:E; [congruence|].
    rewrite (lm_item _ _ _ _ _ Hx), <- E, (IH rest _ f NE), <- app_assoc. reflexivity.
Qed.

Lemma mart_stop_result rest v : mart_stop rest v -> forall f acc multi,
  list_value (S f) LMart multi rest acc = match v with None => Parser.Ok (acc, rest) | Some (b, msg) => err_tok b msg end.
Proof. intros ST f acc multi. destruct ST; [apply lm_close|apply lm_unexpected]; assumption. Qed.
End MARTLIST.

Lemma mart_list_decomposition : forall N ts, (List.length ts <= N)%nat -> eof_ended ts ->
  exists src rest, ts = src ++ rest /\ item_list src /\ eof_ended rest /\
    (ttype (cur rest) = PORYSWITCH \/ exists v, mart_stop rest v).
Proof.
  induction N as [|N IH]; intros ts LE EO.
  { destruct (eof_ended_cons ts EO) as (x & r & ->). cbn in LE. lia. }
  destruct (toktype_eq_dec (ttype (cur ts)) RBRACE) as [C|C].
  { exists [], ts. split; [reflexivity|]. split; [constructor|]. split; [exact EO|]. right. eexists. apply mstop_close. exact C. }
  destruct (toktype_eq_dec (ttype (cur ts)) PORYSWITCH) as [P|P].
  { exists [], ts. split; [reflexivity|]. split; [constructor|]. split; [exact EO|]. left. exact P. }
  destruct (toktype_eq_dec (ttype (cur ts)) IDENT) as [I|I].
  - destruct (eof_ended_step ts EO ltac:(rewrite I; discriminate)) as [E1 EO1].
    assert (L1 : (List.length (adv ts) <= N)%nat) by (rewrite E1 in LE; cbn [List.length] in LE; lia).
    destruct (IH (adv ts) L1 EO1) as (src & rest & ES & S & EOR & V).
    exists (cur ts :: src), rest. split; [rewrite E1 at 1; rewrite ES at 1; reflexivity|].
    split; [constructor; assumption|]. split; [exact EOR|exact V].
  - exists [], ts. split; [reflexivity|]. split; [constructor|]. split; [exact EO|]. right. eexists. apply mstop_unexpected; assumption.
Qed.

(* A1. a list of identifiers followed by '}' is accepted and yields exactly these tokens, in order *)
Theorem mart_list_accepted : forall switches env_errors src cl rest acc f,
  item_list src -> ttype cl = RBRACE -> (List.length src < f)%nat ->
  list_value switches env_errors f LMart true (src ++ cl :: rest) acc = Parser.Ok (acc ++ src, cl :: rest).
Proof.
  intros sw ee src cl rest acc f S Hc LF. rewrite (mart_prefix_run sw ee src S (cl :: rest) acc f ltac:(discriminate)).
  destruct (f - List.length src)%nat as [|f'] eqn:E; [lia|]. apply lm_close. exact Hc.
Qed.

(* A2. any other token (a comma, a number, a '*', the end of file ...) is rejected, the error is located at it *)
Theorem mart_list_rejected : forall switches env_errors src b r acc f,
  item_list src -> ttype b <> RBRACE -> ttype b <> PORYSWITCH -> ttype b <> IDENT -> (List.length src < f)%nat ->
  list_value switches env_errors f LMart true (src ++ b :: r) acc = err_tok b "expected mart item".
Proof.
  intros sw ee src b r acc f S H1 H2 H3 LF. rewrite (mart_prefix_run sw ee src S (b :: r) acc f ltac:(discriminate)).
  destruct (f - List.length src)%nat as [|f'] eqn:E; [lia|]. apply (lm_unexpected sw ee f' true (b :: r)); assumption.
Qed.

(* A3. exactness *)
Theorem mart_list_decided : forall switches env_errors ts,
  eof_ended ts ->
  exists src rest,
    ts = src ++ rest /\ item_list src /\ eof_ended rest /\
    (forall f acc, list_value switches env_errors f LMart true ts acc =
                   list_value switches env_errors (f - List.length src) LMart true rest (acc ++ src)) /\
    (ttype (cur rest) = PORYSWITCH \/
     exists v, mart_stop rest v /\
       forall f acc, (List.length src < f)%nat ->
         list_value switches env_errors f LMart true ts acc =
           match v with None => Parser.Ok (acc ++ src, rest) | Some (b, msg) => err_tok b msg end).
Proof.
  intros sw ee ts EO.
  destruct (mart_list_decomposition (List.length ts) ts (le_n _) EO) as (src & rest & E & S & EOR & V).
  exists src, rest. split; [exact E|]. split; [exact S|]. split; [exact EOR|].
  assert (PR : forall f acc, list_value sw ee f LMart true ts acc = list_value sw ee (f - List.length src) LMart true rest (acc ++ src)).
  { intros f acc. rewrite E. apply mart_prefix_run; [exact S|]. destruct EOR; assumption. }
  split; [exact PR|]. destruct V as [P|(v & ST)]; [left; exact P|right].
  exists v. split; [exact ST|]. intros f acc LF. rewrite PR.
  destruct (f - List.length src)%nat as [|f'] eqn:E'; [lia|]. apply (mart_stop_result sw ee rest v ST).
Qed.

(* A4. soundness, plain *)
Theorem mart_list_sound : forall switches env_errors f ts acc items ts',
  eof_ended ts ->
  list_value switches env_errors f LMart true ts acc = Parser.Ok (items, ts') ->
  (exists src, ts = src ++ ts' /\ item_list src /\ ttype (cur ts') = RBRACE /\ items = acc ++ src) \/
  (exists src rest, ts = src ++ rest /\ item_list src /\ ttype (cur rest) = PORYSWITCH).
Proof.
  intros sw ee f ts acc items ts' EO H.
  destruct (mart_list_decided sw ee ts EO) as (src & rest & E & S & EOR & PR & V).
  destruct V as [P|(v & ST & R)]; [right; exists src, rest; auto|left].
  destruct (Nat.lt_ge_cases (List.length src) f) as [LF|LF].
  - rewrite (R f acc LF) in H. destruct v as [[b msg]|]; [discriminate H|]. inversion H; subst items ts'.
    exists src. split; [exact E|]. split; [exact S|]. split; [|reflexivity].
    clear - ST. remember (@None (token * string)) as v eqn:Ev. destruct ST; try discriminate Ev. assumption.
  - rewrite PR in H. replace (f - List.length src)%nat with O in H by lia. discriminate H.
Qed.

(* A5. soundness for all accepted mart lists: the erased source is a list of identifiers, and it IS the result *)
Lemma flat_mart_grammar nxt src its : flat false nxt src its -> item_list src /\ its = src.
Proof.
  induction 1 as [|x s i Tx M F IH|x m n c s i Mv Tx Tm Tn G C1 C2 F IH|x s i Mv Tx F IH]; try discriminate.
  - split; [constructor|reflexivity].
  - destruct IH as (S & ->). split; [constructor; assumption|reflexivity].
Qed.
Theorem mart_list_sound_poryswitch : forall switches env_errors f ts acc items ts',
  list_value switches env_errors f LMart true ts acc = Parser.Ok (items, ts') ->
  exists src, list_erase switches env_errors f LMart true ts [] = Parser.Ok (src, ts') /\
              item_list src /\ items = acc ++ src /\ ttype (cur ts') = RBRACE.
Proof.
  intros sw ee f ts acc items ts' H.
  destruct (proj1 (PV_PC_all sw ee f) _ _ _ _ _ _ H) as (src & its & -> & E & F).
  destruct (flat_mart_grammar eof0 src its (F eof0 ltac:(discriminate))) as (S & ->).
  exists src. split; [exact (E [])|]. split; [exact S|]. split; [reflexivity|].
  apply list_value_ends_closing in H. cbn [closing_of] in H. apply is_inv. exact H.
Qed.

(* ================================================================================================================ *)
(* 5. The emitter on the parsed lists                                                                               *)
(* ================================================================================================================ *)
Lemma text_eqb_false a b : a <> b -> text_eqb a b = false.
Proof. intros N. destruct (text_eqb a b) eqn:E; [|reflexivity]. exfalso. apply N. apply text_eqb_eq. exact E. Qed.

(* the line(s) of one step: its line marker (only with line markers enabled), then the tab-indented literal *)
Definition step_line (mp : option text) (s : token) : list instr := marker mp (tline s) ++ [ILine (tab ++ tlit s)].
Definition end_line : instr := ILine (tab ++ t "step_end").
Definition not_end (x : token) : Prop := tlit x <> t "step_end".

(* E1. no step_end among the steps: all steps, then exactly one step_end *)
Theorem emit_steps_unterminated : forall mp l, Forall not_end l ->
  emit_steps mp l = flat_map (step_line mp) l ++ [end_line].
Proof.
  intros mp l F. induction F as [|s r Hs F IH]; [reflexivity|]. cbn [emit_steps flat_map].
  rewrite (text_eqb_false _ _ Hs), IH. unfold step_line. rewrite <- !app_assoc. reflexivity.
Qed.

(* E2. the author wrote step_end: the steps up to and including the FIRST one, nothing after it, no second step_end *)
Theorem emit_steps_terminated : forall mp pre e post, Forall not_end pre -> tlit e = t "step_end" ->
  emit_steps mp (pre ++ e :: post) = flat_map (step_line mp) (pre ++ [e]).
Proof.
  intros mp pre e post F He. induction F as [|s r Hs F IH]; cbn [app emit_steps flat_map].
  - rewrite He, text_eqb_refl. unfold step_line. rewrite He, !app_nil_r. reflexivity.
  - rewrite (text_eqb_false _ _ Hs), IH. unfold step_line. rewrite <- !app_assoc. reflexivity.
Qed.

(* the items: [val] is the value written for an item token (the literal after constant substitution) *)
Definition item_line (mp : option text) (val : token -> text) (tk : token) : list instr :=
  marker mp (tline tk) ++ [ILine (tab ++ t ".2byte " ++ val tk)].
Definition none_line : instr := ILine (tab ++ t ".2byte ITEM_NONE").

Theorem emit_items_unterminated : forall mp (val : token -> text) l, Forall (fun x => val x <> t "ITEM_NONE") l ->
  emit_items mp (map val l) l = flat_map (item_line mp val) l.
Proof.
  intros mp val l F. induction F as [|s r Hs F IH]; [reflexivity|]. cbn [map emit_items flat_map].
  rewrite (text_eqb_false _ _ Hs), IH. unfold item_line. rewrite <- !app_assoc. reflexivity.
Qed.

Theorem emit_items_terminated : forall mp (val : token -> text) pre e post,
  Forall (fun x => val x <> t "ITEM_NONE") pre -> val e = t "ITEM_NONE" ->
  emit_items mp (map val (pre ++ e :: post)) (pre ++ e :: post) = flat_map (item_line mp val) pre.
Proof.
  intros mp val pre e post F He. induction F as [|s r Hs F IH]; cbn [app map emit_items flat_map].
  - rewrite He, text_eqb_refl. reflexivity.
  - rewrite (text_eqb_false _ _ Hs), IH. unfold item_line. rewrite <- !app_assoc. reflexivity.
Qed.

(* ================================================================================================================ *)
(* 6. The statements:  movement NAME { steps }   mart NAME { items }   (optional scope '(global)' / '(local)')       *)
(* ================================================================================================================ *)
Inductive stmt_header : list token -> token -> token -> bool -> Prop :=
| hdr_plain kw name lb : ttype name = IDENT -> ttype lb = LBRACE -> stmt_header [kw; name; lb] kw name false
| hdr_scoped kw lp sc rp name lb :
    ttype lp = LPAREN -> ttype sc = GLOBAL \/ ttype sc = LOCAL -> ttype rp = RPAREN -> ttype name = IDENT -> ttype lb = LBRACE ->
    stmt_header [kw; lp; sc; rp; name; lb] kw name (is GLOBAL sc).

Lemma header_parse hd kw name g : stmt_header hd kw name g -> forall body, body <> [] ->
  exists a' lb, scope_modifier false (hd ++ body) = Parser.Ok (g, a' :: name :: lb :: body) /\ cur (hd ++ body) = kw /\
                ttype name = IDENT /\ ttype lb = LBRACE.
Proof.
  intros H body NE. destruct H as [kw name lb Hn Hl|kw lp sc rp name lb Hlp Hsc Hrp Hn Hl]; cbn [app].
  - exists kw, lb. split; [|auto]. unfold scope_modifier. rewrite peekis_cons2, Hn. reflexivity.
  - exists rp, lb. split; [|auto]. unfold scope_modifier. rewrite peekis_cons2, Hlp. cbn [adv]. cbv zeta.
    rewrite !peekis_cons2, Hrp.
    assert (E1 : negb (tt_eqb (ttype sc) GLOBAL) && negb (tt_eqb (ttype sc) LOCAL) = false)
      by (destruct Hsc as [-> | ->]; reflexivity).
    change (negb (tt_eqb LPAREN LPAREN)) with false. cbv iota. rewrite E1. reflexivity.
Qed.

(* the statement parsers are: read the header, run the list parser on the body *)
Theorem parse_movement_header : forall switches env_errors f hd kw name g body,
  stmt_header hd kw name g -> body <> [] ->
  parse_movement switches env_errors f (hd ++ body) =
    match list_value switches env_errors f (LMov RBRACE) true body [] with
    | Parser.Ok (mv, ts4) => Parser.Ok (TMovement (tlit name) g kw mv, ts4)
    | Err e => Err e | Panic => Panic | Fuel => Fuel
    end.
Proof.
  intros sw ee f hd kw name g body H NE. destruct (header_parse hd kw name g H body NE) as (a' & lb & SM & CU & Hn & Hl).
  unfold parse_movement. cbv zeta. rewrite SM, CU.
  rewrite (expect_peek_cons2 IDENT a' name _ Hn), (expect_peek_cons2 LBRACE name lb _ Hl).
  rewrite (adv_cons lb body NE). unfold movement_value. reflexivity.
Qed.

Theorem parse_mart_header : forall switches env_errors consts f hd kw name g body,
  stmt_header hd kw name g -> body <> [] ->
  parse_mart switches env_errors consts f (hd ++ body) =
    match list_value switches env_errors f LMart true body [] with
    | Parser.Ok (its, ts4) => Parser.Ok (TMart (tlit name) g kw (map (fun tk => creplace consts (tlit tk)) its) its, ts4)
    | Err e => Err e | Panic => Panic | Fuel => Fuel
    end.
Proof.
  intros sw ee consts f hd kw name g body H NE. destruct (header_parse hd kw name g H body NE) as (a' & lb & SM & CU & Hn & Hl).
  unfold parse_mart. cbv zeta. rewrite SM, CU.
  rewrite (expect_peek_cons2 IDENT a' name _ Hn), (expect_peek_cons2 LBRACE name lb _ Hl).
  rewrite (adv_cons lb body NE). unfold mart_value. reflexivity.
Qed.

Lemma mults_ok_app a b : mults_ok (a ++ b) <-> mults_ok a /\ mults_ok b.
Proof. unfold mults_ok, multipliers. rewrite filter_app. apply Forall_app. Qed.

Lemma rbrace_closing : closing RBRACE. Proof. left; reflexivity. Qed.
Lemma rparen_closing : closing RPAREN. Proof. right; reflexivity. Qed.

(* S1. movement statement, parser: accepted with the expansion ... *)
Theorem movement_statement_accepted : forall switches env_errors f hd kw name g src cl rest,
  stmt_header hd kw name g -> step_list src -> mults_ok src -> ttype cl = RBRACE -> (nelems src < f)%nat ->
  parse_movement switches env_errors f (hd ++ src ++ cl :: rest) =
    Parser.Ok (TMovement (tlit name) g kw (expand src), cl :: rest).
Proof.
  intros sw ee f hd kw name g src cl rest H S MO Hc LF.
  rewrite (parse_movement_header sw ee f hd kw name g _ H) by (apply app_nonempty; discriminate).
  rewrite (movement_list_accepted sw ee RBRACE src cl rest [] f rbrace_closing S MO Hc LF). reflexivity.
Qed.

(* ... or rejected with the error of the list, located at the offending token *)
Theorem movement_statement_rejected : forall switches env_errors f hd kw name g src rest b msg,
  stmt_header hd kw name g -> step_list src -> mults_ok src -> rest <> [] -> follows_ok src (cur rest) ->
  list_stop RBRACE rest (Some (b, msg)) -> (nelems src < f)%nat ->
  parse_movement switches env_errors f (hd ++ src ++ rest) = err_tok b msg.
Proof.
  intros sw ee f hd kw name g src rest b msg H S MO NE FO ST LF.
  rewrite (parse_movement_header sw ee f hd kw name g _ H) by (apply app_nonempty; exact NE).
  rewrite (movement_list_rejected sw ee RBRACE src rest b msg [] f rbrace_closing S MO NE FO ST LF). reflexivity.
Qed.

(* S2. every accepted movement statement (poryswitches included): its steps are the expansion of the erased body *)
Theorem movement_statement_sound : forall switches env_errors f ts tp ts',
  eof_ended ts -> parse_movement switches env_errors f ts = Parser.Ok (tp, ts') ->
  exists h n lb body g src,
    ts = h ++ n :: lb :: body /\ ttype n = IDENT /\ ttype lb = LBRACE /\
    list_erase switches env_errors f (LMov RBRACE) true body [] = Parser.Ok (src, ts') /\
    step_list src /\ mults_ok src /\ ttype (cur ts') = RBRACE /\
    tp = TMovement (tlit n) g (cur ts) (expand src).
Proof.
  intros sw ee f ts tp ts' EO H. unfold parse_movement in H. cbv zeta in H.
  destruct (scope_modifier false ts) as [[g ts1]| | |] eqn:SM; try discriminate H.
  destruct (expect_peek IDENT ts1) as [ts2|] eqn:P1; [|discriminate H].
  destruct (expect_peek LBRACE ts2) as [ts3|] eqn:P2; [|discriminate H].
  destruct (movement_value sw ee f RBRACE true (adv ts3) []) as [[mv ts4]| | |] eqn:MV; try discriminate H.
  inversion H; subst tp ts'. clear H.
  destruct (header_shape _ _ _ _ _ _ EO SM P1 P2) as (h & a' & n & lb & body & E & E1 & E2 & E3 & AD & Tn & Tl & EOb & CU & SMX).
  unfold movement_value in MV. rewrite AD in MV.
  destruct (movement_list_sound_poryswitch sw ee RBRACE f body [] mv ts4 MV) as (src & ER & S & MO & EM & CL).
  exists h, n, lb, body, g, src. repeat (split; [assumption|]). subst ts2 mv. reflexivity.
Qed.

(* S3. movement statement, emitter: the label line, then the step lines *)
Theorem movement_top_output : forall mp tl opt name g kw steps,
  emit_top mp tl opt (TMovement name g kw steps) =
    Some (Emitter.Ok (marker mp (tline kw) ++ ILabel name g :: emit_steps mp steps)).
Proof. reflexivity. Qed.

Lemma expand_not_end src : step_list src -> (forall x, In x src -> ttype x = IDENT -> not_end x) -> Forall not_end (expand src).
Proof.
  intros S H. eapply Forall_impl; [|apply expand_idents; exact S]. intros x [H1 H2]. exact (H x H2 H1).
Qed.

Lemma expand_head src e s2 : src = e :: s2 -> step_list src -> mults_ok src -> ttype e = IDENT ->
  exists post, expand src = e :: post.
Proof.
  intros E S MO He. destruct S as [|x s Hx S|x m n s Hx Hm Hn S|c s Hc S]; inversion E; subst.
  - exists (expand s2). apply expand_step_list_step; assumption.
  - rewrite (expand_mul e m n s He Hm). unfold mults_ok in MO. rewrite (multipliers_mul e m n s He Hm Hn) in MO.
    destruct (mult_ok_tests n (Forall_inv MO)) as (k & _ & _ & _ & EM & R). rewrite EM.
    destruct (Z.to_nat k) as [|j] eqn:EK; [lia|]. cbn [repeat app]. eauto.
  - congruence.
Qed.

(* S4. COMPOSITION, no step_end written: label, one line per expanded step in source order, exactly one step_end *)
Theorem movement_statement_compiles_unterminated : forall switches env_errors mp tl opt f hd kw name g src cl rest,
  stmt_header hd kw name g -> step_list src -> mults_ok src -> ttype cl = RBRACE -> (nelems src < f)%nat ->
  (forall x, In x src -> ttype x = IDENT -> not_end x) ->
  exists tp, parse_movement switches env_errors f (hd ++ src ++ cl :: rest) = Parser.Ok (tp, cl :: rest) /\
    emit_top mp tl opt tp =
      Some (Emitter.Ok (marker mp (tline kw) ++ ILabel (tlit name) g :: flat_map (step_line mp) (expand src) ++ [end_line])).
Proof.
  intros sw ee mp tl opt f hd kw name g src cl rest H S MO Hc LF NE.
  eexists. split; [apply movement_statement_accepted; eassumption|].
  rewrite movement_top_output, (emit_steps_unterminated mp _ (expand_not_end src S NE)). reflexivity.
Qed.

(* S5. COMPOSITION, step_end written by the author (e: its first occurrence as a step, with or without multiplier):
   label, the expanded steps before it, ONE line for e, nothing else - whatever follows in the source (s2) is parsed
   (so it must be grammatical) but not emitted *)
Theorem movement_statement_compiles_terminated : forall switches env_errors mp tl opt f hd kw name g s1 e s2 cl rest,
  stmt_header hd kw name g -> step_list s1 -> step_list (e :: s2) -> mults_ok (s1 ++ e :: s2) ->
  ttype e = IDENT -> tlit e = t "step_end" -> (forall x, In x s1 -> ttype x = IDENT -> not_end x) ->
  ttype cl = RBRACE -> (nelems (s1 ++ e :: s2) < f)%nat ->
  exists tp, parse_movement switches env_errors f (hd ++ (s1 ++ e :: s2) ++ cl :: rest) = Parser.Ok (tp, cl :: rest) /\
    emit_top mp tl opt tp =
      Some (Emitter.Ok (marker mp (tline kw) ++ ILabel (tlit name) g :: flat_map (step_line mp) (expand s1 ++ [e]))).
Proof.
  intros sw ee mp tl opt f hd kw name g s1 e s2 cl rest H S1 S2 MO He Le NE Hc LF.
  eexists. split; [apply movement_statement_accepted; try eassumption; apply step_list_app; assumption|].
  rewrite movement_top_output, (expand_app s1 (e :: s2) S1 S2).
  destruct (expand_head (e :: s2) e s2 eq_refl S2 (proj2 (proj1 (mults_ok_app _ _) MO)) He) as (post & ->).
  rewrite (emit_steps_terminated mp _ e post (expand_not_end s1 S1 NE) Le). reflexivity.
Qed.

(* S6. mart statement *)
Theorem mart_statement_accepted : forall switches env_errors consts f hd kw name g src cl rest,
  stmt_header hd kw name g -> item_list src -> ttype cl = RBRACE -> (List.length src < f)%nat ->
  parse_mart switches env_errors consts f (hd ++ src ++ cl :: rest) =
    Parser.Ok (TMart (tlit name) g kw (map (fun tk => creplace consts (tlit tk)) src) src, cl :: rest).
Proof.
  intros sw ee consts f hd kw name g src cl rest H S Hc LF.
  rewrite (parse_mart_header sw ee consts f hd kw name g _ H) by (apply app_nonempty; discriminate).
  rewrite (mart_list_accepted sw ee src cl rest [] f S Hc LF). reflexivity.
Qed.

Theorem mart_statement_rejected : forall switches env_errors consts f hd kw name g src b r,
  stmt_header hd kw name g -> item_list src -> ttype b <> RBRACE -> ttype b <> PORYSWITCH -> ttype b <> IDENT ->
  (List.length src < f)%nat ->
  parse_mart switches env_errors consts f (hd ++ src ++ b :: r) = err_tok b "expected mart item".
Proof.
  intros sw ee consts f hd kw name g src b r H S H1 H2 H3 LF.
  rewrite (parse_mart_header sw ee consts f hd kw name g _ H) by (apply app_nonempty; discriminate).
  rewrite (mart_list_rejected sw ee src b r [] f S H1 H2 H3 LF). reflexivity.
Qed.

Theorem mart_statement_sound : forall switches env_errors consts f ts tp ts',
  eof_ended ts -> parse_mart switches env_errors consts f ts = Parser.Ok (tp, ts') ->
  exists h n lb body g src,
    ts = h ++ n :: lb :: body /\ ttype n = IDENT /\ ttype lb = LBRACE /\
    list_erase switches env_errors f LMart true body [] = Parser.Ok (src, ts') /\
    item_list src /\ ttype (cur ts') = RBRACE /\
    tp = TMart (tlit n) g (cur ts) (map (fun tk => creplace consts (tlit tk)) src) src.
Proof.
  intros sw ee consts f ts tp ts' EO H. unfold parse_mart in H. cbv zeta in H.
  destruct (scope_modifier false ts) as [[g ts1]| | |] eqn:SM; try discriminate H.
  destruct (expect_peek IDENT ts1) as [ts2|] eqn:P1; [|discriminate H].
  destruct (expect_peek LBRACE ts2) as [ts3|] eqn:P2; [|discriminate H].
  destruct (mart_value sw ee f true (adv ts3) []) as [[mv ts4]| | |] eqn:MV; try discriminate H.
  inversion H; subst tp ts'. clear H.
  destruct (header_shape _ _ _ _ _ _ EO SM P1 P2) as (h & a' & n & lb & body & E & E1 & E2 & E3 & AD & Tn & Tl & EOb & CU & SMX).
  unfold mart_value in MV. rewrite AD in MV.
  destruct (mart_list_sound_poryswitch sw ee f body [] mv ts4 MV) as (src & ER & S & EM & CL).
  exists h, n, lb, body, g, src. repeat (split; [assumption|]). subst ts2 mv. reflexivity.
Qed.

Theorem mart_top_output : forall mp tl opt name g kw items itoks,
  emit_top mp tl opt (TMart name g kw items itoks) =
    Some (Emitter.Ok (ILine (tab ++ t ".align 2") :: marker mp (tline kw) ++ ILabel name g :: emit_items mp items itoks ++ [none_line])).
Proof. reflexivity. Qed.

(* the value written for an item: its literal after constant substitution *)
Definition item_value (consts : list (text * text)) (tk : token) : text := creplace consts (tlit tk).

(* S7. COMPOSITION, no item whose value is ITEM_NONE: .align 2, label, one .2byte per item in order, one ITEM_NONE *)
Theorem mart_statement_compiles_unterminated : forall switches env_errors consts mp tl opt f hd kw name g src cl rest,
  stmt_header hd kw name g -> item_list src -> ttype cl = RBRACE -> (List.length src < f)%nat ->
  Forall (fun x => item_value consts x <> t "ITEM_NONE") src ->
  exists tp, parse_mart switches env_errors consts f (hd ++ src ++ cl :: rest) = Parser.Ok (tp, cl :: rest) /\
    emit_top mp tl opt tp =
      Some (Emitter.Ok (ILine (tab ++ t ".align 2") :: marker mp (tline kw) ++ ILabel (tlit name) g ::
                        flat_map (item_line mp (item_value consts)) src ++ [none_line])).
Proof.
  intros sw ee consts mp tl opt f hd kw name g src cl rest H S Hc LF NE.
  eexists. split; [apply mart_statement_accepted; eassumption|].
  rewrite mart_top_output. change (fun tk => creplace consts (tlit tk)) with (item_value consts).
  rewrite (emit_items_unterminated mp (item_value consts) src NE). reflexivity.
Qed.

(* S8. COMPOSITION, an item whose value is ITEM_NONE (e: the first): the items before it, then exactly one ITEM_NONE;
   e and everything after it (s2) is parsed - it must consist of identifiers - but not emitted *)
Theorem mart_statement_compiles_terminated : forall switches env_errors consts mp tl opt f hd kw name g s1 e s2 cl rest,
  stmt_header hd kw name g -> item_list (s1 ++ e :: s2) -> ttype cl = RBRACE -> (List.length (s1 ++ e :: s2) < f)%nat ->
  Forall (fun x => item_value consts x <> t "ITEM_NONE") s1 -> item_value consts e = t "ITEM_NONE" ->
  exists tp, parse_mart switches env_errors consts f (hd ++ (s1 ++ e :: s2) ++ cl :: rest) = Parser.Ok (tp, cl :: rest) /\
    emit_top mp tl opt tp =
      Some (Emitter.Ok (ILine (tab ++ t ".align 2") :: marker mp (tline kw) ++ ILabel (tlit name) g ::
                        flat_map (item_line mp (item_value consts)) s1 ++ [none_line])).
Proof.
  intros sw ee consts mp tl opt f hd kw name g s1 e s2 cl rest H S Hc LF NE He.
  eexists. split; [apply mart_statement_accepted; eassumption|].
  rewrite mart_top_output. change (fun tk => creplace consts (tlit tk)) with (item_value consts).
  rewrite (emit_items_terminated mp (item_value consts) s1 e s2 NE He). reflexivity.
Qed.

(* ================================================================================================================ *)
(* 7. moves( steps ) inside a command: the hoisted movement                                                         *)
(* ================================================================================================================ *)
(* D1. the operator: cur = 'moves'; accepted with the expansion, the parser stops on ')' *)
Theorem moves_operator_accepted : forall switches env_errors f mvtok lp src cl rest,
  ttype lp = LPAREN -> step_list src -> mults_ok src -> ttype cl = RPAREN -> (nelems src < f)%nat ->
  moves_operator switches env_errors f (mvtok :: lp :: src ++ cl :: rest) = Parser.Ok (expand src, cl :: rest).
Proof.
  intros sw ee f mvtok lp src cl rest Hlp S MO Hc LF. unfold moves_operator.
  rewrite (expect_peek_cons2 LPAREN mvtok lp _ Hlp). rewrite (adv_cons lp (src ++ cl :: rest)) by (apply app_nonempty; discriminate).
  unfold movement_value. apply (movement_list_accepted sw ee RPAREN src cl rest [] f rparen_closing S MO Hc LF).
Qed.

Theorem moves_operator_rejected : forall switches env_errors f mvtok lp src rest b msg,
  ttype lp = LPAREN -> step_list src -> mults_ok src -> rest <> [] -> follows_ok src (cur rest) ->
  list_stop RPAREN rest (Some (b, msg)) -> (nelems src < f)%nat ->
  moves_operator switches env_errors f (mvtok :: lp :: src ++ rest) = err_tok b msg.
Proof.
  intros sw ee f mvtok lp src rest b msg Hlp S MO NE FO ST LF. unfold moves_operator.
  rewrite (expect_peek_cons2 LPAREN mvtok lp _ Hlp). rewrite (adv_cons lp (src ++ rest)) by (apply app_nonempty; exact NE).
  unfold movement_value. apply (movement_list_rejected sw ee RPAREN src rest b msg [] f rparen_closing S MO NE FO ST LF).
Qed.

(* every accepted moves(...) (poryswitches included) *)
Theorem moves_operator_sound : forall switches env_errors f ts mv ts',
  eof_ended ts -> moves_operator switches env_errors f ts = Parser.Ok (mv, ts') ->
  exists m lp body src,
    ts = m :: lp :: body /\ ttype lp = LPAREN /\
    list_erase switches env_errors f (LMov RPAREN) true body [] = Parser.Ok (src, ts') /\
    step_list src /\ mults_ok src /\ ttype (cur ts') = RPAREN /\ mv = expand src.
Proof.
  intros sw ee f ts mv ts' EO H. unfold moves_operator in H.
  destruct (expect_peek LPAREN ts) as [ts1|] eqn:P1; [|discriminate H].
  apply expect_peek_true in P1. destruct P1 as [P1 ->].
  destruct (peek_step LPAREN _ EO (ltac:(discriminate) : LPAREN <> EOF) P1) as (m & lp & r & -> & Tlp & EO1).
  cbn [adv] in H. unfold movement_value in H.
  destruct r as [|y r]; [exfalso; destruct EO1 as [_ E]; cbn in E; congruence|]. cbn [adv] in H.
  destruct (movement_list_sound_poryswitch sw ee RPAREN f (y :: r) [] mv ts' H) as (src & ER & S & MO & EM & CL).
  exists m, lp, (y :: r), src. repeat (split; [first [reflexivity|assumption]|]). exact EM.
Qed.

(* D2. hence moves( steps ) is a legal piece of a command argument in the grammar of CmdArgs.v, with the expansion as
   its movement list: all theorems of CmdArgs.v about commands apply (command_with_arguments,
   inline_arguments_become_labels: the argument becomes the label of the hoisted movement) *)
Theorem moves_piece_wf : forall switches env_errors parse_format mvtok lp src clo,
  ttype mvtok = MOVES -> ttype lp = LPAREN -> step_list src -> mults_ok src -> ttype clo = RPAREN ->
  CmdArgs.wf_piece switches env_errors parse_format (CmdArgs.PMoves (mvtok :: lp :: src ++ [clo]) clo (expand src)).
Proof.
  intros sw ee pf mvtok lp src clo Hm Hlp S MO Hc. cbn [CmdArgs.wf_piece]. split; [eauto|].
  intros f R LF NE. cbn [app]. rewrite <- app_assoc. cbn [app].
  apply moves_operator_accepted; try assumption.
  cbn [List.length] in LF. rewrite app_length in LF. cbn [List.length] in LF. pose proof (nelems_le src). lia.
Qed.

(* D3. the argument that contains moves(...) is, after hoisting and patching, the label under which the final movement
   table knows the expansion *)
Lemma one_inline_piece : forall (g1 g2 g1' g2' : list CmdArgs.piece) p p',
  CmdArgs.pure g1 -> CmdArgs.pure g1' -> CmdArgs.is_inline p = true -> CmdArgs.is_inline p' = true ->
  g1 ++ p :: g2 = g1' ++ p' :: g2' -> p = p'.
Proof.
  induction g1 as [|a g1 IH]; intros g2 [|b g1'] g2' p p' P1 P1' Hp Hp' E; cbn [app] in E.
  - injection E as -> _. reflexivity.
  - injection E as -> _. exfalso. pose proof (Forall_inv P1') as X. cbn beta in X. congruence.
  - injection E as <- _. exfalso. pose proof (Forall_inv P1) as X. cbn beta in X. congruence.
  - injection E as _ E. exact (IH g2 g1' g2' p p' (Forall_inv_tail P1) (Forall_inv_tail P1') Hp Hp' E).
Qed.

Theorem moves_argument_becomes_label :
  forall switches env_errors parse_format consts f script name lp (a : CmdArgs.arglist) rp rest,
  ttype lp = LPAREN -> ttype rp = RPAREN ->
  CmdArgs.wf_args switches env_errors parse_format a -> CmdArgs.balanced (CmdArgs.flat a) ->
  Forall CmdArgs.simple_group (CmdArgs.groups_of a) ->
  (List.length (CmdArgs.arg_tokens a) < f)%nat ->
  forall c imp ts', command_stmt switches env_errors parse_format consts f script (name :: lp :: CmdArgs.arg_tokens a ++ rp :: rest) = Parser.Ok (c, imp, ts') ->
  forall impB impA h h' ps,
    (forall it, In it (idT impB ++ idT impA) -> itCid it <> Ast.cid c) ->
    (forall im, In im (idM impB ++ idM impA) -> imCid im <> Ast.cid c) ->
    add_implicit (impadd impB (impadd imp impA)) h = (h', ps) ->
  forall k g1 lt clo mv g2,
    nth_error (CmdArgs.strip_last_empty (CmdArgs.groups_of a)) k = Some (g1 ++ CmdArgs.PMoves lt clo mv :: g2) ->
    CmdArgs.pure g1 -> CmdArgs.pure g2 ->
    exists args' l,
      pcmd ps c = {| cname := tlit name; cargs := args'; ctok := name; Ast.cid := Ast.cid c |} /\
      nth_error args' k = Some l /\ assoc (hmset h') (mov_key mv) = Some l.
Proof.
  intros sw ee pf consts f script name lp a rp rest Hlp Hrp W Hb Hs HF c imp ts' E impB impA h h' ps FT FM HA k g1 lt clo mv g2 Hk P1 P2.
  destruct (CmdArgs.inline_arguments_become_labels sw ee pf consts f script name lp a rp rest Hlp Hrp W Hb Hs HF c imp ts' E
              impB impA h h' ps FT FM HA) as (args' & EP & F2).
  assert (NTH : forall (gs : list (list CmdArgs.piece)) (xs : list text), Forall2 (CmdArgs.arg_of consts h') gs xs ->
            forall k g, nth_error gs k = Some g -> exists y, nth_error xs k = Some y /\ CmdArgs.arg_of consts h' g y).
  { induction 1 as [|g0 x0 gs xs H0 _ IH]; intros [|k0] g0' Hn; cbn [nth_error] in *; try discriminate.
    - injection Hn as <-. eauto.
    - apply IH. exact Hn. }
  destruct (NTH _ _ F2 k _ Hk) as (y & Hy & A).
  exists args', y. split; [exact EP|]. split; [exact Hy|].
  remember (g1 ++ CmdArgs.PMoves lt clo mv :: g2) as g eqn:Eg.
  destruct A as [g P|g1' p g2' v sty l Q1 Q2 Hi Hf|g1' lt' clo' mv' g2' l Q1 Q2 Hf].
  - exfalso. subst g. pose proof (CmdArgs.pure_not_inline _ _ _ P) as X. discriminate X.
  - exfalso. assert (Ip : CmdArgs.is_inline p = true) by (destruct p; cbn in Hi; try discriminate; reflexivity).
    pose proof (one_inline_piece g1' g2' g1 g2 p (CmdArgs.PMoves lt clo mv) Q1 P1 Ip eq_refl Eg) as X. subst p. discriminate Hi.
  - pose proof (one_inline_piece g1' g2' g1 g2 (CmdArgs.PMoves lt' clo' mv') (CmdArgs.PMoves lt clo mv) Q1 P1 eq_refl eq_refl Eg) as X.
    injection X as _ _ X. rewrite <- X. exact Hf.
Qed.

(* D3b. inside the argument list of a command: at the token 'moves' the operator is run, its list is recorded for
   argument number [length args] of this command, an empty placeholder stands in the argument; an error of the list is
   the error of the command (same token, same message) *)
Theorem command_args_at_moves : forall switches env_errors parse_format consts f script cmdtok cidv ts depth parts args imp,
  ttype (cur ts) = MOVES ->
  command_args switches env_errors parse_format consts (S f) script cmdtok cidv ts depth parts args imp =
    match moves_operator switches env_errors f ts with
    | Parser.Ok (mv, ts1) =>
        command_args switches env_errors parse_format consts f script cmdtok cidv (adv ts1) depth (parts ++ [[]]) args
          {| idT := idT imp; idM := idM imp ++ [{| imCid := cidv; imArg := List.length args; imToks := mv; imScript := script; imCmdTok := cmdtok |}] |}
    | Err e => Err e | Panic => Panic | Fuel => Fuel
    end.
Proof.
  intros sw ee pf consts f script cmdtok cidv ts depth parts args imp H. rewrite CmdArgs.command_args_unfold.
  unfold curis, is. rewrite H. tts. cbn [andb]. reflexivity.
Qed.

(* D4. the hoisted movement in the output of the program *)
Lemma steps_out_ext : forall a b, map tlit a = map tlit b -> steps_out a = steps_out b.
Proof.
  induction a as [|x a IH]; intros [|y b] E; cbn [map] in E; try discriminate; [reflexivity|].
  injection E as E1 E2. cbn [steps_out]. rewrite E1, (IH b E2). reflexivity.
Qed.

Lemma emit_tops_block mp tl opt : forall l i x n tp blk,
  emit_tops mp tl opt l i = Emitter.Ok (x, n) -> In tp l -> emit_top mp tl opt tp = Some (Emitter.Ok blk) ->
  exists a b, x = a ++ blk ++ b.
Proof.
  induction l as [|tp0 r IH]; intros i x n tp blk H I T; [destruct I|]. cbn [emit_tops] in H.
  destruct I as [->|I].
  - rewrite T in H. cbn [bind_i] in H. destruct (emit_tops mp tl opt r (S i)) as [[y n']| | | |]; cbn [bind_i] in H; try discriminate H.
    injection H as <- _. eexists _, y. reflexivity.
  - destruct (emit_top mp tl opt tp0) as [rt|].
    + destruct rt as [x0| | | |]; cbn [bind_i] in H; try discriminate H.
      destruct (emit_tops mp tl opt r (S i)) as [[y n']| | | |] eqn:ER; cbn [bind_i] in H; try discriminate H.
      injection H as <- _. destruct (IH _ _ _ _ _ ER I T) as (a & b & ->).
      exists ((match i with O => [] | _ => [IBlank] end) ++ x0 ++ a), b. rewrite <- !app_assoc. reflexivity.
    + exact (IH _ _ _ _ _ H I T).
Qed.

(* every movement / mart statement of the program is in the output as one contiguous block *)
Theorem program_output_has_block : forall opt mp p is tp blk,
  emit_program_instrs opt mp p = Emitter.Ok is -> In tp (tops p) ->
  emit_top mp (map xname (texts p)) opt tp = Some (Emitter.Ok blk) ->
  exists a b, is = a ++ blk ++ b.
Proof.
  intros opt mp p is tp blk H I T. unfold emit_program_instrs in H. cbv zeta in H.
  destruct (emit_tops mp (map xname (texts p)) opt (tops p) 0) as [[x n]| | | |] eqn:E; try discriminate H.
  injection H as <-. destruct (emit_tops_block mp _ opt _ _ _ _ _ _ E I T) as (a & b & ->).
  exists a, (b ++ emit_texts mp (texts p) n). rewrite <- !app_assoc. reflexivity.
Qed.

(* The label that stands in the command for moves( src ) (moves_argument_becomes_label) is defined exactly once in the
   program, as a local movement whose step literals are those of the expansion of src, and this block is in the output.
   (hypotheses on ':' : the table of hoisted movements is keyed by the literals joined with ':' - Hoisting.mov_key,
   Hoisting.ex_mov_key_collision; the lexer never produces an identifier that contains ':') *)
Theorem hoisted_moves_block : forall autovars switches parse_format ts p st src l opt mp is,
  parse_program autovars switches true parse_format ts = Parser.Ok p ->
  parse_tops autovars switches true parse_format (5 * List.length ts + 4) Hoisting.pstate0 ts = Parser.Ok st ->
  step_list src -> assoc (hmset (ph st)) (mov_key (expand src)) = Some l ->
  (forall x, In x src -> ttype x = IDENT -> Hoisting.no_colon x) ->
  (forall tk steps, In (TMovement l false tk steps) (tops p) -> Forall Hoisting.no_colon steps) ->
  emit_program_instrs opt mp p = Emitter.Ok is ->
  List.length (filter (Hoisting.is_mov_named l) (tops p)) = 1%nat /\
  exists tk steps a b,
    In (TMovement l false tk steps) (tops p) /\ map tlit steps = map tlit (expand src) /\
    is = a ++ (marker mp (tline tk) ++ ILabel l false :: emit_steps mp steps) ++ b.
Proof.
  intros av sw pf ts p st src l opt mp is HP HT S HA NC1 NC2 HE.
  destruct (Hoisting.program_mov_label_defined_once av sw true pf eq_refl ts p st _ l HP HT HA) as (ONE & tk & steps & I & K & _).
  split; [exact ONE|]. exists tk, steps.
  assert (EQ : map tlit steps = map tlit (expand src)).
  { apply Hoisting.mov_key_injective; [exact (NC2 tk steps I)| |exact K].
    eapply Forall_impl; [|apply expand_idents; exact S]. intros x [H1 H2]. exact (NC1 x H2 H1). }
  destruct (program_output_has_block opt mp p is _ _ HE I (movement_top_output mp _ opt l false tk steps)) as (a & b & ->).
  exists a, b. auto.
Qed.

(* without line markers: the lines of the block are determined by the source list alone *)
Theorem hoisted_moves_lines : forall autovars switches parse_format ts p st src l opt is,
  parse_program autovars switches true parse_format ts = Parser.Ok p ->
  parse_tops autovars switches true parse_format (5 * List.length ts + 4) Hoisting.pstate0 ts = Parser.Ok st ->
  step_list src -> assoc (hmset (ph st)) (mov_key (expand src)) = Some l ->
  (forall x, In x src -> ttype x = IDENT -> Hoisting.no_colon x) ->
  (forall tk steps, In (TMovement l false tk steps) (tops p) -> Forall Hoisting.no_colon steps) ->
  emit_program_instrs opt None p = Emitter.Ok is ->
  exists a b, is = a ++ (ILabel l false :: map (fun x => ILine (tab ++ x)) (steps_out (expand src))) ++ b.
Proof.
  intros av sw pf ts p st src l opt is HP HT S HA NC1 NC2 HE.
  destruct (hoisted_moves_block av sw pf ts p st src l opt None is HP HT S HA NC1 NC2 HE) as (_ & tk & steps & a & b & I & EQ & ->).
  exists a, b. cbn [marker app]. rewrite (Props1.emit_steps_lines None steps eq_refl), (steps_out_ext _ _ EQ). reflexivity.
Qed.

(* the literals written for a step list, in the words of the property (a reading of Props1.steps_out) *)
Theorem steps_out_unterminated : forall l, Forall not_end l -> steps_out l = map tlit l ++ [t "step_end"].
Proof.
  intros l F. induction F as [|s r Hs F IH]; [reflexivity|]. cbn [steps_out map app]. rewrite (text_eqb_false _ _ Hs), IH. reflexivity.
Qed.
Theorem steps_out_terminated : forall pre e post, Forall not_end pre -> tlit e = t "step_end" ->
  steps_out (pre ++ e :: post) = map tlit pre ++ [t "step_end"].
Proof.
  intros pre e post F He. induction F as [|s r Hs F IH]; cbn [steps_out map app].
  - rewrite He, text_eqb_refl. reflexivity.
  - rewrite (text_eqb_false _ _ Hs), IH. reflexivity.
Qed.

(* ================================================================================================================ *)
(* 7b. Whole programs: every movement / mart statement of the author in an accepted program is the result of the     *)
(*     statement parser on a part of the input, so S2 / S6 apply to it, and its block is in the output              *)
(* ================================================================================================================ *)
Section PROGRAM.
Variable autovars : list (text * autovar).
Variable switches : list (text * text).
Variable ee : bool.
Variable parse_format : toks -> Parser.res (token * text * text * toks).
Hypothesis parse_format_advs : forall ts tk v sty ts', parse_format ts = Parser.Ok (tk, v, sty, ts') -> forall a, advs a ts -> advs a ts'.
Notation parse_tops := (Parser.parse_tops autovars switches ee parse_format).
Notation parse_program := (Parser.parse_program autovars switches ee parse_format).

Definition from_list_parser (tp : top) : Prop :=
  match tp with
  | TMovement _ _ _ _ => exists f ts0 ts1, eof_ended ts0 /\ parse_movement switches ee f ts0 = Parser.Ok (tp, ts1)
  | TMart _ _ _ _ _ => exists c f ts0 ts1, eof_ended ts0 /\ parse_mart switches ee c f ts0 = Parser.Ok (tp, ts1)
  | _ => True
  end.

Lemma parse_tops_lists f : forall st ts st',
  eof_ended ts -> parse_tops f st ts = Parser.Ok st' -> Forall from_list_parser (ptops st) -> Forall from_list_parser (ptops st').
Proof.
  induction f as [|f IH]; intros st ts st' EO H Hacc; [discriminate|].
  cbn [Parser.parse_tops] in H. destruct (curis EOF ts); [inversion H; subst; exact Hacc|]. cbv zeta in H.
  destruct (ttype (cur ts)); try discriminate.
  - destruct (parse_script autovars switches ee parse_format (pconsts st) f ts) as [[[[[name g] b] imp] ts1]| | |] eqn:E; try discriminate H.
    destruct (add_implicit imp (ph st)) as [h' ps].
    eapply IH; [|exact H|].
    + eapply advs_eof; [apply advs_k_adv; eapply parse_script_advs; [exact parse_format_advs|exact E|apply advs_refl]|exact EO].
    + cbn [ptops]. apply Forall_app. split; [exact Hacc|]. constructor; [exact I|constructor].
  - destruct (parse_raw ts) as [[tp ts1]| | |] eqn:E; try discriminate H.
    eapply IH; [|exact H|].
    + eapply advs_eof; [apply advs_k_adv; eapply parse_raw_advs; [exact E|apply advs_refl]|exact EO].
    + cbn [ptops]. apply Forall_app. split; [exact Hacc|]. constructor; [|constructor].
      unfold parse_raw in E. destruct (expect_peek RAWSTRING ts); [|discriminate E]. inversion E; subst. exact I.
  - destruct (parse_text switches ee parse_format f ts) as [[td ts1]| | |] eqn:E; try discriminate H.
    eapply IH; [|exact H|].
    + eapply advs_eof; [apply advs_k_adv; eapply parse_text_advs; [exact parse_format_advs|exact E|apply advs_refl]|exact EO].
    + cbn [ptops]. apply Forall_app. split; [exact Hacc|]. constructor; [exact I|constructor].
  - destruct (parse_movement switches ee f ts) as [[tp ts1]| | |] eqn:E; try discriminate H.
    eapply IH; [|exact H|].
    + eapply advs_eof; [apply advs_k_adv; eapply parse_movement_advs; [exact E|apply advs_refl]|exact EO].
    + cbn [ptops]. apply Forall_app. split; [exact Hacc|]. constructor; [|constructor].
      destruct (movement_statement_sound switches ee f ts tp ts1 EO E) as (h & n & lb & body & g & src & _ & _ & _ & _ & _ & _ & _ & ->).
      cbn [from_list_parser]. exists f, ts, ts1. split; [exact EO|exact E].
  - destruct (parse_mart switches ee (pconsts st) f ts) as [[tp ts1]| | |] eqn:E; try discriminate H.
    eapply IH; [|exact H|].
    + eapply advs_eof; [apply advs_k_adv; eapply parse_mart_advs; [exact E|apply advs_refl]|exact EO].
    + cbn [ptops]. apply Forall_app. split; [exact Hacc|]. constructor; [|constructor].
      destruct (mart_statement_sound switches ee (pconsts st) f ts tp ts1 EO E) as (h & n & lb & body & g & src & _ & _ & _ & _ & _ & _ & ->).
      cbn [from_list_parser]. exists (pconsts st), f, ts, ts1. split; [exact EO|exact E].
  - destruct (parse_mapscripts autovars switches ee parse_format (pconsts st) f ts) as [[[tp imp] ts1]| | |] eqn:E; try discriminate H.
    destruct (add_implicit imp (ph st)) as [h' ps].
    eapply IH; [|exact H|].
    + eapply advs_eof; [apply advs_k_adv; eapply parse_mapscripts_advs; [exact parse_format_advs|exact E|apply advs_refl]|exact EO].
    + cbn [ptops]. apply Forall_app. split; [exact Hacc|]. constructor; [|constructor].
      unfold parse_mapscripts in E. cbv zeta in E.
      destruct (scope_modifier true ts) as [[g0 ts0]| | |]; try discriminate E.
      destruct (expect_peek IDENT ts0) as [ts2|]; [|discriminate E].
      destruct (expect_peek LBRACE ts2) as [ts3|]; [|discriminate E].
      match type of E with match ?X with _ => _ end = _ => destruct X as [[[[plain tables] imp1] ts4]| | |]; try discriminate E end.
      inversion E; subst. exact I.
  - destruct (parse_const f (pconsts st) ts) as [[c' ts1]| | |] eqn:E; try discriminate H.
    eapply IH; [|exact H|exact Hacc].
    eapply advs_eof; [apply advs_k_adv; eapply parse_const_advs; [exact E|apply advs_refl]|exact EO].
Qed.

(* P1. every movement statement written by the author (not generated from moves()) in an accepted program *)
Theorem program_movement_statements : forall ts p st n g tk steps,
  eof_ended ts -> parse_program ts = Parser.Ok p ->
  parse_tops (5 * List.length ts + 4) Hoisting.pstate0 ts = Parser.Ok st ->
  In (TMovement n g tk steps) (ptops st) ->
  In (TMovement n g tk steps) (tops p) /\
  exists f ts0 ts1 src,
    eof_ended ts0 /\ parse_movement switches ee f ts0 = Parser.Ok (TMovement n g tk steps, ts1) /\
    step_list src /\ mults_ok src /\ steps = expand src /\
    (exists h nm lb body, ts0 = h ++ nm :: lb :: body /\ ttype lb = LBRACE /\ n = tlit nm /\ tk = cur ts0 /\
       list_erase switches ee f (LMov RBRACE) true body [] = Parser.Ok (src, ts1)).
Proof.
  intros ts p st n g tk steps EO HP HT I.
  assert (Tp : tops p = ptops st ++ hmovs (ph st)).
  { unfold Parser.parse_program in HP. fold Hoisting.pstate0 in HP. rewrite HT in HP.
    destruct (dup_text [] _); [discriminate HP|]. destruct (dup_mov [] _); [discriminate HP|]. inversion HP; subst. reflexivity. }
  split; [rewrite Tp; apply in_or_app; now left|].
  pose proof (parse_tops_lists _ _ _ _ EO HT (Forall_nil _)) as F. rewrite Forall_forall in F. specialize (F _ I).
  cbn [from_list_parser] in F. destruct F as (f & ts0 & ts1 & EO0 & E).
  destruct (movement_statement_sound switches ee f ts0 _ ts1 EO0 E) as (h & nm & lb & body & g' & src & E0 & Tn & Tl & ER & S & MO & CL & EQ).
  injection EQ as -> -> -> ->. exists f, ts0, ts1, src. repeat (split; [first [assumption|reflexivity]|]).
  exists h, nm, lb, body. repeat (split; [first [assumption|reflexivity]|]). exact ER.
Qed.

Theorem program_mart_statements : forall ts p st n g tk items itoks,
  eof_ended ts -> parse_program ts = Parser.Ok p ->
  parse_tops (5 * List.length ts + 4) Hoisting.pstate0 ts = Parser.Ok st ->
  In (TMart n g tk items itoks) (ptops st) ->
  In (TMart n g tk items itoks) (tops p) /\
  exists consts f ts0 ts1,
    eof_ended ts0 /\ parse_mart switches ee consts f ts0 = Parser.Ok (TMart n g tk items itoks, ts1) /\
    item_list itoks /\ items = map (item_value consts) itoks /\
    (exists h nm lb body, ts0 = h ++ nm :: lb :: body /\ ttype lb = LBRACE /\ n = tlit nm /\ tk = cur ts0 /\
       list_erase switches ee f LMart true body [] = Parser.Ok (itoks, ts1)).
Proof.
  intros ts p st n g tk items itoks EO HP HT I.
  assert (Tp : tops p = ptops st ++ hmovs (ph st)).
  { unfold Parser.parse_program in HP. fold Hoisting.pstate0 in HP. rewrite HT in HP.
    destruct (dup_text [] _); [discriminate HP|]. destruct (dup_mov [] _); [discriminate HP|]. inversion HP; subst. reflexivity. }
  split; [rewrite Tp; apply in_or_app; now left|].
  pose proof (parse_tops_lists _ _ _ _ EO HT (Forall_nil _)) as F. rewrite Forall_forall in F. specialize (F _ I).
  cbn [from_list_parser] in F. destruct F as (consts & f & ts0 & ts1 & EO0 & E).
  destruct (mart_statement_sound switches ee consts f ts0 _ ts1 EO0 E) as (h & nm & lb & body & g' & src & E0 & Tn & Tl & ER & S & CL & EQ).
  injection EQ as -> -> -> -> ->. exists consts, f, ts0, ts1. repeat (split; [first [assumption|reflexivity]|]).
  exists h, nm, lb, body. repeat (split; [first [assumption|reflexivity]|]). exact ER.
Qed.
End PROGRAM.

(* P1b. the movement table only grows while the program is parsed: the label that a command received for its moves(...)
   when its script was hoisted (h' of moves_argument_becomes_label; in parse_tops the parsing goes on with ph := h') is
   still the label of that key in the final table (ph st) that hoisted_moves_block speaks about *)
Lemma add_implicit_table_grows imp h h' ps : add_implicit imp h = (h', ps) ->
  forall k l, assoc (hmset h) k = Some l -> assoc (hmset h') k = Some l.
Proof.
  unfold add_implicit. destruct (add_texts (idT imp) h []) as [h1 ps1] eqn:E1. intros E2 k l A.
  destruct (CmdArgs.add_texts_patches _ _ _ _ _ E1) as (_ & HM & _).
  destruct (CmdArgs.add_movs_patches _ _ _ _ _ E2) as (Mono & _). apply Mono. rewrite HM. exact A.
Qed.

Theorem movement_table_grows : forall autovars switches ee parse_format f st ts st',
  Parser.parse_tops autovars switches ee parse_format f st ts = Parser.Ok st' ->
  forall k l, assoc (hmset (ph st)) k = Some l -> assoc (hmset (ph st')) k = Some l.
Proof.
  intros av sw ee pf. induction f as [|f IH]; intros st ts st' H k l A; [discriminate|].
  cbn [Parser.parse_tops] in H. destruct (curis EOF ts); [inversion H; subst; exact A|]. cbv zeta in H.
  destruct (ttype (cur ts)); try discriminate.
  - destruct (parse_script av sw ee pf (pconsts st) f ts) as [[[[[name g] b] imp] ts1]| | |]; try discriminate H.
    destruct (add_implicit imp (ph st)) as [h' ps] eqn:EA. eapply IH; [exact H|]. cbn [ph]. eapply add_implicit_table_grows; eassumption.
  - destruct (parse_raw ts) as [[tp ts1]| | |]; try discriminate H. eapply IH; [exact H|exact A].
  - destruct (parse_text sw ee pf f ts) as [[td ts1]| | |]; try discriminate H. eapply IH; [exact H|exact A].
  - destruct (parse_movement sw ee f ts) as [[tp ts1]| | |]; try discriminate H. eapply IH; [exact H|exact A].
  - destruct (parse_mart sw ee (pconsts st) f ts) as [[tp ts1]| | |]; try discriminate H. eapply IH; [exact H|exact A].
  - destruct (parse_mapscripts av sw ee pf (pconsts st) f ts) as [[[tp imp] ts1]| | |]; try discriminate H.
    destruct (add_implicit imp (ph st)) as [h' ps] eqn:EA. eapply IH; [exact H|]. cbn [ph]. eapply add_implicit_table_grows; eassumption.
  - destruct (parse_const f (pconsts st) ts) as [[c' ts1]| | |]; try discriminate H. eapply IH; [exact H|exact A].
Qed.

(* P2. END TO END for the blocks: in the output of an accepted program every movement top (statement or hoisted) is
   the block  label, step lines up to and including the first step_end else all steps and one step_end;  every mart top
   is  .align 2, label, .2byte lines before the first ITEM_NONE value, one .2byte ITEM_NONE *)
Theorem program_movement_block : forall opt mp p is n g tk steps,
  emit_program_instrs opt mp p = Emitter.Ok is -> In (TMovement n g tk steps) (tops p) ->
  exists a b, is = a ++ (marker mp (tline tk) ++ ILabel n g :: emit_steps mp steps) ++ b /\
    (Forall not_end steps -> emit_steps mp steps = flat_map (step_line mp) steps ++ [end_line]) /\
    (forall pre e post, steps = pre ++ e :: post -> Forall not_end pre -> tlit e = t "step_end" ->
       emit_steps mp steps = flat_map (step_line mp) (pre ++ [e])).
Proof.
  intros opt mp p is n g tk steps HE I.
  destruct (program_output_has_block opt mp p is _ _ HE I (movement_top_output mp _ opt n g tk steps)) as (a & b & ->).
  exists a, b. split; [reflexivity|]. split; [apply emit_steps_unterminated|].
  intros pre e post -> F He. apply emit_steps_terminated; assumption.
Qed.

Theorem program_mart_block : forall opt mp p is n g tk (val : token -> text) itoks,
  emit_program_instrs opt mp p = Emitter.Ok is -> In (TMart n g tk (map val itoks) itoks) (tops p) ->
  exists a b, is = a ++ (ILine (tab ++ t ".align 2") :: marker mp (tline tk) ++ ILabel n g :: emit_items mp (map val itoks) itoks ++ [none_line]) ++ b /\
    (Forall (fun x => val x <> t "ITEM_NONE") itoks -> emit_items mp (map val itoks) itoks = flat_map (item_line mp val) itoks) /\
    (forall pre e post, itoks = pre ++ e :: post -> Forall (fun x => val x <> t "ITEM_NONE") pre -> val e = t "ITEM_NONE" ->
       emit_items mp (map val itoks) itoks = flat_map (item_line mp val) pre).
Proof.
  intros opt mp p is n g tk val itoks HE I.
  destruct (program_output_has_block opt mp p is _ _ HE I (mart_top_output mp _ opt n g tk _ _)) as (a & b & ->).
  exists a, b. split; [reflexivity|]. split; [apply emit_items_unterminated|].
  intros pre e post -> F He. apply emit_items_terminated; assumption.
Qed.

(* ================================================================================================================ *)
(* 8. Commas are pure separators: never required, and removing them changes neither acceptance nor the result       *)
(* ================================================================================================================ *)
Definition no_commas (src : list token) : list token := filter (fun tk => negb (is COMMA tk)) src.

Theorem commas_are_irrelevant : forall src, step_list src ->
  step_list (no_commas src) /\ expand (no_commas src) = expand src /\ multipliers (no_commas src) = multipliers src.
Proof.
  intros src S. induction S as [|x s Hx S (IH1 & IH2 & IH3)|x m n s Hx Hm Hn S (IH1 & IH2 & IH3)|c s Hc S (IH1 & IH2 & IH3)];
    unfold no_commas in *; cbn [filter].
  - split; [constructor|split; reflexivity].
  - rewrite (is_false COMMA x) by (rewrite Hx; discriminate). cbn [negb].
    split; [apply sl_step; assumption|]. split.
    + rewrite (expand_step_list_step x _ Hx IH1), (expand_step_list_step x s Hx S), IH2. reflexivity.
    + rewrite !(multipliers_step x _ Hx). exact IH3.
  - rewrite (is_false COMMA x), (is_false COMMA m), (is_false COMMA n) by (rewrite ?Hx, ?Hm, ?Hn; discriminate). cbn [negb].
    split; [apply sl_mul; assumption|]. split.
    + rewrite !(expand_mul x m n _ Hx Hm), IH2. reflexivity.
    + rewrite !(multipliers_mul x m n _ Hx Hm Hn), IH3. reflexivity.
  - rewrite (is_true COMMA c Hc). cbn [negb]. split; [exact IH1|]. split.
    + rewrite (expand_comma c s Hc). exact IH2.
    + rewrite (multipliers_comma c s Hc). exact IH3.
Qed.

(* ================================================================================================================ *)
(* 8b. Decimal multipliers: for a literal of decimal digits without a leading zero, "reads as a number in 1..9999"   *)
(*     is a statement about its decimal value (boundary B6; hex and leading-0 octal literals: see the examples)      *)
(* ================================================================================================================ *)
Definition dec_digit (d : N) : Prop := (48 <= d <= 57)%N.
Definition dec_value (ds : text) (acc : Z) : Z := fold_left (fun a d => (a * 10 + (Z.of_N d - 48))%Z) ds acc.

Lemma digit_val_dec d : dec_digit d -> digit_val d = Some (Z.of_N d - 48)%Z.
Proof. intros [H1 H2]. unfold digit_val. apply N.leb_le in H1, H2. rewrite H1, H2. reflexivity. Qed.

Lemma dec_value_ge ds : Forall dec_digit ds -> forall acc, (0 <= acc)%Z -> (acc <= dec_value ds acc)%Z.
Proof.
  induction 1 as [|d r Hd F IH]; intros acc A; cbn [dec_value fold_left]; [lia|].
  destruct Hd as [H1 H2]. fold (dec_value r (acc * 10 + (Z.of_N d - 48))%Z).
  specialize (IH (acc * 10 + (Z.of_N d - 48))%Z). lia.
Qed.

Lemma parse_digits_dec ds : Forall dec_digit ds -> forall acc, (0 <= acc <= 9223372036854775808)%Z ->
  parse_digits 10 ds acc = if (dec_value ds acc >? 9223372036854775808)%Z then None else Some (dec_value ds acc).
Proof.
  induction 1 as [|d r Hd F IH]; intros acc A; cbn [parse_digits dec_value fold_left].
  - destruct (Z.gtb_spec acc 9223372036854775808); [lia|reflexivity].
  - rewrite (digit_val_dec d Hd). destruct Hd as [H1 H2].
    fold (dec_value r (acc * 10 + (Z.of_N d - 48))%Z).
    destruct (Z.ltb_spec (Z.of_N d - 48) 10); [|lia].
    pose proof (dec_value_ge r F (acc * 10 + (Z.of_N d - 48))%Z ltac:(lia)) as G.
    destruct (Z.gtb_spec (acc * 10 + (Z.of_N d - 48)) 9223372036854775808).
    + destruct (Z.gtb_spec (dec_value r (acc * 10 + (Z.of_N d - 48))) 9223372036854775808); [reflexivity|lia].
    + apply IH. lia.
Qed.

Lemma go_parse_int_dec d ds : (49 <= d <= 57)%N ->
  go_parse_int (d :: ds) = match parse_digits 10 (d :: ds) 0 with
                           | None => None
                           | Some v => if (v >? 9223372036854775807)%Z || (v <? -9223372036854775808)%Z then None else Some v
                           end.
Proof.
  intros H.
  assert (C : (d = 49 \/ d = 50 \/ d = 51 \/ d = 52 \/ d = 53 \/ d = 54 \/ d = 55 \/ d = 56 \/ d = 57)%N) by lia.
  repeat (destruct C as [C|C]; [subst d; reflexivity|]). subst d; reflexivity.
Qed.

(* a decimal literal reads as its decimal value, provided that fits 64 bits *)
Theorem decimal_literal_value : forall d ds, (49 <= d <= 57)%N -> Forall dec_digit ds ->
  go_parse_int (d :: ds) = if (dec_value (d :: ds) 0 >? 9223372036854775807)%Z then None else Some (dec_value (d :: ds) 0).
Proof.
  intros d ds Hd F. rewrite (go_parse_int_dec d ds Hd).
  assert (F' : Forall dec_digit (d :: ds)) by (constructor; [unfold dec_digit; lia|exact F]).
  rewrite (parse_digits_dec (d :: ds) F' 0%Z ltac:(lia)).
  pose proof (dec_value_ge (d :: ds) F' 0%Z ltac:(lia)) as G.
  destruct (Z.gtb_spec (dec_value (d :: ds) 0) 9223372036854775808).
  - destruct (Z.gtb_spec (dec_value (d :: ds) 0) 9223372036854775807); [reflexivity|lia].
  - destruct (Z.gtb_spec (dec_value (d :: ds) 0) 9223372036854775807); cbn [orb]; [reflexivity|].
    destruct (Z.ltb_spec (dec_value (d :: ds) 0) (-9223372036854775808)); [lia|reflexivity].
Qed.

(* so: 'x * N' with N a decimal literal is accepted exactly when 1 <= N <= 9999, and then stands for N copies *)
Theorem decimal_multiplier_ok : forall n d ds, tlit n = d :: ds -> (49 <= d <= 57)%N -> Forall dec_digit ds ->
  (mult_ok n <-> (1 <= dec_value (d :: ds) 0 <= 9999)%Z) /\
  ((1 <= dec_value (d :: ds) 0 <= 9999)%Z -> mult n = Z.to_nat (dec_value (d :: ds) 0)).
Proof.
  intros n d ds E Hd F. unfold mult_ok, mult. rewrite E, (decimal_literal_value d ds Hd F).
  destruct (Z.gtb_spec (dec_value (d :: ds) 0) 9223372036854775807) as [G|G].
  - split; [split|]; [intros (k & X & _); discriminate X|lia|lia].
  - split; [split|]; [intros (k & X & R); injection X as <-; exact R|intros R; eexists; split; [reflexivity|exact R]|reflexivity].
Qed.

(* ================================================================================================================ *)
(* 9. Examples: the hypotheses are satisfiable, the model run agrees; boundary cases                                *)
(* ================================================================================================================ *)
Module Examples.
Definition lx (s : string) : toks := lex (fun _ => false) (fun _ => false) (fun _ => false) (t s).
Definition names (l : list token) : list text := map tlit l.
Ltac grammar :=
  repeat first [ apply sl_nil
               | apply sl_mul; [reflexivity|reflexivity|reflexivity|]
               | apply sl_step; [reflexivity|]
               | apply sl_comma; [reflexivity|] ].
Ltac mults := unfold mults_ok; cbn [multipliers filter]; repeat (apply Forall_cons; [eexists; split; [vm_compute; reflexivity|lia]|]); apply Forall_nil.

(* movement M { walk_up * 2, face_down step_end * 3 walk_left } *)
Definition stream1 := Eval vm_compute in lx "movement M { walk_up * 2, face_down step_end * 3 walk_left }".
Definition hd1 := firstn 3 stream1.
Definition s1a := firstn 5 (skipn 3 stream1).      (* walk_up * 2 , face_down *)
Definition s1b := firstn 4 (skipn 8 stream1).      (* step_end * 3 walk_left *)
Definition rest1 := skipn 12 stream1.              (* } EOF *)

Example ex1_split : stream1 = hd1 ++ (s1a ++ s1b) ++ rest1. Proof. reflexivity. Qed.
Example ex1_header : exists kw name, stmt_header hd1 kw name false /\ tlit name = t "M".
Proof. eexists _, _. split; [apply hdr_plain; reflexivity|reflexivity]. Qed.
Example ex1_grammar : step_list s1a /\ step_list s1b /\ step_list (s1a ++ s1b).
Proof. split; [|split]; vm_compute; grammar. Qed.
Example ex1_mults : mults_ok (s1a ++ s1b).
Proof. vm_compute firstn. mults. Qed.
Example ex1_expand : names (expand (s1a ++ s1b)) =
  [t "walk_up"; t "walk_up"; t "face_down"; t "step_end"; t "step_end"; t "step_end"; t "walk_left"].
Proof. vm_compute. reflexivity. Qed.
(* the model run: the steps before the first step_end, one step_end, nothing else *)
Example ex1_run :
  match parse_movement [] true 100 stream1 with
  | Parser.Ok (tp, _) => emit_top None [] false tp
  | _ => None
  end = Some (Emitter.Ok [ILabel (t "M") false; ILine (tab ++ t "walk_up"); ILine (tab ++ t "walk_up");
                          ILine (tab ++ t "face_down"); ILine (tab ++ t "step_end")]).
Proof. vm_compute. reflexivity. Qed.

(* all hypotheses of S5 together, on this input *)
Example ex1_theorem : exists tp, parse_movement [] true 100 stream1 = Parser.Ok (tp, rest1) /\
  emit_top None [] false tp = Some (Emitter.Ok (ILabel (t "M") false :: flat_map (step_line None) (expand s1a ++ [nth 8 stream1 eof0]))).
Proof.
  rewrite ex1_split.
  apply (movement_statement_compiles_terminated [] true None [] false 100 hd1 (nth 0 stream1 eof0) (nth 1 stream1 eof0) false
           s1a (nth 8 stream1 eof0) (skipn 1 s1b) (nth 12 stream1 eof0) (skipn 13 stream1)).
  - apply hdr_plain; reflexivity.
  - vm_compute; grammar.
  - vm_compute; grammar.
  - vm_compute firstn. mults.
  - reflexivity.
  - reflexivity.
  - intros x Hx _. vm_compute in Hx. unfold not_end.
    repeat (destruct Hx as [<-|Hx]; [vm_compute; discriminate|]). destruct Hx.
  - reflexivity.
  - vm_compute. lia.
Qed.

(* the multiplier is read as by strconv.ParseInt(., 0, 64): decimal, 0x hex, leading-0 OCTAL; boundary 1..9999 *)
Example ex_multiplier_readings :
  go_parse_int (t "9999") = Some 9999%Z /\ go_parse_int (t "0x270F") = Some 9999%Z /\ go_parse_int (t "023417") = Some 9999%Z /\
  go_parse_int (t "010") = Some 8%Z /\ go_parse_int (t "10000") = Some 10000%Z /\ go_parse_int (t "0x2710") = Some 10000%Z /\
  go_parse_int (t "0") = Some 0%Z /\ go_parse_int (t "-1") = Some (-1)%Z /\ go_parse_int (t "99999999999999999999") = None.
Proof. vm_compute. repeat split. Qed.

Example ex_decimal : dec_value (t "9999") 0 = 9999%Z /\ dec_value (t "10000") 0 = 10000%Z /\
  (forall n, tlit n = t "250" -> mult_ok n /\ mult n = 250%nat).
Proof.
  split; [reflexivity|]. split; [reflexivity|]. intros n E.
  assert (F : Forall dec_digit [53%N; 48%N]) by (repeat (apply Forall_cons; [unfold dec_digit; lia|]); apply Forall_nil).
  destruct (decimal_multiplier_ok n 50%N [53%N; 48%N] E ltac:(lia) F) as [[_ A] B].
  change (dec_value [50%N; 53%N; 48%N] 0) with 250%Z in *. split; [apply A; lia|apply B; lia].
Qed.

Definition err_pos {A} (r : Parser.res A) : option (Z * Z * text) :=
  match r with Err e => Some (els e, ecs e, emsg e) | _ => None end.

(* 'a * 010' is EIGHT copies (octal) *)
Example ex_octal : match parse_movement [] true 100 (lx "movement M { a * 010 }") with
                   | Parser.Ok (TMovement _ _ _ mv, _) => Some (List.length mv) | _ => None end = Some 8%nat.
Proof. vm_compute. reflexivity. Qed.
Example ex_9999_accepted : match parse_movement [] true 100 (lx "movement M { a * 9999 }") with
                   | Parser.Ok (TMovement _ _ _ mv, _) => Some (Z.of_nat (List.length mv)) | _ => None end = Some 9999%Z.
Proof. vm_compute. reflexivity. Qed.
(* rejected, the error stands at the multiplier token (line 1, column of the number) *)
Example ex_10000_rejected : err_pos (parse_movement [] true 100 (lx "movement M { a * 10000 }")) = Some (1%Z, 17%Z, t "movement mulplier is too large").
Proof. vm_compute. reflexivity. Qed.
Example ex_0_rejected : err_pos (parse_movement [] true 100 (lx "movement M { a * 0 }")) = Some (1%Z, 17%Z, t "movement mulplier must be a positive integer").
Proof. vm_compute. reflexivity. Qed.
Example ex_negative_rejected : err_pos (parse_movement [] true 100 (lx "movement M { a * -1 }")) = Some (1%Z, 17%Z, t "movement mulplier must be a positive integer").
Proof. vm_compute. reflexivity. Qed.
Example ex_not_a_number_rejected : err_pos (parse_movement [] true 100 (lx "movement M { a * b }")) = Some (1%Z, 17%Z, t "expected mulplier number for movement command").
Proof. vm_compute. reflexivity. Qed.
Example ex_star_without_step : err_pos (parse_movement [] true 100 (lx "movement M { * 3 a }")) = Some (1%Z, 13%Z, t "expected movement command").
Proof. vm_compute. reflexivity. Qed.
Example ex_double_star : err_pos (parse_movement [] true 100 (lx "movement M { a * 3 * 2 }")) = Some (1%Z, 19%Z, t "expected movement command").
Proof. vm_compute. reflexivity. Qed.
(* the hypotheses of star_without_step_rejected on that input: src = 'a * 3', then '*' *)
Example ex_double_star_hyps :
  let s := lx "a * 3 * 2 }" in
  step_list (firstn 3 s) /\ mults_ok (firstn 3 s) /\ no_open_step (firstn 3 s) /\ ttype (nth 3 s eof0) = MUL.
Proof.
  vm_compute lx. cbn [firstn nth]. split; [grammar|]. split; [mults|]. split; [|reflexivity].
  intros s x E. match type of E with [?a; ?b; ?c] = _ => change ([a; b] ++ [c] = s ++ [x]) in E end.
  apply app_inj_tail in E. destruct E as [_ <-]. discriminate.
Qed.

(* mart: commas are NOT accepted (parseMartValue has no comma branch); the error stands at the comma *)
Example ex_mart_comma_rejected : err_pos (parse_mart [] true [] 100 (lx "mart M { ITEM_A, ITEM_B }")) = Some (1%Z, 15%Z, t "expected mart item").
Proof. vm_compute. reflexivity. Qed.
(* mart: the item whose VALUE (after constant substitution) is ITEM_NONE ends the list; the rest is parsed, not emitted *)
Example ex_mart_run :
  match parse_mart [] true [(t "STOP", t "ITEM_NONE")] 100 (lx "mart M { ITEM_A STOP ITEM_B }") with
  | Parser.Ok (tp, _) => emit_top None [] false tp
  | _ => None
  end = Some (Emitter.Ok [ILine (tab ++ t ".align 2"); ILabel (t "M") false; ILine (tab ++ t ".2byte ITEM_A"); ILine (tab ++ t ".2byte ITEM_NONE")]).
Proof. vm_compute. reflexivity. Qed.
Example ex_mart_hyps :
  let s := lx "mart M { ITEM_A STOP ITEM_B }" in
  (exists kw name, stmt_header (firstn 3 s) kw name false) /\ item_list (firstn 3 (skipn 3 s)) /\
  item_value [(t "STOP", t "ITEM_NONE")] (nth 4 s eof0) = t "ITEM_NONE" /\ ttype (nth 6 s eof0) = RBRACE.
Proof.
  vm_compute lx. cbn [firstn skipn nth]. split; [eexists _, _; apply hdr_plain; reflexivity|].
  split; [repeat constructor|]. split; [vm_compute|]; reflexivity.
Qed.
(* a garbage tail behind ITEM_NONE is still a syntax error: "parsed but not emitted" *)
Example ex_mart_tail_checked : err_pos (parse_mart [] true [] 100 (lx "mart M { ITEM_A ITEM_NONE 5 }")) = Some (1%Z, 26%Z, t "expected mart item").
Proof. vm_compute. reflexivity. Qed.
Example ex_movement_tail_checked : err_pos (parse_movement [] true 100 (lx "movement M { a step_end b * 0 }")) = Some (1%Z, 28%Z, t "movement mulplier must be a positive integer").
Proof. vm_compute. reflexivity. Qed.

(* a whole program: moves(...) in a command is hoisted to the local movement S_Movement_0; the command names the label;
   the block ends at the step_end the author wrote *)
Definition pf0 : toks -> Parser.res (token * text * text * toks) := fun _ => Panic.
Example ex_program_moves :
  match parse_program [] [] true pf0 (lx "script S { applymovement(2, moves(walk_up * 2 step_end walk_down)) }") with
  | Parser.Ok p => match emit_program_instrs false None p with
                     | Emitter.Ok is => Some (match nth 1 is IBlank with ICmd c => cargs c | _ => [] end, skipn 5 is)
                     | _ => None end
  | _ => None
  end = Some ([t "2"; t "S_Movement_0"], [ILabel (t "S_Movement_0") false; ILine (tab ++ t "walk_up"); ILine (tab ++ t "walk_up"); ILine (tab ++ t "step_end")]).
Proof. vm_compute. reflexivity. Qed.
End Examples.
