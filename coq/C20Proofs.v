(* C20: ill-formed control flow is rejected at the offending token, in whatever context the parser meets it. *)
From Coq Require Import List String Ascii ZArith NArith Lia Bool.
From Pory Require Import Lexer Ast Parser.
Import ListNotations.
Open Scope list_scope.

Section P.
Variable autovars : list (text * autovar).
Variable switches : list (text * text).
Variable env_errors : bool.
Variable parse_format : toks -> res (token * text * text * toks).
Variable consts : list (text * text).

Notation parse_stmt := (parse_stmt autovars switches env_errors parse_format consts).
Notation parse_cases := (parse_cases autovars switches env_errors parse_format consts).

Definition rejected_at {A} (r : res A) (tk : token) : Prop :=
  exists e, r = Err e /\ els e = tline tk /\ ecs e = tsb tk /\ eus e = tsu tk.

(* the breakable / continuable stacks [bs], [cs] are empty exactly when no loop or switch (resp. loop) encloses the statement *)
Lemma break_outside_rejected f script cs ts :
  ttype (cur ts) = BREAK -> rejected_at (parse_stmt (S f) script [] cs ts) (cur ts).
Proof. intros H. cbn [Parser.parse_stmt]. rewrite H. eexists. split; [reflexivity|]. cbn. auto. Qed.

Lemma continue_outside_rejected f script bs ts :
  ttype (cur ts) = CONTINUE -> rejected_at (parse_stmt (S f) script bs [] ts) (cur ts).
Proof. intros H. cbn [Parser.parse_stmt]. rewrite H. eexists. split; [reflexivity|]. cbn. auto. Qed.

Lemma continue_not_last_rejected f script bs tg cs ts :
  ttype (cur ts) = CONTINUE -> peekis RBRACE ts = false ->
  rejected_at (parse_stmt (S f) script bs (tg :: cs) ts) (cur ts).
Proof. intros H P. cbn [Parser.parse_stmt]. rewrite H, P. eexists. split; [reflexivity|]. cbn. auto. Qed.

(* accepted forms, for contrast: inside a scope break / a last continue are annotated with the innermost tag *)
Lemma break_inside_accepted f script tg bs cs ts :
  ttype (cur ts) = BREAK -> parse_stmt (S f) script (tg :: bs) cs ts = Ok ([SBreak tg], imp0, ts).
Proof. intros H. cbn [Parser.parse_stmt]. rewrite H. reflexivity. Qed.
Lemma continue_last_accepted f script bs tg cs ts :
  ttype (cur ts) = CONTINUE -> peekis RBRACE ts = true ->
  parse_stmt (S f) script bs (tg :: cs) ts = Ok ([SContinue tg], imp0, ts).
Proof. intros H P. cbn [Parser.parse_stmt]. rewrite H, P. reflexivity. Qed.

(* a second default, or a case whose (constant-expanded) value was already seen, is rejected at that case *)
Lemma two_defaults_rejected f script bs cs brace ts acc seen imp :
  curis RBRACE ts = false -> curis CASE ts = false -> curis DEFAULT ts = true ->
  rejected_at (parse_cases (S f) script bs cs brace ts acc seen true imp) (cur ts).
Proof. intros H1 H2 H3. cbn [Parser.parse_cases]. rewrite H1, H2, H3. eexists. split; [reflexivity|]. cbn. auto. Qed.

Lemma duplicate_case_rejected f script bs cs brace ts acc seen hasdef imp parts ts2 :
  curis RBRACE ts = false -> curis CASE ts = true ->
  collect_until consts f (is COLON) (adv ts) [] = Some (parts, ts2) ->
  existsb (text_eqb (join sp parts)) seen = true ->
  rejected_at (parse_cases (S f) script bs cs brace ts acc seen hasdef imp) (cur ts).
Proof.
  intros H1 H2 H3 H4. cbn [Parser.parse_cases]. rewrite H1, H2, H3, H4. eexists. split; [reflexivity|]. cbn. auto.
Qed.
End P.
