(* C12 - poryswitch in the list positions (movement statement, moves(), mart statement) and in the text position.

   Part 1: one-step selection lemmas (the analogue of poryswitch_statement_selects).
   Part 2: the case table: which entry the lookup finds (the LAST case with the label).
   Part 3: erasure for lists: a list that parses, parses to the same items when every poryswitch in it is replaced by
           the content of its selected case (list_erase); lifted to parse_movement, parse_mart, moves_operator.
   Part 4: the text position: selection, case table, and the replacement of the poryswitch by the selected value
           at the level of parse_text.
   Part 5: the model's format() operator depends only on the tokens it consumes (real_format_local), which makes the
           text theorem unconditional for Format.parse_format.
   The main theorems are collected under MAIN THEOREMS (each followed by Print Assumptions); concrete programs,
   lexed by the model's lexer, are under EXAMPLES together with two observations about corner cases. *)
From Coq Require Import List String Ascii ZArith NArith Lia Bool.
From Pory Require Import Lexer Ast Parser Consume.
Import ListNotations.
Open Scope list_scope.

(* ------------------------------------------------------------------------------------------------------------ *)
(* generic facts                                                                                                *)
(* ------------------------------------------------------------------------------------------------------------ *)

(* the entry chosen by a poryswitch from its case table: the case equal to the switch value, else the case '_' *)
Definition pory_select {B} (cases : list (text * B)) (sv : option text) : option B :=
  match assoc cases (sval sv) with
  | Some b => Some b
  | None => assoc cases (t "_")
  end.

Lemma text_eqb_refl x : text_eqb x x = true.
Proof. unfold text_eqb. destruct (list_eq_dec N.eq_dec x x); [reflexivity|congruence]. Qed.
Lemma text_eqb_eq x y : text_eqb x y = true -> x = y.
Proof. unfold text_eqb. destruct (list_eq_dec N.eq_dec x y); [auto|discriminate]. Qed.
Lemma text_eqb_neq x y : text_eqb x y = false -> x <> y.
Proof. unfold text_eqb. destruct (list_eq_dec N.eq_dec x y); [discriminate|auto]. Qed.

Lemma assoc_app {B} (l1 l2 : list (text * B)) x :
  assoc (l1 ++ l2) x = match assoc l1 x with Some b => Some b | None => assoc l2 x end.
Proof.
  induction l1 as [|[a b] l1 IH]; [reflexivity|]. cbn [app assoc]. destruct (text_eqb a x); [reflexivity|exact IH].
Qed.

(* the cases are accumulated in reverse order: looking a label up in the table finds the LAST case, in source order,
   that carries the label *)
Lemma assoc_rev_none {B} (l : list (text * B)) x : assoc (rev l) x = None <-> assoc l x = None.
Proof.
  induction l as [|[a c] l IH]; [tauto|]. cbn [rev assoc]. rewrite assoc_app. cbn [assoc].
  destruct (text_eqb a x).
  - split; [|discriminate]. destruct (assoc (rev l) x); discriminate.
  - destruct (assoc (rev l) x); [split; [discriminate|]; intros K; apply IH in K; discriminate|tauto].
Qed.

Lemma assoc_rev_last {B} (l : list (text * B)) x b :
  assoc (rev l) x = Some b <-> exists l1 l2, l = l1 ++ (x, b) :: l2 /\ assoc l2 x = None.
Proof.
  revert b. induction l as [|[a c] l IH]; intros b.
  - cbn. split; [discriminate|]. intros (l1 & l2 & E & _). destruct l1; discriminate.
  - cbn [rev]. rewrite assoc_app. split.
    + pose proof (fun b0 => proj1 (IH b0)) as IH1. clear IH.
      destruct (assoc (rev l) x) as [b'|] eqn:A.
      * intros E. inversion E; subst b'. destruct (IH1 _ eq_refl) as (l1 & l2 & -> & N).
        exists ((a, c) :: l1), l2. split; [reflexivity|exact N].
      * cbn [assoc]. destruct (text_eqb a x) eqn:T; [|discriminate]. intros E; inversion E; subst c.
        apply text_eqb_eq in T. subst a. exists [], l. split; [reflexivity|]. apply assoc_rev_none, A.
    + intros (l1 & l2 & E & N). destruct l1 as [|p l1].
      * cbn in E. inversion E; subst. apply assoc_rev_none in N. rewrite N. cbn. rewrite text_eqb_refl. reflexivity.
      * cbn in E. inversion E; subst.
        assert (A : assoc (rev (l1 ++ (x, b) :: l2)) x = Some b) by (apply IH; eauto).
        rewrite A. reflexivity.
Qed.

Definition closing_of (k : listkind) : toktype := match k with LMov c => c | LMart => RBRACE end.
Definition is_mov (k : listkind) : bool := match k with LMov _ => true | LMart => false end.
(* the kind used for the content of a poryswitch case *)
Definition case_kind (k : listkind) (brace : bool) : listkind :=
  match k with LMov c => if brace then LMov RBRACE else LMov c | LMart => LMart end.

(* ------------------------------------------------------------------------------------------------------------ *)
(* Part 1: one-step selection                                                                                   *)
(* ------------------------------------------------------------------------------------------------------------ *)
Section SEL.
Variable switches : list (text * text).
Variable env_errors : bool.
Notation list_value := (list_value switches env_errors).
Notation list_cases := (list_cases switches env_errors).
Notation poryswitch_header := (poryswitch_header switches env_errors).

(* list position (movement statement, moves(), mart statement): the items contributed by a poryswitch are those of the
   selected case; then the list goes on behind the poryswitch (multi) or ends (single item of a colon case) *)
Lemma list_pory_selected f k multi ts acc sc sv ts1 cases ts2 :
  curis (closing_of k) ts = false -> curis PORYSWITCH ts = true ->
  poryswitch_header ts = Ok (sc, sv, ts1) ->
  list_cases f k (cur ts1) ts1 [] = Ok (cases, ts2) ->
  list_value (S f) k multi ts acc =
    let continue acc' := if multi then list_value f k multi (adv ts2) acc' else Ok (acc', adv ts2) in
    match pory_select cases sv with
    | Some items => continue (acc ++ items)
    | None => if env_errors then err_tok (cur ts) "no poryswitch case found" else continue acc
    end.
Proof.
  intros C P H1 H2. rewrite list_value_unfold. cbv zeta. unfold closing_of in C. rewrite C, P, H1. cbv beta iota.
  rewrite H2. unfold pory_select. destruct (assoc cases (sval sv)); [reflexivity|]. destruct (assoc cases (t "_")); reflexivity.
Qed.
End SEL.

(* ------------------------------------------------------------------------------------------------------------ *)
(* Part 3: erasure of poryswitch from a list                                                                    *)
(* ------------------------------------------------------------------------------------------------------------ *)
Section ERASE.
Variable switches : list (text * text).
Variable env_errors : bool.
Notation list_value := (list_value switches env_errors).
Notation list_cases := (list_cases switches env_errors).
Notation poryswitch_header := (poryswitch_header switches env_errors).

(* The source text of a list with every poryswitch replaced by the content of its selected case (recursively):
   a copy of list_value / list_cases in which every consumed token that is not part of a poryswitch construct is
   copied verbatim (the movement command, the '*' and the count, the comma, the mart item), and a poryswitch contributes
   the erased source of its selected case - nothing of its header, labels, braces, or of the other cases. *)
Fixpoint list_erase (fuel : nat) (k : listkind) (multi : bool) (ts : toks) (acc : list token) {struct fuel}
  : res (list token * toks) :=
  match fuel with O => Fuel | S f =>
  let closing := match k with LMov c => c | LMart => RBRACE end in
  if curis closing ts then Ok (acc, ts) else
  let continue (acc' : list token) (ts' : toks) :=
      if multi then list_erase f k multi ts' acc' else Ok (acc', ts') in
  if curis PORYSWITCH ts then
    let start := cur ts in
    do (sc, sv, ts1) <- poryswitch_header ts;
    do (cases, ts2) <- erase_cases f k (cur ts1) ts1 [];
    match assoc cases (sval sv) with
    | Some src => continue (acc ++ src) (adv ts2)
    | None => match assoc cases (t "_") with
              | Some src => continue (acc ++ src) (adv ts2)
              | None => if env_errors then err_tok start "no poryswitch case found" else continue acc (adv ts2)
              end
    end
  else
    match k with
    | LMov _ =>
        if curis IDENT ts then
          let mv := cur ts in
          let ts1 := adv ts in
          if curis MUL ts1 then
            let ts2 := adv ts1 in
            if negb (curis INT ts2) then err_tok (cur ts2) "expected mulplier number for movement command" else
            match go_parse_int (tlit (cur ts2)) with
            | None => err_tok (cur ts2) "invalid movement mulplier integer"
            | Some n => if (n <=? 0)%Z then err_tok (cur ts2) "movement mulplier must be a positive integer"
                        else if (n >? 9999)%Z then err_tok (cur ts2) "movement mulplier is too large"
                        else continue (acc ++ [mv; cur ts1; cur ts2]) (adv ts2)
            end
          else continue (acc ++ [mv]) ts1
        else if curis COMMA ts then continue (acc ++ [cur ts]) (adv ts)
        else err_tok (cur ts) "expected movement command"
    | LMart =>
        if curis IDENT ts then continue (acc ++ [cur ts]) (adv ts)
        else err_tok (cur ts) "expected mart item"
    end
  end
with erase_cases (fuel : nat) (k : listkind) (start : token) (ts : toks) (acc : list (text * list token)) {struct fuel}
  : res (list (text * list token) * toks) :=
  match fuel with O => Fuel | S f =>
  if curis RBRACE ts then Ok (acc, ts) else
  if curis EOF ts then err_tok start "missing closing curly braces for poryswitch statement" else
  if negb (curis IDENT ts) && negb (curis INT ts) then err_tok (cur ts) "invalid poryswitch case" else
  let cv := tlit (cur ts) in
  let ts1 := adv ts in
  if curis COLON ts1 || curis LBRACE ts1 then
    let brace := curis LBRACE ts1 in
    let k' := match k with LMov c => if brace then LMov RBRACE else LMov c | LMart => LMart end in
    do (src, ts2) <- list_erase f k' brace (adv ts1) [];
    if brace then
      if negb (curis RBRACE ts2) then err_tok (cur ts2) "missing closing curly brace for poryswitch case"
      else erase_cases f k start (adv ts2) ((cv, src) :: acc)
    else erase_cases f k start ts2 ((cv, src) :: acc)
  else err_tok (cur ts1) "invalid token after poryswitch case"
  end.

Lemma list_erase_unfold f (k : listkind) (multi : bool) (ts : toks) (acc : list token) :
  list_erase (S f) k multi ts acc =
  let closing := match k with LMov c => c | LMart => RBRACE end in
  if curis closing ts then Ok (acc, ts) else
  let continue (acc' : list token) (ts' : toks) :=
      if multi then list_erase f k multi ts' acc' else Ok (acc', ts') in
  if curis PORYSWITCH ts then
    let start := cur ts in
    do (sc, sv, ts1) <- poryswitch_header ts;
    do (cases, ts2) <- erase_cases f k (cur ts1) ts1 [];
    match assoc cases (sval sv) with
    | Some src => continue (acc ++ src) (adv ts2)
    | None => match assoc cases (t "_") with
              | Some src => continue (acc ++ src) (adv ts2)
              | None => if env_errors then err_tok start "no poryswitch case found" else continue acc (adv ts2)
              end
    end
  else
    match k with
    | LMov _ =>
        if curis IDENT ts then
          let mv := cur ts in
          let ts1 := adv ts in
          if curis MUL ts1 then
            let ts2 := adv ts1 in
            if negb (curis INT ts2) then err_tok (cur ts2) "expected mulplier number for movement command" else
            match go_parse_int (tlit (cur ts2)) with
            | None => err_tok (cur ts2) "invalid movement mulplier integer"
            | Some n => if (n <=? 0)%Z then err_tok (cur ts2) "movement mulplier must be a positive integer"
                        else if (n >? 9999)%Z then err_tok (cur ts2) "movement mulplier is too large"
                        else continue (acc ++ [mv; cur ts1; cur ts2]) (adv ts2)
            end
          else continue (acc ++ [mv]) ts1
        else if curis COMMA ts then continue (acc ++ [cur ts]) (adv ts)
        else err_tok (cur ts) "expected movement command"
    | LMart =>
        if curis IDENT ts then continue (acc ++ [cur ts]) (adv ts)
        else err_tok (cur ts) "expected mart item"
    end.
Proof. reflexivity. Qed.

Lemma erase_cases_unfold f (k : listkind) (start : token) (ts : toks) (acc : list (text * list token)) :
  erase_cases (S f) k start ts acc =
  if curis RBRACE ts then Ok (acc, ts) else
  if curis EOF ts then err_tok start "missing closing curly braces for poryswitch statement" else
  if negb (curis IDENT ts) && negb (curis INT ts) then err_tok (cur ts) "invalid poryswitch case" else
  let cv := tlit (cur ts) in
  let ts1 := adv ts in
  if curis COLON ts1 || curis LBRACE ts1 then
    let brace := curis LBRACE ts1 in
    let k' := match k with LMov c => if brace then LMov RBRACE else LMov c | LMart => LMart end in
    do (src, ts2) <- list_erase f k' brace (adv ts1) [];
    if brace then
      if negb (curis RBRACE ts2) then err_tok (cur ts2) "missing closing curly brace for poryswitch case"
      else erase_cases f k start (adv ts2) ((cv, src) :: acc)
    else erase_cases f k start ts2 ((cv, src) :: acc)
  else err_tok (cur ts1) "invalid token after poryswitch case".
Proof. reflexivity. Qed.

(* ---------- sources without poryswitch ---------- *)
(* flat mov nxt src items: the poryswitch-free token list src, followed by the token nxt, denotes the items:
   movement commands (optionally with '* n'), commas (movement only), mart items *)
Definition hd_or (nxt : token) (s : list token) : token := match s with [] => nxt | x :: _ => x end.

Inductive flat (mov : bool) (nxt : token) : list token -> list token -> Prop :=
| flat_nil : flat mov nxt [] []
| flat_id x s i : ttype x = IDENT -> ttype (hd_or nxt s) <> MUL \/ mov = false -> flat mov nxt s i ->
                  flat mov nxt (x :: s) (x :: i)
| flat_mul x m n c s i : mov = true -> ttype x = IDENT -> ttype m = MUL -> ttype n = INT ->
                  go_parse_int (tlit n) = Some c -> (c <=? 0)%Z = false -> (c >? 9999)%Z = false ->
                  flat mov nxt s i -> flat mov nxt (x :: m :: n :: s) (repeat_tok (Z.to_nat c) x ++ i)
| flat_comma x s i : mov = true -> ttype x = COMMA -> flat mov nxt s i -> flat mov nxt (x :: s) i.

Lemma flat_head mov nxt s i : flat mov nxt s i -> ttype nxt <> MUL -> ttype (hd_or nxt s) <> MUL.
Proof. intros F N. destruct F; cbn; congruence. Qed.

Lemma flat_app mov nxt s1 i1 s2 i2 :
  flat mov (hd_or nxt s2) s1 i1 -> flat mov nxt s2 i2 -> flat mov nxt (s1 ++ s2) (i1 ++ i2).
Proof.
  intros F1 F2. induction F1 as [|x s i Tx M F IH|x m n c s i Mv Tx Tm Tn G C1 C2 F IH|x s i Mv Tx F IH].
  - exact F2.
  - cbn [app]. apply flat_id; [exact Tx| |exact IH]. destruct M as [M|M]; [left|right; exact M].
    destruct s; [exact M|exact M].
  - cbn [app]. rewrite <- app_assoc. apply flat_mul; assumption.
  - cbn [app]. apply flat_comma; assumption.
Qed.

Lemma flat_nopory mov nxt s i : flat mov nxt s i -> Forall (fun tk => ttype tk <> PORYSWITCH) s.
Proof. induction 1; repeat constructor; try congruence; assumption. Qed.

Lemma curis_cons ty x l : curis ty (x :: l) = tt_eqb (ttype x) ty.
Proof. reflexivity. Qed.
Lemma adv_cons x l : l <> [] -> adv (x :: l) = l.
Proof. destruct l; [congruence|reflexivity]. Qed.
Lemma cur_app s rest : rest <> [] -> cur (s ++ rest) = hd_or (cur rest) s.
Proof. destruct s; [reflexivity|reflexivity]. Qed.
Lemma app_nonempty {A} (s rest : list A) : rest <> [] -> s ++ rest <> [].
Proof. destruct s; [auto|discriminate]. Qed.
Lemma tt_eqb_false a b : a <> b -> tt_eqb a b = false.
Proof. unfold tt_eqb. destruct (toktype_eq_dec a b); [congruence|reflexivity]. Qed.
Lemma tt_eqb_true a b : tt_eqb a b = true -> a = b.
Proof. unfold tt_eqb. destruct (toktype_eq_dec a b); [auto|discriminate]. Qed.
Lemma tt_eqb_refl a : tt_eqb a a = true.
Proof. unfold tt_eqb. destruct (toktype_eq_dec a a); [reflexivity|congruence]. Qed.

(* a poryswitch-free source parses to the items it denotes, whatever follows the closing token *)
Lemma flat_reparse k nxt s i :
  flat (is_mov k) nxt s i ->
  forall rest acc f', rest <> [] -> cur rest = nxt -> curis (closing_of k) rest = true ->
    closing_of k = RBRACE \/ closing_of k = RPAREN -> (List.length s < f')%nat ->
    list_value f' k true (s ++ rest) acc = Ok (acc ++ i, rest).
Proof.
  intros F. induction F as [|x s i Tx M F IH|x m n c s i Mv Tx Tm Tn G C1 C2 F IH|x s i Mv Tx F IH];
    intros rest acc f' NE CR CL CK LEN; (destruct f' as [|f']; [cbn in LEN; lia|]); rewrite list_value_unfold; cbv zeta.
  - cbn [app]. replace (match k with LMov c => c | LMart => RBRACE end) with (closing_of k) by reflexivity.
    rewrite CL, app_nil_r. reflexivity.
  - cbn [app]. replace (match k with LMov c => c | LMart => RBRACE end) with (closing_of k) by reflexivity.
    rewrite !curis_cons, Tx.
    assert (E1 : tt_eqb IDENT (closing_of k) = false) by (destruct CK as [-> | ->]; reflexivity). rewrite E1.
    cbn [tt_eqb toktype_eq_dec]. change (tt_eqb IDENT PORYSWITCH) with false. change (tt_eqb IDENT IDENT) with true. cbv iota.
    rewrite (adv_cons x (s ++ rest) (app_nonempty _ _ NE)).
    cbn [app List.length] in LEN.
    destruct k as [c|]; cbn [is_mov] in *.
    + assert (E2 : curis MUL (s ++ rest) = false).
      { unfold curis, is. rewrite cur_app by exact NE. rewrite CR. apply tt_eqb_false.
        destruct M as [M|M]; [exact M|discriminate]. }
      cbn [cur hd]. rewrite E2. rewrite (IH rest (acc ++ [x]) f' NE CR CL CK) by lia. rewrite <- app_assoc. reflexivity.
    + cbn [cur hd]. rewrite (IH rest (acc ++ [x]) f' NE CR CL CK) by lia. rewrite <- app_assoc. reflexivity.
  - destruct k as [cl|]; cbn [is_mov] in *; [|discriminate]. cbn [closing_of] in *.
    cbn [app]. rewrite !curis_cons, Tx.
    assert (E1 : tt_eqb IDENT cl = false) by (destruct CK as [-> | ->]; reflexivity). rewrite E1.
    change (tt_eqb IDENT PORYSWITCH) with false. change (tt_eqb IDENT IDENT) with true. cbv iota.
    rewrite (adv_cons x (m :: n :: s ++ rest)) by discriminate.
    rewrite curis_cons, Tm. change (tt_eqb MUL MUL) with true. cbv iota.
    rewrite (adv_cons m (n :: s ++ rest)) by discriminate.
    rewrite curis_cons, Tn. change (tt_eqb INT INT) with true. cbn [negb]. cbv iota.
    cbn [cur hd]. rewrite G, C1, C2.
    rewrite (adv_cons n (s ++ rest) (app_nonempty _ _ NE)).
    cbn [app List.length] in LEN.
    rewrite (IH rest _ f' NE CR CL CK) by lia. rewrite <- app_assoc. reflexivity.
  - destruct k as [cl|]; cbn [is_mov] in *; [|discriminate]. cbn [closing_of] in *.
    cbn [app]. rewrite !curis_cons, Tx.
    assert (E1 : tt_eqb COMMA cl = false) by (destruct CK as [-> | ->]; reflexivity). rewrite E1.
    change (tt_eqb COMMA PORYSWITCH) with false. change (tt_eqb COMMA IDENT) with false. change (tt_eqb COMMA COMMA) with true. cbv iota.
    rewrite (adv_cons x (s ++ rest) (app_nonempty _ _ NE)).
    cbn [app List.length] in LEN.
    rewrite (IH rest _ f' NE CR CL CK) by lia. reflexivity.
Qed.

(* ---------- list_value and list_erase run in lockstep ---------- *)
Definition Trel (mov : bool) (cs es : list (text * list token)) : Prop :=
  Forall2 (fun c e => Datatypes.fst c = Datatypes.fst e /\
                      forall nxt, ttype nxt <> MUL -> flat mov nxt (Datatypes.snd e) (Datatypes.snd c)) cs es.

Lemma Trel_assoc mov cs es : Trel mov cs es -> forall x,
  match assoc cs x, assoc es x with
  | Some it, Some s => forall nxt, ttype nxt <> MUL -> flat mov nxt s it
  | None, None => True
  | _, _ => False
  end.
Proof.
  induction 1 as [|[a it] [a' s] cs es [E F] R IH]; intros x; [exact I|]. cbn in E, F. subst a'. cbn [assoc].
  destruct (text_eqb a x); [exact F|apply IH].
Qed.

Definition PV (f : nat) : Prop := forall k m ts acc items ts',
  list_value f k m ts acc = Ok (items, ts') ->
  exists src its, items = acc ++ its /\
    (forall eacc, list_erase f k m ts eacc = Ok (eacc ++ src, ts')) /\
    (forall nxt, ttype nxt <> MUL -> flat (is_mov k) nxt src its).

Definition PC (f : nat) : Prop := forall k start ts cacc eacc cases ts',
  Trel (is_mov k) cacc eacc ->
  list_cases f k start ts cacc = Ok (cases, ts') ->
  exists ecases, erase_cases f k start ts eacc = Ok (ecases, ts') /\ Trel (is_mov k) cases ecases.

Lemma cont_ok f : PV f -> forall k (m : bool) ts1 acc it s items ts',
  (forall nxt, ttype nxt <> MUL -> flat (is_mov k) nxt s it) ->
  (if m then list_value f k m ts1 (acc ++ it) else Ok (acc ++ it, ts1)) = Ok (items, ts') ->
  exists src its, items = acc ++ its /\
    (forall eacc, (if m then list_erase f k m ts1 (eacc ++ s) else Ok (eacc ++ s, ts1)) = Ok (eacc ++ src, ts')) /\
    (forall nxt, ttype nxt <> MUL -> flat (is_mov k) nxt src its).
Proof.
  intros IH k m ts1 acc it s items ts' Fl H. destruct m.
  - apply IH in H. destruct H as (src2 & its2 & -> & E & F2). exists (s ++ src2), (it ++ its2).
    split; [rewrite app_assoc; reflexivity|]. split.
    + intros eacc. rewrite E, app_assoc. reflexivity.
    + intros nxt N. apply flat_app; [apply Fl; eapply flat_head; [apply F2; exact N|exact N]|apply F2; exact N].
  - inversion H; subst. exists s, it. split; [reflexivity|]. split; [reflexivity|exact Fl].
Qed.

Lemma nonmul_is tk : ttype tk <> MUL -> is MUL tk = false.
Proof. intros H. unfold is. apply tt_eqb_false, H. Qed.

Lemma if_false_eq (b : bool) {A} (x y : A) : b = false -> (if b then x else y) = y.
Proof. intros ->. reflexivity. Qed.
Lemma if_true_eq (b : bool) {A} (x y : A) : b = true -> (if b then x else y) = x.
Proof. intros ->. reflexivity. Qed.

Lemma PV_step f : PV f -> PC f -> PV (S f).
Proof.
  intros IHV IHC k m ts acc items ts' H. rewrite list_value_unfold in H. cbv zeta in H.
  destruct (curis (match k with LMov c => c | LMart => RBRACE end) ts) eqn:C0.
  { inversion H; subst. exists [], []. split; [rewrite app_nil_r; reflexivity|]. split; [|intros; constructor].
    intros eacc. rewrite list_erase_unfold. cbv zeta. rewrite C0, app_nil_r. reflexivity. }
  destruct (curis PORYSWITCH ts) eqn:C1.
  { destruct (poryswitch_header ts) as [[[sc sv] ts1]| | |] eqn:HH; try discriminate H.
    destruct (list_cases f k (cur ts1) ts1 []) as [[cases ts2]| | |] eqn:HC; try discriminate H.
    destruct (IHC k (cur ts1) ts1 [] [] cases ts2 (Forall2_nil _) HC) as (ecases & HE & TR).
    pose proof (Trel_assoc _ _ _ TR (sval sv)) as A1. pose proof (Trel_assoc _ _ _ TR (t "_")) as A2.
    destruct (assoc cases (sval sv)) as [it|] eqn:S1; destruct (assoc ecases (sval sv)) as [s|] eqn:S1'; try contradiction.
    - destruct (cont_ok f IHV k m (adv ts2) acc it s items ts' A1 H) as (src & its & E1 & E2 & E3).
      exists src, its. split; [exact E1|]. split; [|exact E3].
      intros eacc. rewrite list_erase_unfold. cbv zeta. rewrite C0, C1, HH. cbv beta iota. rewrite HE, S1'. apply E2.
    - destruct (assoc cases (t "_")) as [it|] eqn:S2; destruct (assoc ecases (t "_")) as [s|] eqn:S2'; try contradiction.
      + destruct (cont_ok f IHV k m (adv ts2) acc it s items ts' A2 H) as (src & its & E1 & E2 & E3).
        exists src, its. split; [exact E1|]. split; [|exact E3].
        intros eacc. rewrite list_erase_unfold. cbv zeta. rewrite C0, C1, HH. cbv beta iota. rewrite HE, S1', S2'. apply E2.
      + assert (EE : env_errors = false) by (destruct env_errors; [discriminate H|reflexivity]).
        rewrite (if_false_eq _ _ _ EE) in H.
        assert (H' : (if m then list_value f k m (adv ts2) (acc ++ []) else Ok (acc ++ [], adv ts2)) = Ok (items, ts'))
          by (rewrite app_nil_r; exact H).
        destruct (cont_ok f IHV k m (adv ts2) acc [] [] items ts' (fun _ _ => flat_nil _ _) H') as (src & its & E1 & E2 & E3).
        exists src, its. split; [exact E1|]. split; [|exact E3].
        intros eacc. rewrite list_erase_unfold. cbv zeta. rewrite C0, C1, HH. cbv beta iota. rewrite HE, S1', S2'. rewrite (if_false_eq _ _ _ EE).
        specialize (E2 eacc). rewrite app_nil_r in E2. exact E2. }
  destruct k as [cl|].
  - destruct (curis IDENT ts) eqn:C2.
    + destruct (curis MUL (adv ts)) eqn:C3.
      * destruct (negb (curis INT (adv (adv ts)))) eqn:C4; [discriminate H|].
        destruct (go_parse_int (tlit (cur (adv (adv ts))))) as [n|] eqn:G; [|discriminate H].
        destruct (n <=? 0)%Z eqn:N1; [discriminate H|]. destruct (n >? 9999)%Z eqn:N2; [discriminate H|].
        assert (Fl : forall nxt, ttype nxt <> MUL ->
                  flat (is_mov (LMov cl)) nxt [cur ts; cur (adv ts); cur (adv (adv ts))] (repeat_tok (Z.to_nat n) (cur ts))).
        { intros nxt N. rewrite <- (app_nil_r (repeat_tok _ _)). apply flat_mul with (c := n); try assumption; try reflexivity.
          - apply tt_eqb_true. exact C2.
          - apply tt_eqb_true. exact C3.
          - apply tt_eqb_true. apply negb_false_iff in C4. exact C4.
          - constructor. }
        destruct (cont_ok f IHV _ m _ acc _ _ items ts' Fl H) as (src & its & E1 & E2 & E3).
        exists src, its. split; [exact E1|]. split; [|exact E3].
        intros eacc. rewrite list_erase_unfold. cbv zeta. rewrite C0, C1, C2, C3, C4, G, N1, N2. apply E2.
      * assert (Fl : forall nxt, ttype nxt <> MUL -> flat (is_mov (LMov cl)) nxt [cur ts] [cur ts]).
        { intros nxt N. apply flat_id; [apply tt_eqb_true; exact C2|left; exact N|constructor]. }
        destruct (cont_ok f IHV _ m _ acc _ _ items ts' Fl H) as (src & its & E1 & E2 & E3).
        exists src, its. split; [exact E1|]. split; [|exact E3].
        intros eacc. rewrite list_erase_unfold. cbv zeta. rewrite C0, C1, C2, C3. apply E2.
    + destruct (curis COMMA ts) eqn:C3; [|discriminate H].
      assert (Fl : forall nxt, ttype nxt <> MUL -> flat (is_mov (LMov cl)) nxt [cur ts] []).
      { intros nxt N. apply flat_comma; [reflexivity|apply tt_eqb_true; exact C3|constructor]. }
      assert (H' : (if m then list_value f (LMov cl) m (adv ts) (acc ++ []) else Ok (acc ++ [], adv ts)) = Ok (items, ts'))
        by (rewrite app_nil_r; exact H).
      destruct (cont_ok f IHV _ m _ acc _ _ items ts' Fl H') as (src & its & E1 & E2 & E3).
      exists src, its. split; [exact E1|]. split; [|exact E3].
      intros eacc. rewrite list_erase_unfold. cbv zeta. rewrite C0, C1, C2, C3. apply E2.
  - destruct (curis IDENT ts) eqn:C2; [|discriminate H].
    assert (Fl : forall nxt, ttype nxt <> MUL -> flat (is_mov LMart) nxt [cur ts] [cur ts]).
    { intros nxt N. apply flat_id; [apply tt_eqb_true; exact C2|right; reflexivity|constructor]. }
    destruct (cont_ok f IHV _ m _ acc _ _ items ts' Fl H) as (src & its & E1 & E2 & E3).
    exists src, its. split; [exact E1|]. split; [|exact E3].
    intros eacc. rewrite list_erase_unfold. cbv zeta. rewrite C0, C1, C2. apply E2.
Qed.

Lemma PC_step f : PV f -> PC f -> PC (S f).
Proof.
  intros IHV IHC k start ts cacc eacc cases ts' TR H. rewrite list_cases_unfold in H. rewrite erase_cases_unfold.
  destruct (curis RBRACE ts) eqn:C0.
  { inversion H; subst. exists eacc. split; [reflexivity|exact TR]. }
  destruct (curis EOF ts) eqn:C1; [discriminate H|].
  destruct (negb (curis IDENT ts) && negb (curis INT ts)) eqn:C2; [discriminate H|].
  cbv zeta in H. cbv zeta.
  destruct (curis COLON (adv ts) || curis LBRACE (adv ts)) eqn:C3; [|discriminate H].
  set (k' := match k with LMov c => if curis LBRACE (adv ts) then LMov RBRACE else LMov c | LMart => LMart end) in *.
  assert (KM : is_mov k' = is_mov k) by (subst k'; destruct k; [destruct (curis LBRACE (adv ts))|]; reflexivity).
  destruct (list_value f k' (curis LBRACE (adv ts)) (adv (adv ts)) []) as [[items ts2]| | |] eqn:HV; try discriminate H.
  destruct (IHV _ _ _ _ _ _ HV) as (src & its & E1 & E2 & E3). cbn [app] in E1. subst items.
  rewrite (E2 []). cbn [app]. rewrite KM in E3.
  assert (TR' : Trel (is_mov k) ((tlit (cur ts), its) :: cacc) ((tlit (cur ts), src) :: eacc)).
  { constructor; [|exact TR]. split; [reflexivity|exact E3]. }
  destruct (curis LBRACE (adv ts)) eqn:C4.
  - destruct (negb (curis RBRACE ts2)) eqn:C5; [discriminate H|]. eapply IHC; [exact TR'|exact H].
  - eapply IHC; [exact TR'|exact H].
Qed.

Lemma PV_PC_all : forall f, PV f /\ PC f.
Proof.
  induction f as [|f [IHV IHC]].
  - split; [intros k m ts acc items ts' H|intros k start ts cacc eacc cases ts' _ H]; discriminate H.
  - split; [apply PV_step|apply PC_step]; assumption.
Qed.

(* a whole list (multi) ends on its closing token *)
Lemma list_value_ends_closing : forall f k ts acc items ts',
  list_value f k true ts acc = Ok (items, ts') -> curis (closing_of k) ts' = true.
Proof.
  induction f as [|f IH]; intros k ts acc items ts' H; [discriminate H|].
  rewrite list_value_unfold in H. ok_split H; try (unfold closing_of; assumption); eapply IH; eassumption.
Qed.

Lemma closing_not_mul k rest :
  closing_of k = RBRACE \/ closing_of k = RPAREN -> curis (closing_of k) rest = true -> ttype (cur rest) <> MUL.
Proof.
  intros CK C. unfold curis, is in C. apply tt_eqb_true in C. rewrite C. destruct CK as [-> | ->]; discriminate.
Qed.
Lemma closing_nonempty k rest :
  closing_of k = RBRACE \/ closing_of k = RPAREN -> curis (closing_of k) rest = true -> rest <> [].
Proof.
  intros CK C -> . unfold curis, is in C. cbn in C. destruct CK as [E | E]; rewrite E in C; discriminate.
Qed.

Lemma list_erasure_sec f k ts acc items ts' :
  list_value f k true ts acc = Ok (items, ts') ->
  exists src,
    list_erase f k true ts [] = Ok (src, ts') /\
    Forall (fun tk => ttype tk <> PORYSWITCH) src /\
    forall rest f', closing_of k = RBRACE \/ closing_of k = RPAREN ->
      curis (closing_of k) rest = true -> (List.length src < f')%nat ->
      list_value f' k true (src ++ rest) acc = Ok (items, rest).
Proof.
  intros H. destruct (proj1 (PV_PC_all f) _ _ _ _ _ _ H) as (src & its & -> & E & F). exists src.
  split; [exact (E [])|]. split.
  - eapply flat_nopory. apply (F eof0). discriminate.
  - intros rest f' CK C L. eapply flat_reparse; [apply F; eapply closing_not_mul; eassumption| |reflexivity|exact C|exact CK|exact L].
    eapply closing_nonempty; eassumption.
Qed.

(* on a source without poryswitch the erasure is the identity *)
Lemma flat_erase_id k nxt s i :
  flat (is_mov k) nxt s i ->
  forall rest acc f', rest <> [] -> cur rest = nxt -> curis (closing_of k) rest = true ->
    closing_of k = RBRACE \/ closing_of k = RPAREN -> (List.length s < f')%nat ->
    list_erase f' k true (s ++ rest) acc = Ok (acc ++ s, rest).
Proof.
  intros F. induction F as [|x s i Tx M F IH|x m n c s i Mv Tx Tm Tn G C1 C2 F IH|x s i Mv Tx F IH];
    intros rest acc f' NE CR CL CK LEN; (destruct f' as [|f']; [cbn in LEN; lia|]); rewrite list_erase_unfold; cbv zeta.
  - cbn [app]. replace (match k with LMov c => c | LMart => RBRACE end) with (closing_of k) by reflexivity.
    rewrite CL, app_nil_r. reflexivity.
  - cbn [app]. replace (match k with LMov c => c | LMart => RBRACE end) with (closing_of k) by reflexivity.
    rewrite !curis_cons, Tx.
    assert (E1 : tt_eqb IDENT (closing_of k) = false) by (destruct CK as [-> | ->]; reflexivity). rewrite E1.
    change (tt_eqb IDENT PORYSWITCH) with false. change (tt_eqb IDENT IDENT) with true. cbv iota.
    rewrite (adv_cons x (s ++ rest) (app_nonempty _ _ NE)).
    cbn [app List.length] in LEN.
    destruct k as [c|]; cbn [is_mov] in *.
    + assert (E2 : curis MUL (s ++ rest) = false).
      { unfold curis, is. rewrite cur_app by exact NE. rewrite CR. apply tt_eqb_false.
        destruct M as [M|M]; [exact M|discriminate]. }
      cbn [cur hd]. rewrite E2. rewrite (IH rest (acc ++ [x]) f' NE CR CL CK) by lia. rewrite <- app_assoc. reflexivity.
    + cbn [cur hd]. rewrite (IH rest (acc ++ [x]) f' NE CR CL CK) by lia. rewrite <- app_assoc. reflexivity.
  - destruct k as [cl|]; cbn [is_mov] in *; [|discriminate]. cbn [closing_of] in *.
    cbn [app]. rewrite !curis_cons, Tx.
    assert (E1 : tt_eqb IDENT cl = false) by (destruct CK as [-> | ->]; reflexivity). rewrite E1.
    change (tt_eqb IDENT PORYSWITCH) with false. change (tt_eqb IDENT IDENT) with true. cbv iota.
    rewrite (adv_cons x (m :: n :: s ++ rest)) by discriminate.
    rewrite curis_cons, Tm. change (tt_eqb MUL MUL) with true. cbv iota.
    rewrite (adv_cons m (n :: s ++ rest)) by discriminate.
    rewrite curis_cons, Tn. change (tt_eqb INT INT) with true. cbn [negb]. cbv iota.
    cbn [cur hd]. rewrite G, C1, C2.
    rewrite (adv_cons n (s ++ rest) (app_nonempty _ _ NE)).
    cbn [app List.length] in LEN.
    rewrite (IH rest _ f' NE CR CL CK) by lia. rewrite <- app_assoc. reflexivity.
  - destruct k as [cl|]; cbn [is_mov] in *; [|discriminate]. cbn [closing_of] in *.
    cbn [app]. rewrite !curis_cons, Tx.
    assert (E1 : tt_eqb COMMA cl = false) by (destruct CK as [-> | ->]; reflexivity). rewrite E1.
    change (tt_eqb COMMA PORYSWITCH) with false. change (tt_eqb COMMA IDENT) with false. change (tt_eqb COMMA COMMA) with true. cbv iota.
    cbn [cur hd].
    rewrite (adv_cons x (s ++ rest) (app_nonempty _ _ NE)).
    cbn [app List.length] in LEN.
    rewrite (IH rest _ f' NE CR CL CK) by lia. rewrite <- app_assoc. reflexivity.
Qed.

Lemma list_erase_idempotent_sec f k ts acc items ts' :
  list_value f k true ts acc = Ok (items, ts') ->
  exists src, list_erase f k true ts [] = Ok (src, ts') /\
    forall rest f', closing_of k = RBRACE \/ closing_of k = RPAREN ->
      curis (closing_of k) rest = true -> (List.length src < f')%nat ->
      list_erase f' k true (src ++ rest) [] = Ok (src, rest).
Proof.
  intros H. destruct (proj1 (PV_PC_all f) _ _ _ _ _ _ H) as (src & its & -> & E & F). exists src.
  split; [exact (E [])|].
  intros rest f' CK C L. eapply (flat_erase_id k (cur rest) src its); [apply F; eapply closing_not_mul; eassumption| |reflexivity|exact C|exact CK|exact L].
  eapply closing_nonempty; eassumption.
Qed.

(* on input without any poryswitch token the erased source is literally the consumed input *)
Lemma eof_ended_step ts : eof_ended ts -> ttype (cur ts) <> EOF -> ts = cur ts :: adv ts /\ eof_ended (adv ts).
Proof.
  intros [N E] C. destruct ts as [|x [|y r]]; [congruence|exfalso; apply C; exact E|].
  split; [reflexivity|]. split; [discriminate|exact E].
Qed.
Lemma curis_not_eof ty ts : curis ty ts = true -> ty <> EOF -> ttype (cur ts) <> EOF.
Proof. intros C N. unfold curis, is in C. apply tt_eqb_true in C. congruence. Qed.

Lemma list_erase_nopory_identity : forall f k m ts acc r ts',
  list_erase f k m ts acc = Ok (r, ts') -> eof_ended ts -> Forall (fun tk => ttype tk <> PORYSWITCH) ts ->
  exists s, r = acc ++ s /\ ts = s ++ ts'.
Proof.
  induction f as [|f IH]; intros k m ts acc r ts' H EO NP; [discriminate H|].
  rewrite list_erase_unfold in H. cbv zeta in H.
  destruct (curis (match k with LMov c => c | LMart => RBRACE end) ts) eqn:C0.
  { inversion H; subst. exists []. rewrite app_nil_r. split; reflexivity. }
  destruct (curis PORYSWITCH ts) eqn:C1.
  { exfalso. destruct ts as [|x r0]; [destruct EO; congruence|]. inversion NP; subst.
    unfold curis, is in C1. cbn in C1. apply tt_eqb_true in C1. congruence. }
  assert (CONT : forall ts1 s1, ts = s1 ++ ts1 -> eof_ended ts1 ->
            (if m then list_erase f k m ts1 (acc ++ s1) else Ok (acc ++ s1, ts1)) = Ok (r, ts') ->
            exists s, r = acc ++ s /\ ts = s ++ ts').
  { intros ts1 s1 E1 EO1 HC. destruct m.
    - apply IH in HC; [|exact EO1|rewrite E1 in NP; apply Forall_app in NP; apply NP].
      destruct HC as (s & -> & E2). exists (s1 ++ s). rewrite <- !app_assoc. rewrite <- E2. split; [reflexivity|exact E1].
    - inversion HC; subst. exists s1. split; reflexivity. }
  destruct k as [cl|].
  - destruct (curis IDENT ts) eqn:C2.
    + destruct (eof_ended_step ts EO (curis_not_eof _ _ C2 ltac:(discriminate))) as [E1 EO1].
      destruct (curis MUL (adv ts)) eqn:C3.
      * destruct (negb (curis INT (adv (adv ts)))) eqn:C4; [discriminate H|]. apply negb_false_iff in C4.
        destruct (go_parse_int (tlit (cur (adv (adv ts))))) as [n|] eqn:G; [|discriminate H].
        destruct (n <=? 0)%Z eqn:N1; [discriminate H|]. destruct (n >? 9999)%Z eqn:N2; [discriminate H|].
        destruct (eof_ended_step _ EO1 (curis_not_eof _ _ C3 ltac:(discriminate))) as [E2 EO2].
        destruct (eof_ended_step _ EO2 (curis_not_eof _ _ C4 ltac:(discriminate))) as [E3 EO3].
        eapply CONT; [|exact EO3|exact H]. rewrite E1 at 1. rewrite E2 at 1. rewrite E3 at 1. reflexivity.
      * eapply CONT; [|exact EO1|exact H]. exact E1.
    + destruct (curis COMMA ts) eqn:C3; [|discriminate H].
      destruct (eof_ended_step ts EO (curis_not_eof _ _ C3 ltac:(discriminate))) as [E1 EO1].
      eapply CONT; [|exact EO1|exact H]. exact E1.
  - destruct (curis IDENT ts) eqn:C2; [|discriminate H].
    destruct (eof_ended_step ts EO (curis_not_eof _ _ C2 ltac:(discriminate))) as [E1 EO1].
    eapply CONT; [|exact EO1|exact H]. exact E1.
Qed.

(* ---------- Part 2 (lists): the case table ---------- *)
(* case_seq k ts l ts': from ts on there is a sequence of poryswitch cases, the next token after them is at ts'; l lists
   them in source order with the items that list_value yields for the content of each case taken alone *)
Inductive case_seq (k : listkind) : toks -> list (text * list token) -> toks -> Prop :=
| cs_end ts : case_seq k ts [] ts
| cs_case ts fi brace items ts2 l ts' :
    curis RBRACE ts = false ->
    curis IDENT ts = true \/ curis INT ts = true ->
    brace = curis LBRACE (adv ts) ->
    curis COLON (adv ts) = true \/ brace = true ->
    list_value fi (case_kind k brace) brace (adv (adv ts)) [] = Ok (items, ts2) ->
    (brace = true -> curis RBRACE ts2 = true) ->
    case_seq k (if brace then adv ts2 else ts2) l ts' ->
    case_seq k ts ((tlit (cur ts), items) :: l) ts'.

Lemma list_cases_table_sec : forall f k start ts acc cases ts',
  list_cases f k start ts acc = Ok (cases, ts') ->
  exists l, case_seq k ts l ts' /\ curis RBRACE ts' = true /\ cases = rev l ++ acc.
Proof.
  induction f as [|f IH]; intros k start ts acc cases ts' H; [discriminate H|].
  rewrite list_cases_unfold in H.
  destruct (curis RBRACE ts) eqn:C0.
  { inversion H; subst. exists []. split; [constructor|split; [exact C0|reflexivity]]. }
  destruct (curis EOF ts) eqn:C1; [discriminate H|].
  destruct (negb (curis IDENT ts) && negb (curis INT ts)) eqn:C2; [discriminate H|].
  cbv zeta in H.
  destruct (curis COLON (adv ts) || curis LBRACE (adv ts)) eqn:C3; [|discriminate H].
  destruct (list_value f _ (curis LBRACE (adv ts)) (adv (adv ts)) []) as [[items ts2]| | |] eqn:HV; try discriminate H.
  assert (CI : curis IDENT ts = true \/ curis INT ts = true).
  { destruct (curis IDENT ts); [left; reflexivity|]. destruct (curis INT ts); [right; reflexivity|discriminate C2]. }
  assert (CC : curis COLON (adv ts) = true \/ curis LBRACE (adv ts) = true) by (apply orb_true_iff; exact C3).
  destruct (curis LBRACE (adv ts)) eqn:C4.
  - destruct (negb (curis RBRACE ts2)) eqn:C5; [discriminate H|]. apply negb_false_iff in C5.
    apply IH in H. destruct H as (l & CS & RB & ->). exists ((tlit (cur ts), items) :: l). split; [|split; [exact RB|]].
    + exact (cs_case k ts f true items ts2 l ts' C0 CI (eq_sym C4) CC HV (fun _ => C5) CS).
    + cbn [rev]. rewrite <- app_assoc. reflexivity.
  - apply IH in H. destruct H as (l & CS & RB & ->). exists ((tlit (cur ts), items) :: l). split; [|split; [exact RB|]].
    + refine (cs_case k ts f false items ts2 l ts' C0 CI (eq_sym C4) CC HV _ CS). discriminate.
    + cbn [rev]. rewrite <- app_assoc. reflexivity.
Qed.
End ERASE.

(* ------------------------------------------------------------------------------------------------------------ *)
(* statement headers: `keyword [ ( global|local ) ] name {`                                                      *)
(* ------------------------------------------------------------------------------------------------------------ *)
Lemma peek_step ty ts : eof_ended ts -> ty <> EOF -> peekis ty ts = true ->
  exists a b r, ts = a :: b :: r /\ ttype b = ty /\ eof_ended (b :: r).
Proof.
  intros [N E] T P. destruct ts as [|a [|b r]]; [congruence| |].
  - exfalso. unfold peekis, pk, is in P. cbn in P, E. apply tt_eqb_true in P. congruence.
  - exists a, b, r. split; [reflexivity|]. split; [|split; [discriminate|exact E]].
    unfold peekis, pk, is in P. cbn in P. apply tt_eqb_true in P. exact P.
Qed.
Lemma peekis_cons2 ty a b l : peekis ty (a :: b :: l) = tt_eqb (ttype b) ty.
Proof. reflexivity. Qed.
Lemma expect_peek_true ty ts ts' : expect_peek ty ts = Some ts' -> peekis ty ts = true /\ ts' = adv ts.
Proof. unfold expect_peek. destruct (peekis ty ts); [intros H; inversion H; auto|discriminate]. Qed.

Lemma header_shape d ts g ts1 ts2 ts3 :
  eof_ended ts -> scope_modifier d ts = Ok (g, ts1) -> expect_peek IDENT ts1 = Some ts2 -> expect_peek LBRACE ts2 = Some ts3 ->
  exists h a' n lb body,
    ts = h ++ n :: lb :: body /\ ts1 = a' :: n :: lb :: body /\ ts2 = n :: lb :: body /\ ts3 = lb :: body /\
    adv ts3 = body /\ ttype n = IDENT /\ ttype lb = LBRACE /\ eof_ended body /\
    (forall X, cur (h ++ n :: lb :: X) = cur ts) /\
    (forall X, scope_modifier d (h ++ n :: lb :: X) = Ok (g, a' :: n :: lb :: X)).
Proof.
  intros EO SM P1 P2.
  assert (TAIL : forall a r, eof_ended (a :: r) -> expect_peek IDENT (a :: r) = Some ts2 ->
            exists n lb body, r = n :: lb :: body /\ ts2 = n :: lb :: body /\ ts3 = lb :: body /\ adv ts3 = body /\
                              ttype n = IDENT /\ ttype lb = LBRACE /\ eof_ended body).
  { intros a r EO1 Q1. apply expect_peek_true in Q1. destruct Q1 as [Q1 ->].
    destruct (peek_step IDENT _ EO1 (ltac:(discriminate) : IDENT <> EOF) Q1) as (a0 & n & r1 & E1 & Tn & EO2). inversion E1; subst a0 r.
    cbn [adv] in P2. apply expect_peek_true in P2. destruct P2 as [Q2 ->].
    destruct (peek_step LBRACE _ EO2 (ltac:(discriminate) : LBRACE <> EOF) Q2) as (n0 & lb & r2 & E2 & Tl & EO3). inversion E2; subst n0 r1.
    destruct r2 as [|y r2]; [exfalso; destruct EO3 as [_ E3]; cbn in E3; congruence|].
    exists n, lb, (y :: r2). repeat (split; [reflexivity|]). split; [exact Tn|]. split; [exact Tl|].
    destruct EO3 as [_ E3]. split; [discriminate|exact E3]. }
  unfold scope_modifier in SM. destruct (negb (peekis LPAREN ts)) eqn:C0.
  - inversion SM; subst g ts1. destruct ts as [|a r]; [destruct EO; congruence|].
    destruct (TAIL a r EO P1) as (n & lb & body & -> & -> & -> & AD & Tn & Tl & EOb).
    exists [a], a, n, lb, body. repeat (split; [first [reflexivity|assumption]|]).
    intros X. unfold scope_modifier. cbn [app]. rewrite peekis_cons2, Tn. reflexivity.
  - apply negb_false_iff in C0. cbv zeta in SM.
    destruct (peek_step LPAREN _ EO (ltac:(discriminate) : LPAREN <> EOF) C0) as (a & lp & r1 & -> & Tlp & EO1). cbn [adv] in SM.
    destruct (negb (peekis GLOBAL (lp :: r1)) && negb (peekis LOCAL (lp :: r1))) eqn:C1; [discriminate SM|].
    assert (exists sc r2, r1 = sc :: r2 /\ eof_ended (sc :: r2) /\ (ttype sc = GLOBAL \/ ttype sc = LOCAL)) as (sc & r2 & -> & EO2 & Tsc).
    { destruct (peekis GLOBAL (lp :: r1)) eqn:G1.
      - destruct (peek_step GLOBAL _ EO1 (ltac:(discriminate) : GLOBAL <> EOF) G1) as (x & sc & r2 & E & T & EO2). inversion E; subst. eauto 6.
      - destruct (peekis LOCAL (lp :: r1)) eqn:G2; [|discriminate C1].
        destruct (peek_step LOCAL _ EO1 (ltac:(discriminate) : LOCAL <> EOF) G2) as (x & sc & r2 & E & T & EO2). inversion E; subst. eauto 6. }
    cbn [adv] in SM. destruct (negb (peekis RPAREN (sc :: r2))) eqn:C2; [discriminate SM|]. apply negb_false_iff in C2.
    destruct (peek_step RPAREN _ EO2 (ltac:(discriminate) : RPAREN <> EOF) C2) as (x & rp & r3 & E & Trp & EO3). inversion E; subst x r2.
    cbn [adv] in SM. inversion SM; subst g ts1.
    destruct (TAIL rp r3 EO3 P1) as (n & lb & body & -> & -> & -> & AD & Tn & Tl & EOb).
    exists [a; lp; sc; rp], rp, n, lb, body. repeat (split; [first [reflexivity|assumption]|]).
    intros X. unfold scope_modifier. cbn [app]. rewrite peekis_cons2, Tlp. cbn [adv]. cbv zeta.
    rewrite !peekis_cons2, Trp.
    assert (E1 : negb (tt_eqb (ttype sc) GLOBAL) && negb (tt_eqb (ttype sc) LOCAL) = false)
      by (destruct Tsc as [-> | ->]; reflexivity).
    change (negb (tt_eqb LPAREN LPAREN)) with false. cbv iota. rewrite E1. reflexivity.
Qed.

Lemma expect_peek_cons2 ty a b l : ttype b = ty -> expect_peek ty (a :: b :: l) = Some (b :: l).
Proof. intros T. unfold expect_peek. rewrite peekis_cons2, T, tt_eqb_refl. reflexivity. Qed.

(* ------------------------------------------------------------------------------------------------------------ *)
(* erasure at the level of the statements                                                                       *)
(* ------------------------------------------------------------------------------------------------------------ *)
Section STMTS.
Variable switches : list (text * text).
Variable env_errors : bool.

Lemma movement_statement_erasure_sec f ts tp ts' :
  eof_ended ts -> parse_movement switches env_errors f ts = Ok (tp, ts') ->
  exists hd lb body src,
    ts = hd ++ lb :: body /\ ttype lb = LBRACE /\
    list_erase switches env_errors f (LMov RBRACE) true body [] = Ok (src, ts') /\
    Forall (fun tk => ttype tk <> PORYSWITCH) src /\
    forall f', (List.length src < f')%nat ->
      parse_movement switches env_errors f' (hd ++ lb :: src ++ ts') = Ok (tp, ts').
Proof.
  intros EO H. unfold parse_movement in H. cbv zeta in H.
  destruct (scope_modifier false ts) as [[g ts1]| | |] eqn:SM; try discriminate H.
  destruct (expect_peek IDENT ts1) as [ts2|] eqn:P1; [|discriminate H].
  destruct (expect_peek LBRACE ts2) as [ts3|] eqn:P2; [|discriminate H].
  destruct (movement_value switches env_errors f RBRACE true (adv ts3) []) as [[mv ts4]| | |] eqn:MV; try discriminate H.
  inversion H; subst tp ts'. clear H.
  destruct (header_shape _ _ _ _ _ _ EO SM P1 P2) as (h & a' & n & lb & body & E & E1 & E2 & E3 & AD & Tn & Tl & EOb & CU & SMX).
  unfold movement_value in MV. rewrite AD in MV.
  destruct (list_erasure_sec switches env_errors _ _ _ _ _ _ MV) as (src & ER & NP & RE).
  exists (h ++ [n]), lb, body, src. split; [rewrite <- app_assoc; exact E|]. split; [exact Tl|]. split; [exact ER|]. split; [exact NP|].
  intros f' L. rewrite <- app_assoc. cbn [app]. unfold parse_movement. cbv zeta. rewrite SMX.
  rewrite (expect_peek_cons2 IDENT a' n _ Tn). rewrite (expect_peek_cons2 LBRACE n lb _ Tl).
  assert (NE : ts4 <> []).
  { eapply (closing_nonempty (LMov RBRACE)); [left; reflexivity|]. eapply list_value_ends_closing. exact MV. }
  rewrite (adv_cons lb (src ++ ts4) (app_nonempty _ _ NE)). unfold movement_value.
  rewrite (RE ts4 f'); [|left; reflexivity|eapply list_value_ends_closing; exact MV|exact L].
  rewrite CU. subst ts2. reflexivity.
Qed.

Lemma mart_statement_erasure_sec consts f ts tp ts' :
  eof_ended ts -> parse_mart switches env_errors consts f ts = Ok (tp, ts') ->
  exists hd lb body src,
    ts = hd ++ lb :: body /\ ttype lb = LBRACE /\
    list_erase switches env_errors f LMart true body [] = Ok (src, ts') /\
    Forall (fun tk => ttype tk <> PORYSWITCH) src /\
    forall f', (List.length src < f')%nat ->
      parse_mart switches env_errors consts f' (hd ++ lb :: src ++ ts') = Ok (tp, ts').
Proof.
  intros EO H. unfold parse_mart in H. cbv zeta in H.
  destruct (scope_modifier false ts) as [[g ts1]| | |] eqn:SM; try discriminate H.
  destruct (expect_peek IDENT ts1) as [ts2|] eqn:P1; [|discriminate H].
  destruct (expect_peek LBRACE ts2) as [ts3|] eqn:P2; [|discriminate H].
  destruct (mart_value switches env_errors f true (adv ts3) []) as [[mv ts4]| | |] eqn:MV; try discriminate H.
  inversion H; subst tp ts'. clear H.
  destruct (header_shape _ _ _ _ _ _ EO SM P1 P2) as (h & a' & n & lb & body & E & E1 & E2 & E3 & AD & Tn & Tl & EOb & CU & SMX).
  unfold mart_value in MV. rewrite AD in MV.
  destruct (list_erasure_sec switches env_errors _ _ _ _ _ _ MV) as (src & ER & NP & RE).
  exists (h ++ [n]), lb, body, src. split; [rewrite <- app_assoc; exact E|]. split; [exact Tl|]. split; [exact ER|]. split; [exact NP|].
  intros f' L. rewrite <- app_assoc. cbn [app]. unfold parse_mart. cbv zeta. rewrite SMX.
  rewrite (expect_peek_cons2 IDENT a' n _ Tn). rewrite (expect_peek_cons2 LBRACE n lb _ Tl).
  assert (NE : ts4 <> []).
  { eapply (closing_nonempty LMart); [left; reflexivity|]. eapply list_value_ends_closing. exact MV. }
  rewrite (adv_cons lb (src ++ ts4) (app_nonempty _ _ NE)). unfold mart_value.
  rewrite (RE ts4 f'); [|left; reflexivity|eapply list_value_ends_closing; exact MV|exact L].
  rewrite CU. subst ts2. reflexivity.
Qed.

(* moves( ... ) inside a command: cur = moves *)
Lemma moves_operator_erasure_sec f ts mv ts' :
  eof_ended ts -> moves_operator switches env_errors f ts = Ok (mv, ts') ->
  exists m lp body src,
    ts = m :: lp :: body /\ ttype lp = LPAREN /\
    list_erase switches env_errors f (LMov RPAREN) true body [] = Ok (src, ts') /\
    Forall (fun tk => ttype tk <> PORYSWITCH) src /\
    forall f', (List.length src < f')%nat ->
      moves_operator switches env_errors f' (m :: lp :: src ++ ts') = Ok (mv, ts').
Proof.
  intros EO H. unfold moves_operator in H.
  destruct (expect_peek LPAREN ts) as [ts1|] eqn:P1; [|discriminate H].
  apply expect_peek_true in P1. destruct P1 as [P1 ->].
  destruct (peek_step LPAREN _ EO (ltac:(discriminate) : LPAREN <> EOF) P1) as (m & lp & r & -> & Tlp & EO1).
  cbn [adv] in H. unfold movement_value in H.
  assert (NE : ts' <> []).
  { eapply (closing_nonempty (LMov RPAREN)); [right; reflexivity|]. eapply list_value_ends_closing. exact H. }
  destruct r as [|y r]; [exfalso; destruct EO1 as [_ E]; cbn in E; congruence|]. cbn [adv] in H.
  destruct (list_erasure_sec switches env_errors _ _ _ _ _ _ H) as (src & ER & NP & RE).
  exists m, lp, (y :: r), src. split; [reflexivity|]. split; [exact Tlp|]. split; [exact ER|]. split; [exact NP|].
  intros f' L. unfold moves_operator. rewrite (expect_peek_cons2 LPAREN m lp _ Tlp).
  rewrite (adv_cons lp (src ++ ts') (app_nonempty _ _ NE)). unfold movement_value.
  apply RE; [right; reflexivity|eapply list_value_ends_closing; exact H|exact L].
Qed.
End STMTS.

(* ------------------------------------------------------------------------------------------------------------ *)
(* Part 4: the text position                                                                                    *)
(* ------------------------------------------------------------------------------------------------------------ *)
Section TEXT.
Variable switches : list (text * text).
Variable env_errors : bool.
Variable parse_format : toks -> res (token * text * text * toks).
Notation poryswitch_header := (poryswitch_header switches env_errors).
Notation text_value := (text_value parse_format).
Notation pory_text_cases := (pory_text_cases parse_format).
Notation pory_text := (pory_text switches env_errors parse_format).
Notation parse_text := (parse_text switches env_errors parse_format).

(* one step: the value and the string type are those of the selected case *)
Lemma pory_text_selected f ts sc sv ts1 cases ts2 :
  poryswitch_header ts = Ok (sc, sv, ts1) ->
  pory_text_cases f (cur ts1) ts1 [] = Ok (cases, ts2) ->
  pory_text f ts =
    match pory_select cases sv with
    | Some (v, sty) => Ok (v, sty, ts2)
    | None => if env_errors then err_tok (cur ts) "no poryswitch case found" else Ok ([], [], ts2)
    end.
Proof.
  intros H1 H2. unfold Parser.pory_text. cbv zeta. rewrite H1. cbv beta iota. rewrite H2. unfold pory_select.
  destruct (assoc cases (sval sv)) as [[v sty]|]; [reflexivity|]. destruct (assoc cases (t "_")) as [[v sty]|]; reflexivity.
Qed.

(* one case `x: value` or `x { value }` at ts; the next case (or the closing brace) is at tsn *)
Definition text_case_step (ts : toks) (x v sty : text) (tsn : toks) : Prop :=
  curis RBRACE ts = false /\ curis EOF ts = false /\ (curis IDENT ts = true \/ curis INT ts = true) /\
  tlit (cur ts) = x /\
  (curis COLON (adv ts) = true \/ curis LBRACE (adv ts) = true) /\
  exists p2, text_value (adv (adv ts)) = Ok (v, sty, p2) /\
    if curis LBRACE (adv ts) then curis RBRACE (adv p2) = true /\ tsn = adv (adv p2) else tsn = adv p2.

Inductive text_case_seq : toks -> list (text * (text * text)) -> toks -> Prop :=
| tcs_end ts : text_case_seq ts [] ts
| tcs_case ts x v sty tsn l ts' :
    text_case_step ts x v sty tsn -> text_case_seq tsn l ts' -> text_case_seq ts ((x, (v, sty)) :: l) ts'.

Lemma pory_text_cases_table : forall f start ts acc cases ts',
  pory_text_cases f start ts acc = Ok (cases, ts') ->
  exists l, text_case_seq ts l ts' /\ curis RBRACE ts' = true /\ cases = rev l ++ acc.
Proof.
  induction f as [|f IH]; intros start ts acc cases ts' H; [discriminate H|].
  cbn [Parser.pory_text_cases] in H.
  destruct (curis RBRACE ts) eqn:C0.
  { inversion H; subst. exists []. split; [constructor|split; [exact C0|reflexivity]]. }
  destruct (curis EOF ts) eqn:C1; [discriminate H|].
  destruct (negb (curis IDENT ts) && negb (curis INT ts)) eqn:C2; [discriminate H|].
  cbv zeta in H.
  destruct (curis COLON (adv ts) || curis LBRACE (adv ts)) eqn:C3; [|discriminate H].
  destruct (text_value (adv (adv ts))) as [[[v sty] p2]| | |] eqn:HV; try discriminate H.
  assert (CI : curis IDENT ts = true \/ curis INT ts = true).
  { destruct (curis IDENT ts); [left; reflexivity|]. destruct (curis INT ts); [right; reflexivity|discriminate C2]. }
  assert (CC : curis COLON (adv ts) = true \/ curis LBRACE (adv ts) = true) by (apply orb_true_iff; exact C3).
  assert (ST : forall tsn, (if curis LBRACE (adv ts) then curis RBRACE (adv p2) = true /\ tsn = adv (adv p2) else tsn = adv p2) ->
               text_case_step ts (tlit (cur ts)) v sty tsn).
  { intros tsn K. unfold text_case_step. repeat (split; [first [assumption|reflexivity]|]). exists p2. split; [exact HV|exact K]. }
  destruct (curis LBRACE (adv ts)) eqn:C4.
  - destruct (negb (curis RBRACE (adv p2))) eqn:C5; [discriminate H|]. apply negb_false_iff in C5.
    apply IH in H. destruct H as (l & CS & RB & ->). exists ((tlit (cur ts), (v, sty)) :: l). split; [|split; [exact RB|]].
    + eapply tcs_case; [apply ST; split; [exact C5|reflexivity]|exact CS].
    + cbn [rev]. rewrite <- app_assoc. reflexivity.
  - apply IH in H. destruct H as (l & CS & RB & ->). exists ((tlit (cur ts), (v, sty)) :: l). split; [|split; [exact RB|]].
    + eapply tcs_case; [apply ST; reflexivity|exact CS].
    + cbn [rev]. rewrite <- app_assoc. reflexivity.
Qed.

(* and conversely: the table is exactly the reversed sequence of cases *)
Lemma pory_text_cases_complete : forall l start ts acc ts',
  text_case_seq ts l ts' -> curis RBRACE ts' = true ->
  pory_text_cases (S (List.length l)) start ts acc = Ok (rev l ++ acc, ts').
Proof.
  induction l as [|[x [v sty]] l IH]; intros start ts acc ts' CS RB; inversion CS; subst.
  - cbn [Parser.pory_text_cases List.length]. rewrite RB. reflexivity.
  - match goal with H : text_case_step _ _ _ _ _ |- _ => destruct H as (C0 & C1 & CI & EX & CC & p2 & HV & K) end. subst x.
    cbn [List.length]. cbn [Parser.pory_text_cases]. rewrite C0, C1.
    assert (C2 : negb (curis IDENT ts) && negb (curis INT ts) = false)
      by (destruct CI as [-> | ->]; [reflexivity|apply andb_false_iff; right; reflexivity]).
    rewrite C2. cbv zeta.
    assert (C3 : curis COLON (adv ts) || curis LBRACE (adv ts) = true) by (apply orb_true_iff; exact CC).
    rewrite C3, HV. cbn [rev]. rewrite <- app_assoc. cbn [app].
    destruct (curis LBRACE (adv ts)).
    + destruct K as [K1 ->]. rewrite K1. cbn [negb]. apply IH; assumption.
    + subst tsn. apply IH; assumption.
Qed.

Lemma pory_select_last {B} (l : list (text * B)) sv b :
  pory_select (rev l) sv = Some b ->
  exists x l1 l2, l = l1 ++ (x, b) :: l2 /\ assoc l2 x = None /\
                  (x = sval sv \/ (x = t "_" /\ assoc l (sval sv) = None)).
Proof.
  unfold pory_select. destruct (assoc (rev l) (sval sv)) as [b'|] eqn:A.
  - intros E; inversion E; subst b'. apply assoc_rev_last in A. destruct A as (l1 & l2 & E1 & N).
    exists (sval sv), l1, l2. auto.
  - intros A2. apply assoc_rev_last in A2. destruct A2 as (l1 & l2 & E1 & N).
    exists (t "_"), l1, l2. split; [exact E1|]. split; [exact N|]. right. split; [reflexivity|]. apply assoc_rev_none, A.
Qed.

Lemma tcs_split l1 : forall ts x v sty l2 ts',
  text_case_seq ts (l1 ++ (x, (v, sty)) :: l2) ts' ->
  exists tsc tsn, text_case_seq ts l1 tsc /\ text_case_step tsc x v sty tsn /\ text_case_seq tsn l2 ts'.
Proof.
  induction l1 as [|[y [w u]] l1 IH]; intros ts x v sty l2 ts' H; cbn [app] in H; inversion H; subst.
  - eexists _, _. split; [constructor|]. split; eassumption.
  - match goal with K : text_case_seq _ (l1 ++ _) _ |- _ => apply IH in K; destruct K as (tsc & tsn' & K1 & K2 & K3) end.
    exists tsc, tsn'. split; [econstructor; eassumption|]. split; assumption.
Qed.

(* the value and type returned by a text poryswitch: those that text_value yields on the content of the last case
   labelled with the switch value, else of the last case labelled '_'; in lint mode, without such a case: empty *)
Lemma pory_text_contributes_sec f ts v sty ts2 :
  pory_text f ts = Ok (v, sty, ts2) ->
  exists sc sv ts1 l,
    poryswitch_header ts = Ok (sc, sv, ts1) /\ text_case_seq ts1 l ts2 /\ curis RBRACE ts2 = true /\
    match pory_select (rev l) sv with
    | Some r => r = (v, sty)
    | None => env_errors = false /\ v = [] /\ sty = []
    end.
Proof.
  intros H. unfold Parser.pory_text in H. cbv zeta in H.
  destruct (poryswitch_header ts) as [[[sc sv] ts1]| | |] eqn:HH; try discriminate H.
  destruct (pory_text_cases f (cur ts1) ts1 []) as [[cases ts2']| | |] eqn:HC; try discriminate H.
  destruct (pory_text_cases_table _ _ _ _ _ _ HC) as (l & CS & RB & E). rewrite app_nil_r in E. subst cases.
  exists sc, sv, ts1, l. unfold pory_select.
  destruct (assoc (rev l) (sval sv)) as [[v1 s1]|] eqn:A1.
  - inversion H; subst. split; [reflexivity|]. split; [exact CS|]. split; [exact RB|reflexivity].
  - destruct (assoc (rev l) (t "_")) as [[v1 s1]|] eqn:A2.
    + inversion H; subst. split; [reflexivity|]. split; [exact CS|]. split; [exact RB|reflexivity].
    + assert (EE : env_errors = false) by (destruct env_errors; [discriminate H|reflexivity]).
      rewrite (if_false_eq _ _ _ EE) in H. injection H as Ev Es Et. subst v sty ts2'.
      split; [reflexivity|]. split; [exact CS|]. split; [exact RB|]. split; [exact EE|split; reflexivity].
Qed.

(* ---------- replacing the poryswitch by the value of the selected case ---------- *)
(* the tokens src ++ [x] at the beginning of p form a text value denoting (v, sty), whatever follows them *)
Definition value_tokens (p : toks) (src : list token) (x : token) (v sty : text) : Prop :=
  (exists tail, p = src ++ x :: tail) /\
  forall R, R <> [] -> curis PORYSWITCH (src ++ x :: R) = false /\ text_value (src ++ x :: R) = Ok (v, sty, x :: R).

(* plain and typed string literals *)
Lemma value_tokens_plain p v sty p2 :
  curis FORMAT p = false -> text_value p = Ok (v, sty, p2) -> exists src x, value_tokens p src x v sty.
Proof.
  intros NF H. unfold Parser.text_value in H. rewrite NF in H.
  destruct (curis STRING p) eqn:C1.
  - injection H as Ev Es Ep. subst v sty p2. destruct p as [|a r]; [discriminate C1|]. exists [], a. split; [exists r; reflexivity|].
    intros R NE. cbn [app]. unfold Parser.text_value. rewrite !curis_cons in *. apply tt_eqb_true in C1. rewrite C1. split; reflexivity.
  - destruct (curis STRINGTYPE p) eqn:C2; [|discriminate H]. cbv zeta in H.
    destruct (negb (curis STRING (adv p))) eqn:C3; [discriminate H|]. apply negb_false_iff in C3. injection H as Ev Es Ep. subst v sty p2.
    destruct p as [|a [|b r]]; [discriminate C2| |].
    + exfalso. cbn [adv] in C3. rewrite curis_cons in C2, C3. apply tt_eqb_true in C2, C3. congruence.
    + cbn [adv] in *. exists [a], b. split; [exists r; reflexivity|].
      intros R NE. cbn [app]. unfold Parser.text_value. cbn [adv]. rewrite !curis_cons in *.
      apply tt_eqb_true in C2, C3. rewrite C2, C3. split; reflexivity.
Qed.

(* format( ... ): the operator is a parameter of the parser model; the replacement needs that it only depends on the
   tokens it consumes (up to its closing parenthesis x) *)
Definition format_local : Prop :=
  forall p tk v sty p2, eof_ended p -> parse_format p = Ok (tk, v, sty, p2) ->
    exists body x rest, p = body ++ x :: rest /\ p2 = x :: rest /\
      forall R, R <> [] -> parse_format (body ++ x :: R) = Ok (tk, v, sty, x :: R).

Lemma cur_app_cons (body : list token) x R R' : cur (body ++ x :: R) = cur (body ++ x :: R').
Proof. destruct body; reflexivity. Qed.

Lemma value_tokens_any p v sty p2 :
  curis FORMAT p = false \/ (format_local /\ eof_ended p) ->
  text_value p = Ok (v, sty, p2) -> exists src x, value_tokens p src x v sty.
Proof.
  intros D H. destruct (curis FORMAT p) eqn:CF; [|eapply value_tokens_plain; eassumption].
  destruct D as [D|[FL EO]]; [discriminate D|].
  unfold Parser.text_value in H. rewrite CF in H.
  destruct (parse_format p) as [[[[tk v0] sty0] ts1]| | |] eqn:PF; try discriminate H. injection H as Ev Es Ep. subst v sty0 p2.
  destruct (FL _ _ _ _ _ EO PF) as (body & x & rest & E1 & E2 & K). exists body, x. split; [exists rest; exact E1|].
  intros R NE. unfold curis in *. rewrite (cur_app_cons body x R rest), <- E1. split.
  - unfold is in *. apply tt_eqb_true in CF. rewrite CF. reflexivity.
  - unfold Parser.text_value. unfold curis. rewrite (cur_app_cons body x R rest), <- E1, CF. rewrite (K R NE). reflexivity.
Qed.

Lemma last_app_cons (body : list token) x rest : last (body ++ x :: rest) eof0 = last (x :: rest) eof0.
Proof. induction body as [|a body IH]; [reflexivity|]. cbn [app]. rewrite <- IH. destruct (body ++ x :: rest) eqn:E; [destruct body; discriminate E|reflexivity]. Qed.

Lemma text_value_eof p v sty p2 : format_local -> eof_ended p -> text_value p = Ok (v, sty, p2) -> eof_ended p2.
Proof.
  intros FL EO H. unfold Parser.text_value in H.
  destruct (curis FORMAT p) eqn:CF.
  - destruct (parse_format p) as [[[[tk v0] sty0] ts1]| | |] eqn:PF; try discriminate H. injection H as Ev Es Ep. subst p2.
    destruct (FL _ _ _ _ _ EO PF) as (body & x & rest & E1 & E2 & K). subst. destruct EO as [_ E]. split; [discriminate|].
    rewrite last_app_cons in E. exact E.
  - destruct (curis STRING p); [injection H as Ev Es Ep; subst p2; exact EO|].
    destruct (curis STRINGTYPE p); [|discriminate H]. cbv zeta in H. destruct (negb (curis STRING (adv p))); [discriminate H|].
    injection H as Ev Es Ep. subst p2. eapply advs_eof; [apply advs_step, advs_refl|exact EO].
Qed.

Lemma adv_eof ts : eof_ended ts -> eof_ended (adv ts).
Proof. intros EO. eapply advs_eof; [apply advs_step, advs_refl|exact EO]. Qed.

Lemma text_case_step_eof ts x v sty tsn : format_local -> eof_ended ts -> text_case_step ts x v sty tsn -> eof_ended tsn.
Proof.
  intros FL EO (_ & _ & _ & _ & _ & p2 & HV & K).
  assert (EO2 : eof_ended p2) by (eapply text_value_eof; [exact FL| |exact HV]; apply adv_eof, adv_eof, EO).
  destruct (curis LBRACE (adv ts)); [destruct K as [_ ->]|subst tsn]; repeat apply adv_eof; exact EO2.
Qed.

Lemma text_case_seq_eof ts l ts' : format_local -> text_case_seq ts l ts' -> eof_ended ts -> eof_ended ts'.
Proof.
  intros FL CS. induction CS as [|ts x v sty tsn l ts' ST CS IH]; [auto|]. intros EO. apply IH.
  eapply text_case_step_eof; eassumption.
Qed.

Lemma expect_peek_shape ty ts ts' : ty <> EOF -> expect_peek ty ts = Some ts' -> ts' <> [] /\ ttype (cur ts') = ty.
Proof.
  intros T H. apply expect_peek_true in H. destruct H as [P ->]. unfold peekis, pk, is in P. apply tt_eqb_true in P.
  destruct ts as [|a [|b r]]; cbn in *; [congruence| |]; (split; [discriminate|exact P]).
Qed.

(* the content of a text statement can be replaced by any token sequence that denotes the same value and type *)
Lemma parse_text_replace f ts td ts' :
  eof_ended ts -> parse_text f ts = Ok (td, ts') ->
  exists hd lb body ts5,
    ts = hd ++ lb :: body /\ ttype lb = LBRACE /\ eof_ended body /\
    (if curis PORYSWITCH body then pory_text f body else text_value body) = Ok (xvalue td, xtype td, ts5) /\
    forall src x f',
      (forall R, R <> [] -> curis PORYSWITCH (src ++ x :: R) = false /\
                            text_value (src ++ x :: R) = Ok (xvalue td, xtype td, x :: R)) ->
      parse_text f' (hd ++ lb :: src ++ x :: ts') = Ok (td, ts').
Proof.
  intros EO H. unfold Parser.parse_text in H. cbv zeta in H.
  destruct (scope_modifier true ts) as [[g ts1]| | |] eqn:SM; try discriminate H.
  destruct (expect_peek IDENT ts1) as [ts2|] eqn:P1; [|discriminate H].
  destruct (expect_peek LBRACE ts2) as [ts3|] eqn:P2; [|discriminate H].
  destruct (if curis PORYSWITCH (adv ts3) then pory_text f (adv ts3) else text_value (adv ts3)) as [[[v sty] ts5]| | |] eqn:TV;
    try discriminate H.
  destruct (expect_peek RBRACE ts5) as [ts6|] eqn:P3; [|discriminate H].
  injection H as Etd Ets. subst ts6.
  destruct (header_shape _ _ _ _ _ _ EO SM P1 P2) as (h & a' & n & lb & body & E & E1 & E2 & E3 & AD & Tn & Tl & EOb & CU & SMX).
  rewrite AD in TV.
  exists (h ++ [n]), lb, body, ts5. split; [rewrite <- app_assoc; exact E|]. split; [exact Tl|]. split; [exact EOb|].
  subst td. cbn [xvalue xtype]. split; [exact TV|].
  intros src x f' K. rewrite <- app_assoc. cbn [app]. unfold Parser.parse_text. cbv zeta. rewrite SMX.
  rewrite (expect_peek_cons2 IDENT a' n _ Tn). rewrite (expect_peek_cons2 LBRACE n lb _ Tl).
  destruct (expect_peek_shape RBRACE _ _ ltac:(discriminate) P3) as [NE TR].
  rewrite (adv_cons lb (src ++ x :: ts')) by (apply app_nonempty; discriminate).
  destruct (K ts' NE) as [K1 K2]. rewrite K1, K2.
  destruct ts' as [|rb r]; [congruence|]. cbn [cur hd] in TR. rewrite (expect_peek_cons2 RBRACE x rb r TR).
  rewrite CU. subst ts2. reflexivity.
Qed.

Lemma text_statement_erasure_sec f ts td ts' :
  eof_ended ts -> parse_text f ts = Ok (td, ts') ->
  exists hd lb body,
    ts = hd ++ lb :: body /\ ttype lb = LBRACE /\
    (curis PORYSWITCH body = true ->
     exists sc sv ts1 l ts2,
       poryswitch_header body = Ok (sc, sv, ts1) /\ text_case_seq ts1 l ts2 /\ curis RBRACE ts2 = true /\
       match pory_select (rev l) sv with
       | None => env_errors = false /\ xvalue td = [] /\ xtype td = []
       | Some _ =>
           exists x l1 l2 tsc tsn,
             l = l1 ++ (x, (xvalue td, xtype td)) :: l2 /\ assoc l2 x = None /\
             (x = sval sv \/ (x = t "_" /\ assoc l (sval sv) = None)) /\
             text_case_seq ts1 l1 tsc /\ text_case_step tsc x (xvalue td) (xtype td) tsn /\
             (curis FORMAT (adv (adv tsc)) = false \/ format_local ->
              exists src lastx,
                (exists tail, adv (adv tsc) = src ++ lastx :: tail) /\
                forall f', parse_text f' (hd ++ lb :: src ++ lastx :: ts') = Ok (td, ts'))
       end).
Proof.
  intros EO H. destruct (parse_text_replace _ _ _ _ EO H) as (hd & lb & body & ts5 & E & Tl & EOb & TV & RP).
  exists hd, lb, body. split; [exact E|]. split; [exact Tl|]. intros CP. rewrite CP in TV.
  destruct (pory_text_contributes_sec _ _ _ _ _ TV) as (sc & sv & ts1 & l & HH & CS & RB & SEL).
  exists sc, sv, ts1, l, ts5. split; [exact HH|]. split; [exact CS|]. split; [exact RB|].
  destruct (pory_select (rev l) sv) as [r|] eqn:PS; [|exact SEL]. subst r.
  destruct (pory_select_last _ _ _ PS) as (x & l1 & l2 & El & N & XX).
  rewrite El in CS. destruct (tcs_split _ _ _ _ _ _ _ CS) as (tsc & tsn & CS1 & ST & CS2).
  exists x, l1, l2, tsc, tsn. split; [exact El|]. split; [exact N|]. split; [exact XX|]. split; [exact CS1|]. split; [exact ST|].
  intros D. destruct ST as (_ & _ & _ & _ & _ & p2 & HV & _).
  assert (D' : curis FORMAT (adv (adv tsc)) = false \/ (format_local /\ eof_ended (adv (adv tsc)))).
  { destruct D as [D|FL]; [left; exact D|right]. split; [exact FL|]. apply adv_eof, adv_eof.
    eapply text_case_seq_eof; [exact FL|exact CS1|]. eapply advs_eof; [|exact EOb].
    eapply poryswitch_header_advs; [exact HH|apply advs_refl]. }
  destruct (value_tokens_any _ _ _ _ D' HV) as (src & lastx & TL & K).
  exists src, lastx. split; [exact TL|]. intros f'. apply RP. exact K.
Qed.
End TEXT.

(* ============================================================================================================ *)
(* MAIN THEOREMS                                                                                                 *)
(* ============================================================================================================ *)
Local Open Scope string_scope.
Local Open Scope list_scope.

Definition no_poryswitch (src : list token) : Prop := Forall (fun tk => ttype tk <> PORYSWITCH) src.

(* ---------- lists (movement statement, moves(), mart statement) ---------- *)

(* L1. one step, the analogue of poryswitch_statement_selects: the items a poryswitch adds to the list are those of the
   case selected by the switch value (else '_'), whatever the other cases contain; then the list continues behind the
   poryswitch (multi) or ends (the single item of a colon case: nesting) *)
Theorem poryswitch_list_selects :
  forall switches env_errors f k multi ts acc sc sv ts1 cases ts2,
    curis (closing_of k) ts = false -> curis PORYSWITCH ts = true ->
    poryswitch_header switches env_errors ts = Ok (sc, sv, ts1) ->
    list_cases switches env_errors f k (cur ts1) ts1 [] = Ok (cases, ts2) ->
    list_value switches env_errors (S f) k multi ts acc =
      let continue acc' := if multi then list_value switches env_errors f k multi (adv ts2) acc' else Ok (acc', adv ts2) in
      match pory_select cases sv with
      | Some items => continue (acc ++ items)
      | None => if env_errors then err_tok (cur ts) "no poryswitch case found" else continue acc
      end.
Proof. exact list_pory_selected. Qed.

(* L2. no matching case and no '_': normal mode fails at the poryswitch token *)
Theorem poryswitch_list_no_case_fails :
  forall switches f k multi ts acc sc sv ts1 cases ts2,
    curis (closing_of k) ts = false -> curis PORYSWITCH ts = true ->
    poryswitch_header switches true ts = Ok (sc, sv, ts1) ->
    list_cases switches true f k (cur ts1) ts1 [] = Ok (cases, ts2) ->
    assoc cases (sval sv) = None -> assoc cases (t "_") = None ->
    exists e, list_value switches true (S f) k multi ts acc = Err e /\ els e = tline (cur ts) /\ ecs e = tsb (cur ts).
Proof.
  intros switches f k multi ts acc sc sv ts1 cases ts2 C P H1 H2 A1 A2.
  rewrite (list_pory_selected _ _ _ _ _ _ _ _ _ _ _ _ C P H1 H2). cbv zeta. unfold pory_select. rewrite A1, A2.
  eexists. split; [reflexivity|]. split; reflexivity.
Qed.

(* L3. lint mode: nothing is contributed *)
Theorem poryswitch_list_no_case_lint :
  forall switches f k ts acc sc sv ts1 cases ts2,
    curis (closing_of k) ts = false -> curis PORYSWITCH ts = true ->
    poryswitch_header switches false ts = Ok (sc, sv, ts1) ->
    list_cases switches false f k (cur ts1) ts1 [] = Ok (cases, ts2) ->
    assoc cases (sval sv) = None -> assoc cases (t "_") = None ->
    list_value switches false (S f) k true ts acc = list_value switches false f k true (adv ts2) acc.
Proof.
  intros switches f k ts acc sc sv ts1 cases ts2 C P H1 H2 A1 A2.
  rewrite (list_pory_selected _ _ _ _ _ _ _ _ _ _ _ _ C P H1 H2). cbv zeta. unfold pory_select. rewrite A1, A2. reflexivity.
Qed.

(* L4. the case table: the cases in source order, each with the items of its own content (brace form: a whole list up
   to '}', colon form: one item; a nested poryswitch is an item); the table is the reversed sequence, so that ... *)
Theorem list_cases_table :
  forall switches env_errors f k start ts cases ts',
    list_cases switches env_errors f k start ts [] = Ok (cases, ts') ->
    exists l, case_seq switches env_errors k ts l ts' /\ curis RBRACE ts' = true /\ cases = rev l.
Proof.
  intros switches env_errors f k start ts cases ts' H.
  destruct (list_cases_table_sec _ _ _ _ _ _ _ _ _ H) as (l & CS & RB & E). rewrite app_nil_r in E. eauto.
Qed.

(* L5. ... the lookup finds the LAST case, in source order, that carries the label (Go: later map assignment wins);
   and pory_select is: the last case labelled with the switch value, else the last case labelled '_' *)
Theorem poryswitch_last_case_wins :
  forall (B : Type) (l : list (text * B)) sv b,
    pory_select (rev l) sv = Some b <->
    exists x l1 l2, l = l1 ++ (x, b) :: l2 /\ assoc l2 x = None /\
                    (x = sval sv \/ (x = t "_" /\ assoc l (sval sv) = None)).
Proof.
  intros B l sv b. split; [apply pory_select_last|].
  intros (x & l1 & l2 & E & N & [X | [X A]]); unfold pory_select.
  - subst x. assert (K : assoc (rev l) (sval sv) = Some b) by (apply assoc_rev_last; eauto). rewrite K. reflexivity.
  - subst x. apply assoc_rev_none in A. rewrite A. apply assoc_rev_last. eauto.
Qed.

(* L6. ERASURE.  A list that parses, parses to the same items when every poryswitch in it is replaced by the content of
   its selected case (list_erase: recursively; nothing when lint mode finds no case): src contains no poryswitch, and
   src followed by anything that starts with the closing token yields the same items.  (closing token: '}' for the
   statements, ')' for moves().) *)
Theorem poryswitch_list_erasure :
  forall switches env_errors f k ts acc items ts',
    list_value switches env_errors f k true ts acc = Ok (items, ts') ->
    exists src,
      list_erase switches env_errors f k true ts [] = Ok (src, ts') /\
      no_poryswitch src /\
      forall rest f', closing_of k = RBRACE \/ closing_of k = RPAREN ->
        curis (closing_of k) rest = true -> (List.length src < f')%nat ->
        list_value switches env_errors f' k true (src ++ rest) acc = Ok (items, rest).
Proof. exact list_erasure_sec. Qed.

(* in particular with the original continuation *)
Theorem poryswitch_list_erasure_same_rest :
  forall switches env_errors f k ts acc items ts',
    closing_of k = RBRACE \/ closing_of k = RPAREN ->
    list_value switches env_errors f k true ts acc = Ok (items, ts') ->
    exists src,
      list_erase switches env_errors f k true ts [] = Ok (src, ts') /\ no_poryswitch src /\
      list_value switches env_errors (S (List.length src)) k true (src ++ ts') acc = Ok (items, ts').
Proof.
  intros switches env_errors f k ts acc items ts' CK H.
  destruct (list_erasure_sec _ _ _ _ _ _ _ _ H) as (src & E & NP & R). exists src. split; [exact E|]. split; [exact NP|].
  apply R; [exact CK|eapply list_value_ends_closing; exact H|lia].
Qed.

(* "no token of any other case influences the output": two lists (same switch assignment) that erase to the same
   source have the same items, whatever their non-selected cases contain *)
Theorem list_items_determined_by_erased_source :
  forall switches env_errors f1 f2 k ts1 ts2 acc items1 items2 r1 r2 src,
    closing_of k = RBRACE \/ closing_of k = RPAREN ->
    list_value switches env_errors f1 k true ts1 acc = Ok (items1, r1) ->
    list_value switches env_errors f2 k true ts2 acc = Ok (items2, r2) ->
    list_erase switches env_errors f1 k true ts1 [] = Ok (src, r1) ->
    list_erase switches env_errors f2 k true ts2 [] = Ok (src, r2) ->
    items1 = items2.
Proof.
  intros switches env_errors f1 f2 k ts1 ts2 acc items1 items2 r1 r2 src CK H1 H2 E1 E2.
  destruct (list_erasure_sec _ _ _ _ _ _ _ _ H1) as (s1 & E1' & _ & R1).
  destruct (list_erasure_sec _ _ _ _ _ _ _ _ H2) as (s2 & E2' & _ & R2).
  rewrite E1 in E1'. rewrite E2 in E2'. injection E1' as <-. injection E2' as <-.
  pose proof (list_value_ends_closing _ _ _ _ _ _ _ _ H1) as C1.
  pose proof (R1 r1 (S (List.length src)) CK C1 (Nat.lt_succ_diag_r _)) as K1.
  pose proof (R2 r1 (S (List.length src)) CK C1 (Nat.lt_succ_diag_r _)) as K2.
  rewrite K1 in K2. injection K2 as ->. reflexivity.
Qed.

(* what list_erase is: (a) at a poryswitch it keeps the erased content of the selected case only *)
Theorem list_erase_selects :
  forall switches env_errors f k multi ts acc sc sv ts1 cases ts2,
    curis (closing_of k) ts = false -> curis PORYSWITCH ts = true ->
    poryswitch_header switches env_errors ts = Ok (sc, sv, ts1) ->
    erase_cases switches env_errors f k (cur ts1) ts1 [] = Ok (cases, ts2) ->
    list_erase switches env_errors (S f) k multi ts acc =
      let continue acc' := if multi then list_erase switches env_errors f k multi (adv ts2) acc' else Ok (acc', adv ts2) in
      match pory_select cases sv with
      | Some src => continue (acc ++ src)
      | None => if env_errors then err_tok (cur ts) "no poryswitch case found" else continue acc
      end.
Proof.
  intros switches env_errors f k multi ts acc sc sv ts1 cases ts2 C P H1 H2.
  rewrite list_erase_unfold. cbv zeta. unfold closing_of in C. rewrite C, P, H1. cbv beta iota.
  rewrite H2. unfold pory_select. destruct (assoc cases (sval sv)); [reflexivity|]. destruct (assoc cases (t "_")); reflexivity.
Qed.

(* (b) on input without poryswitch tokens it returns exactly the tokens it consumed *)
Theorem list_erase_identity_without_poryswitch :
  forall switches env_errors f k multi ts src ts',
    eof_ended ts -> no_poryswitch ts ->
    list_erase switches env_errors f k multi ts [] = Ok (src, ts') -> ts = src ++ ts'.
Proof.
  intros switches env_errors f k multi ts src ts' EO NP H.
  destruct (list_erase_nopory_identity _ _ _ _ _ _ _ _ _ H EO NP) as (s & E1 & E2). cbn in E1. subst s. exact E2.
Qed.

(* (c) erasing the erased source changes nothing *)
Theorem list_erase_idempotent :
  forall switches env_errors f k ts acc items ts',
    closing_of k = RBRACE \/ closing_of k = RPAREN ->
    list_value switches env_errors f k true ts acc = Ok (items, ts') ->
    exists src, list_erase switches env_errors f k true ts [] = Ok (src, ts') /\
      list_erase switches env_errors (S (List.length src)) k true (src ++ ts') [] = Ok (src, ts').
Proof.
  intros switches env_errors f k ts acc items ts' CK H.
  destruct (list_erase_idempotent_sec _ _ _ _ _ _ _ _ H) as (src & E & R). exists src. split; [exact E|].
  apply R; [exact CK|eapply list_value_ends_closing; exact H|lia].
Qed.

(* L7. the statements.  `movement M { ... }`: the statement with the poryswitches erased from its body parses to the
   same movement statement (hd = the tokens before the opening brace lb) *)
Theorem movement_statement_erasure :
  forall switches env_errors f ts tp ts',
    eof_ended ts -> parse_movement switches env_errors f ts = Ok (tp, ts') ->
    exists hd lb body src,
      ts = hd ++ lb :: body /\ ttype lb = LBRACE /\
      list_erase switches env_errors f (LMov RBRACE) true body [] = Ok (src, ts') /\
      no_poryswitch src /\
      forall f', (List.length src < f')%nat ->
        parse_movement switches env_errors f' (hd ++ lb :: src ++ ts') = Ok (tp, ts').
Proof. exact movement_statement_erasure_sec. Qed.

Theorem mart_statement_erasure :
  forall switches env_errors consts f ts tp ts',
    eof_ended ts -> parse_mart switches env_errors consts f ts = Ok (tp, ts') ->
    exists hd lb body src,
      ts = hd ++ lb :: body /\ ttype lb = LBRACE /\
      list_erase switches env_errors f LMart true body [] = Ok (src, ts') /\
      no_poryswitch src /\
      forall f', (List.length src < f')%nat ->
        parse_mart switches env_errors consts f' (hd ++ lb :: src ++ ts') = Ok (tp, ts').
Proof. exact mart_statement_erasure_sec. Qed.

Theorem moves_operator_erasure :
  forall switches env_errors f ts mv ts',
    eof_ended ts -> moves_operator switches env_errors f ts = Ok (mv, ts') ->
    exists m lp body src,
      ts = m :: lp :: body /\ ttype lp = LPAREN /\
      list_erase switches env_errors f (LMov RPAREN) true body [] = Ok (src, ts') /\
      no_poryswitch src /\
      forall f', (List.length src < f')%nat ->
        moves_operator switches env_errors f' (m :: lp :: src ++ ts') = Ok (mv, ts').
Proof. exact moves_operator_erasure_sec. Qed.

(* ---------- text ---------- *)

(* T1. one step: value and string type are those of the selected case (the fallback '_' with its own type) *)
Theorem poryswitch_text_selects :
  forall switches env_errors parse_format f ts sc sv ts1 cases ts2,
    poryswitch_header switches env_errors ts = Ok (sc, sv, ts1) ->
    pory_text_cases parse_format f (cur ts1) ts1 [] = Ok (cases, ts2) ->
    pory_text switches env_errors parse_format f ts =
      match pory_select cases sv with
      | Some (v, sty) => Ok (v, sty, ts2)
      | None => if env_errors then err_tok (cur ts) "no poryswitch case found" else Ok ([], [], ts2)
      end.
Proof. exact pory_text_selected. Qed.

Theorem poryswitch_text_no_case_fails :
  forall switches parse_format f ts sc sv ts1 cases ts2,
    poryswitch_header switches true ts = Ok (sc, sv, ts1) ->
    pory_text_cases parse_format f (cur ts1) ts1 [] = Ok (cases, ts2) ->
    assoc cases (sval sv) = None -> assoc cases (t "_") = None ->
    exists e, pory_text switches true parse_format f ts = Err e /\ els e = tline (cur ts) /\ ecs e = tsb (cur ts).
Proof.
  intros switches parse_format f ts sc sv ts1 cases ts2 H1 H2 A1 A2.
  rewrite (pory_text_selected _ _ _ _ _ _ _ _ _ _ H1 H2). unfold pory_select. rewrite A1, A2.
  eexists. split; [reflexivity|]. split; reflexivity.
Qed.

(* T2. the case table is exactly the reversed sequence of the cases, each with text_value of its own content *)
Theorem text_cases_table :
  forall parse_format f start ts cases ts',
    pory_text_cases parse_format f start ts [] = Ok (cases, ts') ->
    exists l, text_case_seq parse_format ts l ts' /\ curis RBRACE ts' = true /\ cases = rev l.
Proof.
  intros parse_format f start ts cases ts' H.
  destruct (pory_text_cases_table _ _ _ _ _ _ _ H) as (l & CS & RB & E). rewrite app_nil_r in E. eauto.
Qed.

Theorem text_cases_table_complete :
  forall parse_format l start ts ts',
    text_case_seq parse_format ts l ts' -> curis RBRACE ts' = true ->
    pory_text_cases parse_format (S (List.length l)) start ts [] = Ok (rev l, ts').
Proof.
  intros parse_format l start ts ts' CS RB. rewrite <- (app_nil_r (rev l)). apply pory_text_cases_complete; assumption.
Qed.

(* T3. what a text poryswitch returns *)
Theorem poryswitch_text_contributes :
  forall switches env_errors parse_format f ts v sty ts2,
    pory_text switches env_errors parse_format f ts = Ok (v, sty, ts2) ->
    exists sc sv ts1 l,
      poryswitch_header switches env_errors ts = Ok (sc, sv, ts1) /\
      text_case_seq parse_format ts1 l ts2 /\ curis RBRACE ts2 = true /\
      match pory_select (rev l) sv with
      | Some r => r = (v, sty)
      | None => env_errors = false /\ v = [] /\ sty = []
      end.
Proof. exact pory_text_contributes_sec. Qed.

(* T4. ERASURE for the text statement: `text T { poryswitch(S) { ... } }` parses to the same text definition as
   `text T { value }` where value = the tokens src ++ [lastx] of the content of the selected case: the last case x
   equal to the switch value, else the last '_'.  For a format( ) value this needs that the format operator (a parameter
   of the parser model) depends only on the tokens it consumes (format_local); for string literals with or without
   string type it holds unconditionally.  In lint mode without selected case the text is empty with empty type. *)
Theorem text_statement_erasure :
  forall switches env_errors parse_format f ts td ts',
    eof_ended ts -> parse_text switches env_errors parse_format f ts = Ok (td, ts') ->
    exists hd lb body,
      ts = hd ++ lb :: body /\ ttype lb = LBRACE /\
      (curis PORYSWITCH body = true ->
       exists sc sv ts1 l ts2,
         poryswitch_header switches env_errors body = Ok (sc, sv, ts1) /\
         text_case_seq parse_format ts1 l ts2 /\ curis RBRACE ts2 = true /\
         match pory_select (rev l) sv with
         | None => env_errors = false /\ xvalue td = [] /\ xtype td = []
         | Some _ =>
             exists x l1 l2 tsc tsn,
               l = l1 ++ (x, (xvalue td, xtype td)) :: l2 /\ assoc l2 x = None /\
               (x = sval sv \/ (x = t "_" /\ assoc l (sval sv) = None)) /\
               text_case_seq parse_format ts1 l1 tsc /\
               text_case_step parse_format tsc x (xvalue td) (xtype td) tsn /\
               (curis FORMAT (adv (adv tsc)) = false \/ format_local parse_format ->
                exists src lastx,
                  (exists tail, adv (adv tsc) = src ++ lastx :: tail) /\
                  forall f', parse_text switches env_errors parse_format f' (hd ++ lb :: src ++ lastx :: ts') = Ok (td, ts'))
         end).
Proof. exact text_statement_erasure_sec. Qed.

(* ============================================================================================================ *)
(* Part 5: the format() operator of the model (Format.parse_format) is local, so T4 holds for it unconditionally  *)
(* ============================================================================================================ *)
From Pory Require ProgSrc.
From Pory Require Import Format.

(* swap ra rb s: the stream s, which ends with ra, with that end replaced by rb.  Every stream the format operator
   looks at lies at least two tokens before ra (the last token it consumes, ')', is followed by ra), so all its
   lookups - cur, the peeks 1 and 2 ahead - see the same tokens in s and in swap s. *)
Section SWAP.
Variables ra rb : toks.
Hypothesis ra_ne : ra <> [].
Hypothesis rb_ne : rb <> [].

Definition swap (s : toks) : toks := firstn (List.length s - List.length ra) s ++ rb.
(* s ends with ra, with at least n tokens before it *)
Definition Gw (n : nat) (s : toks) : Prop := exists u, s = u ++ ra /\ (n <= List.length u)%nat.

Lemma swap_app u : swap (u ++ ra) = u ++ rb.
Proof.
  unfold swap. rewrite app_length. replace (List.length u + List.length ra - List.length ra)%nat with (List.length u) by lia.
  rewrite firstn_app, firstn_all, Nat.sub_diag. cbn. rewrite app_nil_r. reflexivity.
Qed.
Lemma G_le n m s : (m <= n)%nat -> Gw n s -> Gw m s.
Proof. intros L (u & E & K). exists u. split; [exact E|lia]. Qed.
Lemma swap_cur s : Gw 1 s -> cur (swap s) = cur s.
Proof. intros (u & -> & K). rewrite swap_app. destruct u; [cbn in K; lia|reflexivity]. Qed.
Lemma swap_pk1 s : Gw 2 s -> pk 1 (swap s) = pk 1 s.
Proof. intros (u & -> & K). rewrite swap_app. destruct u as [|c [|d u]]; cbn in K; try lia. reflexivity. Qed.
Lemma swap_pk2 s : Gw 3 s -> pk 2 (swap s) = pk 2 s.
Proof. intros (u & -> & K). rewrite swap_app. destruct u as [|c [|d [|e u]]]; cbn in K; try lia. reflexivity. Qed.
Lemma swap_adv s : Gw 1 s -> adv (swap s) = swap (adv s).
Proof.
  intros (u & -> & K). rewrite swap_app. destruct u as [|c u]; [cbn in K; lia|]. cbn [app].
  assert (A1 : adv (c :: u ++ rb) = u ++ rb) by (destruct (u ++ rb) eqn:E; [apply app_eq_nil in E; destruct E; congruence|reflexivity]).
  assert (A2 : adv (c :: u ++ ra) = u ++ ra) by (destruct (u ++ ra) eqn:E; [apply app_eq_nil in E; destruct E; congruence|reflexivity]).
  rewrite A1, A2, swap_app. reflexivity.
Qed.
Lemma swap_curis ty s : Gw 1 s -> curis ty (swap s) = curis ty s.
Proof. intros K. unfold curis. rewrite swap_cur by exact K. reflexivity. Qed.
Lemma swap_peekis ty s : Gw 2 s -> peekis ty (swap s) = peekis ty s.
Proof. intros K. unfold peekis. rewrite swap_pk1 by exact K. reflexivity. Qed.
Lemma swap_expect_peek ty s : Gw 2 s ->
  expect_peek ty (swap s) = match expect_peek ty s with Some s1 => Some (swap s1) | None => None end.
Proof.
  intros K. unfold expect_peek. rewrite swap_peekis by exact K. destruct (peekis ty s); [|reflexivity].
  rewrite swap_adv by (eapply G_le; [|exact K]; lia). reflexivity.
Qed.

Lemma advs_suffix a s : advs a s -> exists v, a = v ++ s.
Proof.
  induction 1 as [s|a s A IH]; [exists []; reflexivity|]. destruct IH as (v & E).
  destruct a as [|x [|y r]]; cbn [adv] in E; [exists v; exact E|exists v; exact E|].
  exists (x :: v). cbn. rewrite <- E. reflexivity.
Qed.
Lemma G_advs n a s : advs a s -> Gw n s -> Gw n a.
Proof. intros A (u & -> & K). destruct (advs_suffix _ _ A) as (v & ->). exists (v ++ u). rewrite app_assoc, app_length. split; [reflexivity|lia]. Qed.
Lemma G_adv_inv n s : (1 <= n)%nat -> Gw n (adv s) -> Gw (S n) s.
Proof.
  intros N (u & E & K). destruct s as [|y [|z r]]; cbn [adv] in E.
  - destruct u; [cbn in K; lia|discriminate].
  - exfalso. apply (f_equal (@List.length token)) in E. rewrite app_length in E. cbn in E.
    assert (1 <= List.length ra)%nat by (destruct ra; [congruence|cbn; lia]). lia.
  - exists (y :: u). cbn. rewrite <- E. split; [reflexivity|lia].
Qed.
(* the stream before the final ')' *)
Lemma G_last s x : adv s = x :: ra -> Gw 2 s.
Proof.
  intros E. destruct s as [|y [|z r]]; cbn [adv] in E; [discriminate| |].
  - injection E as E1 E2. congruence.
  - exists [y; x]. rewrite E. split; [reflexivity|cbn; lia].
Qed.

Lemma G_adv_lt s : Gw 1 s -> (List.length (adv s) < List.length s)%nat.
Proof.
  intros (u & -> & K). destruct u as [|c u]; [cbn in K; lia|]. cbn [app].
  destruct (u ++ ra) eqn:E; [apply app_eq_nil in E; destruct E; congruence|]. cbn. lia.
Qed.

Ltac nl_advs := advs_gox ltac:(fun K => eapply ProgSrc.named_loop_advs; [exact K|]).
Ltac good GS := first [exact GS | eapply G_advs; [|exact GS]; nl_advs | eapply G_le; [|eapply G_advs; [|exact GS]; nl_advs]; lia].
Ltac tr GS :=
  repeat first
  [ rewrite swap_adv by good GS
  | rewrite swap_peekis by good GS
  | rewrite swap_curis by good GS
  | rewrite swap_cur by good GS
  | rewrite swap_pk1 by good GS
  | rewrite swap_expect_peek by good GS
  | match goal with E : ?t = _ |- context [?t] => rewrite E end
  | progress cbv beta iota zeta ].

Lemma named_loop_swap : forall f s p had p' had' s',
  named_loop f s p had = Parser.Ok (p', had', s') -> Gw 2 s' ->
  forall f', (List.length s - List.length s' < f')%nat ->
  named_loop f' (swap s) p had = Parser.Ok (p', had', swap s').
Proof.
  induction f as [|f IH]; intros s p had p' had' s' H GS f' L; [discriminate H|].
  destruct f' as [|f']; [lia|].
  pose proof (ProgSrc.named_loop_advs _ _ _ _ _ _ _ H s (advs_refl s)) as A0.
  cbn [named_loop] in H. cbn [named_loop].
  assert (G2s : Gw 2 s) by (eapply G_advs; [exact A0|exact GS]).
  assert (LT : (List.length (adv s) < List.length s)%nat) by (apply G_adv_lt; eapply G_le; [|exact G2s]; lia).
  ok_split H;
    (tr GS;
     first [ reflexivity
           | match goal with
             | Hr : named_loop f ?X _ _ = Parser.Ok (_, _, s') |- _ =>
                 eapply IH; [exact Hr|exact GS|];
                 pose proof (advs_len _ _ (ProgSrc.named_loop_advs _ _ _ _ _ _ _ Hr X (advs_refl X)));
                 assert (AX : advs (adv s) X) by nl_advs;
                 pose proof (advs_len _ _ AX); lia
             end ]).
Qed.

Lemma swap_len_bound s s' : Gw 0 s -> Gw 0 s' -> (List.length s - List.length s' < S (List.length (swap s)))%nat.
Proof.
  intros (u & -> & _) (u' & -> & _). rewrite swap_app, !app_length.
  assert (1 <= List.length rb)%nat by (destruct rb; [congruence|cbn; lia]). lia.
Qed.

Section PF.
Variable fc : fontcfg.
Variable cli_font : text.
Variable cli_maxlen : Z.
Variable ee : bool.

(* parse_format cut into stages (copies of the text of Format.parse_format, checked by reflexivity below) *)
Definition pf_pos (p0 : fparams) (tsa : toks) : res (fparams * bool * bool * toks) :=
  if peekis INT tsa || peekis STRING tsa then
    if peekis STRING tsa then
      let tsc := adv tsa in
      let p1 := {| pFont := tlit (cur tsc); pFontTok := Some (cur tsc); pMax := pMax p0; pLines := pLines p0; pCursor := pCursor p0; pSpec := [t "fontId"] |} in
      do (p2, tsd) <-
         (if peekis COMMA tsc && negb (is IDENT (pk 2 tsc)) then
            let tse := adv tsc in
            match expect_peek INT tse with
            | None => err_tok (pk 1 tse) "invalid format() maxLineLength. Expected integer"
            | Some tsf => Parser.Ok ({| pFont := pFont p1; pFontTok := pFontTok p1; pMax := pint (tlit (cur tsf)); pLines := pLines p1; pCursor := pCursor p1; pSpec := pSpec p1 |}, tsf)
            end
          else Parser.Ok (p1, tsc));
      let ex := peekis COMMA tsd in
      Parser.Ok (p2, true, ex, if ex then adv tsd else tsd)
    else
      let tsc := adv tsa in
      let p1 := {| pFont := pFont p0; pFontTok := None; pMax := pint (tlit (cur tsc)); pLines := pLines p0; pCursor := pCursor p0; pSpec := [t "maxLineLength"] |} in
      do (p2, tsd) <-
         (if peekis COMMA tsc && negb (is IDENT (pk 2 tsc)) then
            let tse := adv tsc in
            match expect_peek STRING tse with
            | None => err_tok (pk 1 tse) "invalid format() fontId. Expected string"
            | Some tsf => Parser.Ok ({| pFont := tlit (cur tsf); pFontTok := Some (cur tsf); pMax := pMax p1; pLines := pLines p1; pCursor := pCursor p1; pSpec := pSpec p1 |}, tsf)
            end
          else Parser.Ok (p1, tsc));
      let ex := peekis COMMA tsd in
      Parser.Ok (p2, true, ex, if ex then adv tsd else tsd)
  else Parser.Ok (p0, false, true, tsa).

Definition pf_params (p0 : fparams) (ts3 : toks) : res (fparams * toks) :=
  if peekis COMMA ts3 then
    let tsa := adv ts3 in
    do (p1, had1, expecting, tsb) <- pf_pos p0 tsa;
    do (p2, had2, tsc) <- (if expecting then named_loop (S (List.length tsb)) tsb p1 had1 else Parser.Ok (p1, had1, tsb));
    if negb had2 then err_tok (pk 1 tsc) "invalid format() parameter" else Parser.Ok (p2, tsc)
  else Parser.Ok (p0, ts3).

Definition pf_p0 : fparams :=
  let font0 := match cli_font with [] => fcDefault fc | _ => cli_font end in
  {| pFont := font0; pFontTok := None; pMax := cli_maxlen; pLines := (-1)%Z; pCursor := (-1)%Z; pSpec := [] |}.

Definition pf_finish (ttok : token) (sty : text) (p : fparams) (ts5 : toks) : res (token * text * text * toks) :=
  let f := font_of fc (pFont p) in
  let maxl := if (pMax p <=? 0)%Z then fMaxLen f else pMax p in
  let nl := if (pLines p <=? 0)%Z then (if (fNumLines f <=? 0)%Z then 2%Z else fNumLines f) else pLines p in
  let cu := if (pCursor p <=? 0)%Z then fCursor f else pCursor p in
  match format_text fc (tlit ttok) maxl cu (pFont p) nl with
  | Some out => Parser.Ok (ttok, out, sty, ts5)
  | None => if ee then err_tok (match pFontTok p with Some tk => tk | None => ttok end) "unknown fontID"
            else Parser.Ok (ttok, [], sty, ts5)
  end.

Lemma parse_format_stages ts :
  parse_format fc cli_font cli_maxlen ee ts =
  match expect_peek LPAREN ts with
  | None => err_range (cur ts) (pk 1 ts) "format operator must begin with an open parenthesis"
  | Some ts1 =>
      let '(sty, ts2) := if peekis STRINGTYPE ts1 then (tlit (pk 1 ts1), adv ts1) else ([], ts1) in
      match expect_peek STRING ts2 with
      | None => err_tok (pk 1 ts2) "invalid format() argument. Expected a string literal"
      | Some ts3 =>
          do (p, ts4) <- pf_params pf_p0 ts3;
          match expect_peek RPAREN ts4 with
          | None => err_tok (pk 1 ts4) "missing closing parenthesis ')' for format()"
          | Some ts5 => pf_finish (cur ts3) sty p ts5
          end
      end
  end.
Proof. reflexivity. Qed.

Ltac good3 GS := first [ apply G_adv_inv; [lia|good GS]
                       | apply G_adv_inv; [lia|]; eapply G_le; [|apply G_adv_inv; [|good GS]]; lia ].
Ltac tr2 GS :=
  repeat first
  [ rewrite swap_adv by good GS
  | rewrite swap_peekis by good GS
  | rewrite swap_curis by good GS
  | rewrite swap_cur by good GS
  | rewrite swap_pk1 by good GS
  | rewrite swap_pk2 by good3 GS
  | rewrite swap_expect_peek by good GS
  | match goal with E : ?t = _ |- context [?t] => rewrite E end
  | progress cbv beta iota zeta
  | progress cbn [andb orb negb] ].

Lemma pf_pos_swap p0 tsa p1 had1 ex tsb :
  pf_pos p0 tsa = Parser.Ok (p1, had1, ex, tsb) -> Gw 2 tsb ->
  pf_pos p0 (swap tsa) = Parser.Ok (p1, had1, ex, swap tsb).
Proof.
  intros H GS. unfold pf_pos in H. destruct (peekis COMMA (adv tsa)) eqn:CC.
  - ok_split H; cbn [andb orb negb] in *; try rewrite CC in *;
      try (match type of GS with context [peekis COMMA ?s] => destruct (peekis COMMA s) eqn:? end);
      unfold pf_pos; tr2 GS; reflexivity.
  - ok_split H; cbn [andb orb negb] in *; try discriminate; try rewrite CC in *;
      try (match type of GS with context [peekis COMMA ?s] => destruct (peekis COMMA s) eqn:? end);
      unfold pf_pos; tr2 GS; reflexivity.
Qed.

Lemma pf_pos_advs p0 tsa p1 had1 ex tsb : pf_pos p0 tsa = Parser.Ok (p1, had1, ex, tsb) -> forall a, advs a tsa -> advs a tsb.
Proof. intros H a A. unfold pf_pos in H. ok_split H; advs_go. Qed.

Lemma pf_params_swap p0 ts3 p ts4 :
  pf_params p0 ts3 = Parser.Ok (p, ts4) -> Gw 2 ts4 ->
  pf_params p0 (swap ts3) = Parser.Ok (p, swap ts4).
Proof.
  intros H GS. unfold pf_params in H |- *.
  destruct (peekis COMMA ts3) eqn:C0.
  - cbv zeta in H.
    destruct (pf_pos p0 (adv ts3)) as [[[[p1 had1] ex] tsb]| | |] eqn:PP; try discriminate H.
    destruct ex.
    + destruct (named_loop (S (List.length tsb)) tsb p1 had1) as [[[p2 had2] tsc]| | |] eqn:NL; try discriminate H.
      destruct (negb had2) eqn:HD; [discriminate H|]. injection H as <- <-.
      assert (Gb : Gw 2 tsb) by (eapply G_advs; [|exact GS]; eapply ProgSrc.named_loop_advs; [exact NL|apply advs_refl]).
      assert (G3 : Gw 2 ts3) by (eapply G_advs; [|exact Gb]; eapply pf_pos_advs; [exact PP|apply advs_step, advs_refl]).
      rewrite swap_peekis by exact G3. rewrite C0. cbv zeta. rewrite swap_adv by (eapply G_le; [|exact G3]; lia).
      rewrite (pf_pos_swap _ _ _ _ _ _ PP Gb).
      rewrite (named_loop_swap _ _ _ _ _ _ _ NL GS).
      * rewrite HD. reflexivity.
      * apply swap_len_bound; eapply G_le; try eassumption; lia.
    + destruct (negb had1) eqn:HD; [discriminate H|]. injection H as <- <-.
      assert (G3 : Gw 2 ts3) by (eapply G_advs; [|exact GS]; eapply pf_pos_advs; [exact PP|apply advs_step, advs_refl]).
      rewrite swap_peekis by exact G3. rewrite C0. cbv zeta. rewrite swap_adv by (eapply G_le; [|exact G3]; lia).
      rewrite (pf_pos_swap _ _ _ _ _ _ PP GS). rewrite HD. reflexivity.
  - injection H as <- <-. rewrite swap_peekis by exact GS. rewrite C0. reflexivity.
Qed.

Lemma pf_params_advs p0 ts3 p ts4 : pf_params p0 ts3 = Parser.Ok (p, ts4) -> forall a, advs a ts3 -> advs a ts4.
Proof.
  intros H a A. unfold pf_params in H. ok_split H;
    advs_gox ltac:(fun K => first [eapply ProgSrc.named_loop_advs; [exact K|] | eapply pf_pos_advs; [exact K|]]).
Qed.

Lemma parse_format_swap a tk v sty x :
  parse_format fc cli_font cli_maxlen ee a = Parser.Ok (tk, v, sty, x :: ra) ->
  parse_format fc cli_font cli_maxlen ee (swap a) = Parser.Ok (tk, v, sty, x :: rb).
Proof.
  intros H. rewrite parse_format_stages in H. rewrite parse_format_stages.
  destruct (expect_peek LPAREN a) as [ts1|] eqn:P1; [|discriminate H].
  set (sty2 := if peekis STRINGTYPE ts1 then (tlit (pk 1 ts1), adv ts1) else ([], ts1)) in *.
  destruct sty2 as [sty0 ts2] eqn:ST.
  destruct (expect_peek STRING ts2) as [ts3|] eqn:P2; [|discriminate H].
  destruct (pf_params pf_p0 ts3) as [[p ts4]| | |] eqn:PP; try discriminate H.
  destruct (expect_peek RPAREN ts4) as [ts5|] eqn:P3; [|discriminate H].
  assert (E5 : ts5 = x :: ra).
  { unfold pf_finish in H. cbv zeta in H. destruct (format_text _ _ _ _ _ _); [injection H as _ _ _ E; exact E|].
    destruct ee; [discriminate H|injection H as _ _ _ E; exact E]. }
  assert (G4 : Gw 2 ts4) by (eapply G_last; rewrite <- E5; symmetry; eapply expect_peek_some; exact P3).
  assert (G3 : Gw 2 ts3) by (eapply G_advs; [|exact G4]; eapply pf_params_advs; [exact PP|apply advs_refl]).
  assert (G2 : Gw 2 ts2) by (eapply G_advs; [|exact G3]; eapply advs_k_peek; [exact P2|apply advs_refl]).
  assert (G1 : Gw 2 ts1).
  { eapply G_advs; [|exact G2]. subst sty2. destruct (peekis STRINGTYPE ts1); injection ST as _ <-; [apply advs_step|]; apply advs_refl. }
  assert (G0 : Gw 2 a) by (eapply G_advs; [|exact G1]; eapply advs_k_peek; [exact P1|apply advs_refl]).
  rewrite swap_expect_peek by exact G0. rewrite P1.
  rewrite swap_peekis by exact G1. rewrite swap_pk1 by exact G1. rewrite swap_adv by (eapply G_le; [|exact G1]; lia).
  assert (ST' : (if peekis STRINGTYPE ts1 then (tlit (pk 1 ts1), swap (adv ts1)) else ([], swap ts1)) = (sty0, swap ts2)).
  { subst sty2. destruct (peekis STRINGTYPE ts1); injection ST as <- <-; reflexivity. }
  rewrite ST'. rewrite swap_expect_peek by exact G2. rewrite P2.
  rewrite (pf_params_swap _ _ _ _ PP G4). rewrite swap_expect_peek by exact G4. rewrite P3.
  rewrite swap_cur by (eapply G_le; [|exact G3]; lia).
  subst ts5. change (x :: ra) with ([x] ++ ra). rewrite swap_app. cbn [app].
  unfold pf_finish in H |- *. cbv zeta in H |- *.
  destruct (format_text _ _ _ _ _ _); [injection H as <- <- <-; reflexivity|].
  destruct ee; [discriminate H|injection H as <- <- <-; reflexivity].
Qed.
End PF.
End SWAP.


Lemma parse_format_result fc cli_font cli_maxlen ee a tk v sty p2 :
  parse_format fc cli_font cli_maxlen ee a = Parser.Ok (tk, v, sty, p2) -> p2 <> [] /\ ttype (cur p2) = RPAREN.
Proof.
  intros H. rewrite parse_format_stages in H.
  destruct (expect_peek LPAREN a) as [ts1|] eqn:P1; [|discriminate H].
  destruct (if peekis STRINGTYPE ts1 then (tlit (pk 1 ts1), adv ts1) else ([], ts1)) as [sty0 ts2].
  destruct (expect_peek STRING ts2) as [ts3|] eqn:P2; [|discriminate H].
  destruct (pf_params (pf_p0 fc cli_font cli_maxlen) ts3) as [[p ts4]| | |] eqn:PP; try discriminate H.
  destruct (expect_peek RPAREN ts4) as [ts5|] eqn:P3; [|discriminate H].
  assert (E5 : ts5 = p2).
  { unfold pf_finish in H. cbv zeta in H. destruct (format_text _ _ _ _ _ _); [injection H as _ _ _ E; exact E|].
    destruct ee; [discriminate H|injection H as _ _ _ E; exact E]. }
  subst ts5. eapply expect_peek_shape; [|exact P3]. discriminate.
Qed.

Theorem real_format_local fc cli_font cli_maxlen ee : format_local (parse_format fc cli_font cli_maxlen ee).
Proof.
  intros p tk v sty p2 EO H.
  destruct (parse_format_result _ _ _ _ _ _ _ _ _ H) as [NE TR].
  pose proof (ProgSrc.parse_format_advs _ _ _ _ _ _ _ _ _ H p (advs_refl p)) as A.
  destruct (advs_suffix _ _ A) as (body & E).
  pose proof (advs_eof _ _ A EO) as EO2.
  destruct p2 as [|x rest]; [congruence|]. cbn [cur hd] in TR.
  assert (RN : rest <> []).
  { intros ->. destruct EO2 as [_ K]. cbn in K. congruence. }
  exists body, x, rest. split; [exact E|]. split; [reflexivity|].
  intros R RNE. subst p.
  pose proof (parse_format_swap rest R RN RNE fc cli_font cli_maxlen ee (body ++ x :: rest) tk v sty x H) as K.
  replace (body ++ x :: rest) with ((body ++ [x]) ++ rest) in K by (rewrite <- app_assoc; reflexivity).
  rewrite swap_app in K. rewrite <- app_assoc in K. exact K.
Qed.

(* T4 for the real format operator: no hypothesis about format() left *)
Theorem text_statement_erasure_real_format :
  forall switches env_errors fc cli_font cli_maxlen f ts td ts',
    let pf := parse_format fc cli_font cli_maxlen env_errors in
    eof_ended ts -> parse_text switches env_errors pf f ts = Parser.Ok (td, ts') ->
    exists hd lb body,
      ts = hd ++ lb :: body /\ ttype lb = LBRACE /\
      (curis PORYSWITCH body = true ->
       exists sc sv ts1 l ts2,
         poryswitch_header switches env_errors body = Parser.Ok (sc, sv, ts1) /\
         text_case_seq pf ts1 l ts2 /\ curis RBRACE ts2 = true /\
         match pory_select (rev l) sv with
         | None => env_errors = false /\ xvalue td = [] /\ xtype td = []
         | Some _ =>
             exists x l1 l2 tsc tsn,
               l = l1 ++ (x, (xvalue td, xtype td)) :: l2 /\ assoc l2 x = None /\
               (x = sval sv \/ (x = t "_" /\ assoc l (sval sv) = None)) /\
               text_case_seq pf ts1 l1 tsc /\
               text_case_step pf tsc x (xvalue td) (xtype td) tsn /\
               exists src lastx,
                 (exists tail, adv (adv tsc) = src ++ lastx :: tail) /\
                 forall f', parse_text switches env_errors pf f' (hd ++ lb :: src ++ lastx :: ts') = Parser.Ok (td, ts')
         end).
Proof.
  intros switches env_errors fc cli_font cli_maxlen f ts td ts' pf EO H.
  destruct (text_statement_erasure _ _ _ _ _ _ _ EO H) as (hd & lb & body & E & Tl & K).
  exists hd, lb, body. split; [exact E|]. split; [exact Tl|]. intros CP.
  destruct (K CP) as (sc & sv & ts1 & l & ts2 & HH & CS & RB & SEL).
  exists sc, sv, ts1, l, ts2. split; [exact HH|]. split; [exact CS|]. split; [exact RB|].
  destruct (pory_select (rev l) sv); [|exact SEL].
  destruct SEL as (x & l1 & l2 & tsc & tsn & El & N & XX & CS1 & ST & REP).
  exists x, l1, l2, tsc, tsn. split; [exact El|]. split; [exact N|]. split; [exact XX|]. split; [exact CS1|]. split; [exact ST|].
  apply REP. right. apply real_format_local.
Qed.

(* ============================================================================================================ *)
(* EXAMPLES: the hypotheses are satisfiable on concrete programs (lexed by the model's lexer)                    *)
(* ============================================================================================================ *)
Module Examples.
Definition lx (s : string) : toks := lex (fun _ => false) (fun _ => false) (fun _ => false) (t s).
Definition sw : list (text * text) := [(t "G", t "x"); (t "H", t "z")].     (* -s G=x -s H=z *)
Definition names (l : list token) : list text := map tlit l.

(* movement: brace and colon cases, a multiplier inside a case, a nested poryswitch falling back to '_' *)
Definition mov_src := lx "movement M { a poryswitch(G) { x { b * 2 poryswitch(H) { y: c _: d } } _: e } f }".
Example mov_eof : eof_ended mov_src.
Proof. split; [discriminate|reflexivity]. Qed.
Example mov_parses :
  exists g tk mv ts', parse_movement sw true 100 mov_src = Ok (TMovement (t "M") g tk mv, ts') /\
                      names mv = [t "a"; t "b"; t "b"; t "d"; t "f"].
Proof. vm_compute. eexists _, _, _, _. split; reflexivity. Qed.
Definition mov_erased_src : list token :=
  match list_erase sw true 100 (LMov RBRACE) true (skipn 3 mov_src) [] with Ok (s, _) => s | _ => [] end.
Definition mov_rest : toks :=
  match list_erase sw true 100 (LMov RBRACE) true (skipn 3 mov_src) [] with Ok (_, r) => r | _ => [] end.
Example mov_erased :
  list_erase sw true 100 (LMov RBRACE) true (skipn 3 mov_src) [] = Ok (mov_erased_src, mov_rest) /\
  names mov_erased_src = [t "a"; t "b"; t "*"; t "2"; t "d"; t "f"] /\
  parse_movement sw true 100 (firstn 3 mov_src ++ mov_erased_src ++ mov_rest) = parse_movement sw true 100 mov_src.
Proof. split; [vm_compute; reflexivity|]. split; vm_compute; reflexivity. Qed.

(* the same program with a second case for the selected label: the LAST one wins *)
Example mov_last_case_wins :
  exists g tk mv ts', parse_movement sw true 100 (lx "movement M { poryswitch(G) { x: a y: b x { c d } } }")
                      = Ok (TMovement (t "M") g tk mv, ts') /\ names mv = [t "c"; t "d"].
Proof. vm_compute. eexists _, _, _, _. split; reflexivity. Qed.

(* no matching case, no '_': normal mode fails, lint mode contributes nothing *)
Example mov_no_case :
  (exists e, parse_movement sw true 100 (lx "movement M { a poryswitch(G) { y: b } c }") = Err e /\ emsg e = t "no poryswitch case found") /\
  (exists g tk mv ts', parse_movement sw false 100 (lx "movement M { a poryswitch(G) { y: b } c }")
                       = Ok (TMovement (t "M") g tk mv, ts') /\ names mv = [t "a"; t "c"]).
Proof. vm_compute. split; [eexists; split; reflexivity|eexists _, _, _, _; split; reflexivity]. Qed.

(* mart and moves() *)
Example mart_parses :
  exists g tk its toks' ts', parse_mart sw true [] 100 (lx "mart M { A poryswitch(H) { y: B _ { C poryswitch(G) { x: D } } } E }")
                             = Ok (TMart (t "M") g tk its toks', ts') /\ its = [t "A"; t "C"; t "D"; t "E"].
Proof. vm_compute. eexists _, _, _, _, _. split; reflexivity. Qed.
Example moves_parses :
  exists mv ts', moves_operator sw true 100 (lx "moves(a poryswitch(G) { x { b * 2 } } c)") = Ok (mv, ts') /\
                 names mv = [t "a"; t "b"; t "b"; t "c"].
Proof. vm_compute. eexists _, _. split; reflexivity. Qed.

(* text: colon and brace cases, a string type, the last case with the label wins *)
Definition pf0 : toks -> res (token * text * text * toks) := fun _ => Panic.
Definition text_src := lx "text T { poryswitch(G) { x: ""A"" x { ascii""C"" } _ { ""B"" } } }".
Example text_eof : eof_ended text_src.
Proof. split; [discriminate|reflexivity]. Qed.
Example text_parses :
  exists td ts', parse_text sw true pf0 100 text_src = Ok (td, ts') /\
                 xvalue td = [67; 92; 48]%N /\ xtype td = t "ascii" /\
                 exists td2 ts2, parse_text sw true pf0 100 (lx "text T { ascii""C"" }") = Ok (td2, ts2) /\
                                 xvalue td2 = xvalue td /\ xtype td2 = xtype td /\ xname td2 = xname td /\ xglob td2 = xglob td.
Proof.
  vm_compute. eexists _, _. split; [reflexivity|]. split; [reflexivity|]. split; [reflexivity|].
  eexists _, _. split; [reflexivity|]. repeat split; reflexivity.
Qed.

(* format_local is satisfiable by an operator that really consumes tokens: `format ( STRING )` *)
Definition pf_toy (ts : toks) : res (token * text * text * toks) :=
  match ts with
  | _ :: lp :: s :: rp :: r => if is LPAREN lp && is STRING s && is RPAREN rp then Ok (s, tlit s, [], rp :: r)
                               else err_tok (cur ts) "bad format"
  | _ => err_tok (cur ts) "bad format"
  end.
Example format_local_toy : format_local pf_toy.
Proof.
  intros p tk v sty p2 _ H. destruct p as [|a [|lp [|s [|rp r]]]]; try discriminate H. cbn [pf_toy] in H.
  destruct (is LPAREN lp && is STRING s && is RPAREN rp) eqn:C; [|discriminate H]. injection H as <- <- <- <-.
  exists [a; lp; s], rp, r. split; [reflexivity|]. split; [reflexivity|]. intros R _. cbn [app pf_toy]. rewrite C. reflexivity.
Qed.
Example text_format_parses :
  exists td ts', parse_text sw true pf_toy 100 (lx "text T { poryswitch(G) { y: ""A"" x { format(""F"") } } }") = Ok (td, ts') /\
                 xvalue td = [70; 36]%N.
Proof. vm_compute. eexists _, _. split; reflexivity. Qed.

(* the same with the model's own format operator *)
Definition fc0 : fontcfg :=
  {| fcDefault := t "f"; fcFonts := [(t "f", {| fWidths := []; fCursor := 0%Z; fMaxLen := 100%Z; fNumLines := 2%Z |})] |}.
Definition pf_real := parse_format fc0 [] 0%Z true.
Example text_real_format_parses :
  exists td ts', parse_text sw true pf_real 100 (lx "text T { poryswitch(G) { y: ""A"" x { format(""Hello world"", ""f"", 40) } } }") = Parser.Ok (td, ts') /\
                 xvalue td = t "Hello world$" /\
                 exists td2 ts2, parse_text sw true pf_real 100 (lx "text T { format(""Hello world"", ""f"", 40) }") = Parser.Ok (td2, ts2) /\
                                 xvalue td2 = xvalue td /\ xtype td2 = xtype td.
Proof.
  vm_compute. eexists _, _. split; [reflexivity|]. split; [reflexivity|]. eexists _, _. split; [reflexivity|]. split; reflexivity.
Qed.

(* OBSERVATIONS about the model (the Go code reads the same way, parser.go parseMovementValue):
   1. replacing only the OUTER poryswitch is not always neutral inside moves(): the content of a brace case is parsed
      with '}' as closing token, so an empty colon case of a nested poryswitch is accepted there, but not when the
      nested poryswitch stands directly in moves( ) where the closing token is ')'.  With every poryswitch replaced
      (list_erase) the result is again the same: this is why the erasure theorem is about the full erasure. *)
Example moves_nested_empty_colon_case :
  (exists ts', moves_operator sw true 100 (lx "moves(poryswitch(G) { x { poryswitch(H) { z: } } })") = Ok ([], ts')) /\
  (exists e, moves_operator sw true 100 (lx "moves(poryswitch(H) { z: })") = Err e /\ emsg e = t "expected movement command") /\
  (exists ts', moves_operator sw true 100 (lx "moves()") = Ok ([], ts')).
Proof. vm_compute. split; [eexists; reflexivity|]. split; [eexists; split; reflexivity|eexists; reflexivity]. Qed.
(* 2. the equality of C12 holds in the direction proved above (the program with poryswitch compiles => the replaced
      program compiles to the same); the converse fails: a multiplier cannot follow a poryswitch *)
Example multiplier_after_poryswitch :
  (exists e, parse_movement sw true 100 (lx "movement M { poryswitch(G) { x: a } * 3 }") = Err e /\ emsg e = t "expected movement command") /\
  (exists g tk mv ts', parse_movement sw true 100 (lx "movement M { a * 3 }") = Ok (TMovement (t "M") g tk mv, ts') /\
                       names mv = [t "a"; t "a"; t "a"]).
Proof. vm_compute. split; [eexists; split; reflexivity|eexists _, _, _, _; split; reflexivity]. Qed.
End Examples.
